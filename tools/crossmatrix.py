#!/venv/bin/python
"""crossmatrix.py [--jobs N]  -- run every quick check against every confirmed seeded change (which checks catch which changes).

For each /verif/seeded/<id>/patch.diff a patched scratch copy of /repo/py4hw is made under /tmp (removed afterwards) and all
20 quick checks run with PY4HW_ROOT pointing at it.  Evidence files are rewritten by these runs: re-run the checks on the
unchanged tree afterwards.  Result: /verif/seeded/MATRIX.json  {seed: {check: exit code}}.
"""
import concurrent.futures as cf
import glob, json, os, shutil, subprocess, sys, tempfile

CHECKS = ['C%02d' % i for i in range(1, 21)]

def prep(seed_dir):
    d = tempfile.mkdtemp(prefix='py4hw-x-')
    shutil.copytree('/repo/py4hw', os.path.join(d, 'py4hw'), ignore=shutil.ignore_patterns('__pycache__'))
    # only the library part of a patch is applied (a seeded commit may also add unit tests)
    r = subprocess.run(['git', 'apply', '--whitespace=nowarn', '--include=py4hw/*', os.path.abspath(os.path.join(seed_dir, 'patch.diff'))], cwd=d,
                       stdout=subprocess.PIPE, stderr=subprocess.STDOUT)
    if r.returncode:
        r = subprocess.run(['patch', '-p1', '-s', '--binary', '-i', os.path.abspath(os.path.join(seed_dir, 'patch.diff'))], cwd=d, stdout=subprocess.PIPE, stderr=subprocess.STDOUT)
        if r.returncode:
            shutil.rmtree(d, ignore_errors=True)
            return None
    return d

def one(args):
    seed, root, chk = args
    env = dict(os.environ, PY4HW_ROOT=root, VERIF_EVIDENCE_DIR='/tmp/xm-evidence')
    try:
        r = subprocess.run(['./check', chk, '--tier', 'quick'], cwd='/verif', env=env, stdout=subprocess.PIPE, stderr=subprocess.DEVNULL, timeout=1500)
        return seed, chk, r.returncode
    except subprocess.TimeoutExpired:
        return seed, chk, 'timeout'

def main():
    jobs = int(sys.argv[sys.argv.index('--jobs') + 1]) if '--jobs' in sys.argv else 8
    seeds = sorted(glob.glob('/verif/seeded/C*-*'))
    if '--only' in sys.argv:
        # e.g. --only IJ : only seeds whose label is one of these letters; the result is merged into the existing matrix
        letters = sys.argv[sys.argv.index('--only') + 1]
        seeds = [s for s in seeds if s[-1] in letters]
    roots = {}
    for s in seeds:
        r = prep(s)
        if r:
            roots[os.path.basename(s)] = r
    tasks = [(s, r, c) for s, r in roots.items() for c in CHECKS]
    if '--own' in sys.argv:
        # only the check of the seed's own property (regression run after a strengthening round); merged into the matrix
        tasks = [(s, r, s[:3]) for s, r in roots.items()]
    res = {s: {} for s in roots}
    try:
        with cf.ThreadPoolExecutor(jobs) as ex:
            for seed, chk, rc in ex.map(one, tasks):
                res[seed][chk] = rc
    finally:
        for r in roots.values():
            shutil.rmtree(r, ignore_errors=True)
        subprocess.run("find /verif/replays -name '*.json' -delete", shell=True)
    if ('--only' in sys.argv or '--own' in sys.argv) and os.path.exists('/verif/seeded/MATRIX.json'):
        old = json.load(open('/verif/seeded/MATRIX.json'))
        for k, v in res.items():
            if '--own' in sys.argv:
                old.setdefault(k, {}).update(v)
            else:
                old[k] = v
        res = old
    json.dump(res, open('/verif/seeded/MATRIX.json', 'w'), indent=1, sort_keys=True)
    for s in sorted(res):
        print(s, 'caught by', [c for c in CHECKS if res[s].get(c) == 1], 'inconclusive', [c for c in CHECKS if res[s].get(c) == 2])

if __name__ == '__main__':
    main()
