"""Per-property MANIFEST entries (level, technique, trusted base)."""
CHECKS = {
 'C01': dict(level='translation_validation', engine='E4 verilog interpreter + E2 catalogue + dutgen',
   technique='translation validation by lockstep co-execution: real simulator vs. emitted Verilog run by the /verif Verilog-subset interpreter, outputs compared every cycle',
   text='Each generated design (unit wrappers of every catalogue block emitted five ways -- direct, nested, twice, with parent nets named like the block\'s internal wires, built by a caller that reuses its lists --, '
        'configurations from 1 to 100 bits, sequential blocks, parameter-boundary and wide-control classes, clock drivers not named like their wire, reuse designs, random compositions with '
        'hierarchy, register feedback and wide registers, hand-written bodies) is validated individually: the py4hw simulator and the interpreter of the emitted text run in lockstep from power-up and all '
        'top-level outputs are compared at power-up, after every input change and after every edge. Held = no disagreement on the programs/comparisons counted in the evidence. Also: block constants taken from a Parameter object owned by an enclosing module 0-2 levels up, with same-named parameters in between.',
   note='Trusted: the E4 reading of IEEE 1364-2005 (DESIGN.md Appendix A, self-tested at setup), zero power-up for uninitialised Verilog state; x sources, multi-clock and inout designs are skipped as indeterminate; unsized literals beyond 32 bits are judged only where the two extreme readings of the standard agree (two interpreters side by side).',
   ref='DESIGN.md section 4 C01'),
 'C07': dict(level='exploration', engine='E2 catalogue + reference models',
   technique='runtime reference-model monitor: real blocks simulated under exhaustive/boundary/random inputs, outputs judged by independent integer references',
   text='Every arithmetic block of the catalogue is executed in the real simulator for every legal width/parameter configuration of the grid; '
        'inputs are exhaustive for small widths and boundary x boundary + random beyond; each output is compared with an independent integer reference. '
        'Every configuration is also built by a caller that reuses the list objects it passed, with one wire shared by several input ports, and with every input driven by a buffer created after the block. '
        'Held = no disagreement on the evaluations counted in the evidence; nothing is claimed for widths/configurations outside the grid (1..100 bits). Also: histories on one instance that return to an earlier vector (A,B,A) and, for blocks with a domain restriction, A / outside-domain input applied unjudged / A.',
   note='Trusted: the integer references in vlib/catalog.py (written from the docstrings/property text) and the readings listed under assumptions.',
   ref='DESIGN.md section 4 C07'),
 'C08': dict(level='exploration', engine='E2 catalogue + reference models',
   technique='runtime reference-model monitor: real blocks simulated under exhaustive truth-table enumeration, outputs judged by independent truth-table references',
   text='Every gate/selector/comparator block is executed in the real simulator over all arities/widths/constants of the grid, exhaustively over inputs when the total '
        'input width is <= 12/14 bits; outputs compared with truth-table references; same hostile constructions as C07 (reused caller lists, shared input wires, late drivers), result wires wider than the flag. Held = no disagreement on what was enumerated. Also: control wires wider than one bit (reference = documented LSB-only behaviour where documented).',
   note='Trusted: the truth-table references in vlib/catalog.py and the documented-domain readings listed under assumptions.',
   ref='DESIGN.md section 4 C08'),
 'C09': dict(level='exploration', engine='E2 sequential catalogue (vlib/seqcat.py) + reference state machines',
   technique='lockstep reference-state-machine monitor over random duty-cycled control histories plus breadth-first walk of the real simulator state space',
   text='Each sequential library block runs in the real simulator in lockstep with an independent pure-Python reference state machine: random control histories with long holds, bursts and '
        'reset storms, and for small configurations a breadth-first walk over the real simulator state space applying every input vector from every reached state. Outputs compared after every edge '
        '(and pre-edge for input-dependent outputs). Also: a size family for every block with a size parameter (DelayLine delays up to 100/200, depths, address widths, moduli around powers of two) with reset-while-disabled events.',
   note='Trusted: the reference machines in vlib/seqcat.py; undocumented input combinations (push+pop, shift both ways, double write to one address) are not applied.',
   ref='DESIGN.md section 4 C09'),
 'C10': dict(level='exploration', engine='E2 sequential catalogue + plan generator for gated clock domains',
   technique='runtime twin/reference monitor: gated and ungated copies of sequential blocks stepped under generated enable sequences, frozen-state and reference-step oracles per edge',
   text='Generated designs place catalogue sequential blocks under clock drivers with enables (poked, external register, self-gating, GatedClock output; 1-3 domains, drivers at depth 1-3, multi-bit '
        'enables). Per edge: if the enable read 0 every wire and state attribute of the domain is unchanged, otherwise it equals the reference step; other domains follow their own references; the '
        'leaf-to-driver assignment is checked against the plan. Evidence counts edges with enable 0 and non-zero per enable kind. Also: chains of 2-3 derived drivers (base=) with independent enables, every block judged against its own driver\'s enable only, all enable combinations reached.',
   note='Trusted: reference machines of vlib/seqcat.py; nested domains follow their own nearest driver only.',
   ref='DESIGN.md section 4 C10'),
 'C15': dict(level='exploration', engine='harness probe clockables + WaveDrom decoder',
   technique='invariant-at-hook monitor: probe clockables before and after the Waveform record pre-edge wire values each cycle; recorder contents and decoded WaveDrom rendering must equal the probe log',
   text='Generated recordings (widths 1-64, forced repeats, duplicates, port/wire aliases, clear(), zero cycles, split clk calls) are observed by harness probes that run in the clocking phase; '
        'Waveform.getDict() and the decoded get_wavedrom() output must equal the probe log sample for sample. Also: clock drivers sharing a name with the system driver or with each other, and recorders inside gated domains. Also: clock-enable wires of 2, 3, 8 bits carrying values above 1.',
   note='Trusted: the probe clockables see the same pre-edge values as the recorder (checked: probes placed before and after must agree, else inconclusive); the WaveDrom decoder written here.',
   ref='DESIGN.md section 4 C15'),
 'C16': dict(level='exploration', engine='schedule generator + shadow models',
   technique='runtime shadow-model monitor over generated control/handshake schedules (back-pressure, back-to-back beats, load while pending, reset/done mid-transfer)',
   text='Axi2Reg and Reg2Axi run under generated schedules obeying the single environment assumption of the property (done only after a completed transfer); per cycle the READY/active, loaded/q, '
        'VALID-hold, data, LAST, KEEP and sent clauses are checked against a shadow model. Also: uninterrupted stalls of 2**k+16 cycles (k up to 20 quick, 21 thorough) for both adapters, judged after every clk(n) chunk.',
   note='Trusted: the shadow models; VALID staying high after an acceptance is counted, not judged (the statement only forbids dropping it early).',
   ref='DESIGN.md section 4 C16'),
 'C17': dict(level='exploration', engine='history monitor at the ready/valid boundaries + software 8N1 receiver',
   technique='offline history checker (accepted vs delivered byte sequences, bounded progress) plus an independent software 8N1 receiver over the recorded line trace',
   text='Serializer -> line -> clock recovery + deserializer, as wired in the HIL wrapper, driven with all 256 byte values and random sequences, producer gaps none/1/random, oblivious receiver pacing, '
        'divider ratios 4..64 incl. odd and non-integer requests. Delivered sequence must equal accepted sequence within 16 bit periods per byte; a software receiver sampling mid-bit at the realised bit '
        'period must recover the same bytes from the tx trace. Also: large ratios 2**k-2..2**k+2 up to 2**14 (2**17 thorough) and real baud pairs up to 10416 (41666) clocks per bit with a few bytes each, and one long-lived link kept alive past 2**16+2**12 uart ticks (2**17 thorough).',
   note='Trusted: the software receiver; receiver pacing within what the unchanged link tolerates (stalls up to 11 bit periods - 2 clocks, take-cycle swept up to the last legal cycle); liveness restated as bounded progress.',
   ref='DESIGN.md section 4 C17'),
 'C20': dict(level='exploration', engine='command stream generator + per-cycle trace oracle',
   technique='offline trace checker over recorded strobe/handshake traces of generated command streams and response runs',
   text='CMDRequest is fed generated command streams (I/value/O/K commands, 1-8 hex digits, random valid gaps, several wire widths); from per-cycle traces each strobe must pulse exactly once per command '
        'with the transmitted number, K n; must give exactly n clock pulses, no other strobe may move. CMDResponse must emit "=", the value as the requested count of upper-case hex digits MSB first, "!" '
        'under oblivious consumer pacing, within a progress bound. Also: one pause of 2**k+16 cycles (k up to 17, plus 18 and 19 inside a command, quick; 20 thorough) at every position inside and between commands and before every response character.',
   note='Trusted: the trace oracle; a strobe pulse is one contiguous high run inside the command window; CMDResponse size is a nibble count.',
   ref='DESIGN.md section 4 C20'),
 'C02': dict(level='translation_validation', engine='E4 verilog interpreter + program generator (vlib/c02.py)',
   technique='translation validation by lockstep co-execution of generated behavioural classes: Python method in the real simulator vs. transpiled always-block module in the /verif interpreter, with a domain filter',
   text='Library behavioural classes and classes generated from a grammar over the supported subset (plus the same grammar with one unsupported or suspect construct injected) are '
        'transpiled by the real generator; each accepted program is validated individually by co-executing the Python method and the emitted module for 32-64 cycles, comparing outputs and integer state '
        'after every step that stays inside the domain of the statement. Refusals are acceptable; accepted text must be valid and equivalent. A 58-construct corpus (every match pattern kind, statement and expression form; subject steered to listed and unlisted values) is either refused or co-simulated, and every accepted text must assign each declared integer it reads. A 25-shape constructor family (state re-assigned, bool/int mixes, non-literal statements) is co-simulated from power-up.',
   note='Trusted: E4 semantics incl. the unbounded-integer shadow evaluation used as domain filter; programs are real .py files (inspect.getsource); after an out-of-domain step the Verilog state is re-synchronised to the Python state.',
   ref='DESIGN.md section 4 C02'),
 'C03': dict(level='exploration', engine='E4 parser + elaborator + well-formedness checker',
   technique='offline checker over recorded generator output: every emitted text is parsed, resolved and elaborated by an independent front end; interchangeability judged from the live objects sharing a module name',
   text='Every text emitted for the unit, sequential, random-composition, naming-stress, optional-port-reuse, system-block and transpiled-corpus workloads is parsed, resolved and elaborated: identifiers declared '
        'exactly once and not reserved, instantiated modules defined once with matching ports/widths/directions, one driver of the right kind per net; objects that share a module name must have '
        'identical interfaces and bodies. Also: one text per IEEE 1364-2005 keyword (own list of 124) and naming position, and designs built through edit histories of the netlist API (Interface add/remove/re-add, reconnectIn, disconnect).',
   note='Trusted: the E4 front end; leniencies: bit-select [0] of a scalar, widths of unsized literals, memories written from two always blocks (dual-port RAM template), never-instantiated modules.',
   ref='DESIGN.md section 4 C03'),
 'C12': dict(level='exploration', engine='reference oracles: struct, fractions.Fraction, integers',
   technique='runtime reference-model monitor: helper functions called on exhaustive half-precision patterns and boundary/random single/double patterns, results judged bit-exactly by struct/Fraction references',
   text='All 2**16 half patterns exhaustively, boundary x boundary + random single/double patterns, two\'s complement exhaustive for small widths, FPNum arithmetic compared as exact rationals, FixedPoint helper on '
        'all small formats exhaustively. Also: object lives of FPNum (in-place mutators x observers; every answer compared with a fresh object of the same components). Also: pairs of 100-200-bit operands agreeing in their leading 53+ bits around double midpoints (exact rational comparison).',
   note='Trusted: struct/Fraction references; NaN payloads excepted as stated.',
   ref='DESIGN.md section 4 C12'),
 'C13': dict(level='exploration', engine='exact rational references for the five single-precision blocks',
   technique='runtime reference-model monitor: real FP blocks simulated over structured operand pairs (all exponent gaps, mantissa boundaries, cancellation pairs, integer boundary set), judged with exact rationals',
   text='FPComparator_SP (plain/absolute), InttoFP_SP, FPtoInt_SP, FPMult_SP and FPAdder_SP are simulated in one system over generated operands covering every exponent gap, mantissa boundary patterns, '
        'opposite-sign close magnitudes and the integer boundary set; each clause of the statement is judged with fractions.Fraction.',
   note='Trusted: the rational references; ulp = larger of ulp(exact) and ulp(returned).',
   ref='DESIGN.md section 4 C13'),
 'C14': dict(level='exploration', engine='exact scaled-integer references',
   technique='runtime reference-model monitor: fixed-point blocks simulated exhaustively over all operand pairs of small formats and boundary/random pairs of wide formats, judged with Fraction arithmetic',
   text='FixedPointAdd/Sub/Mult/Sign/Comparator for every format (1, iw, fw) with iw+fw <= 7 exhaustively over operand pairs, mixed formats, and wide formats on boundary x boundary + random. Also: operand histories returning to earlier pairs on long-lived instances (a combinational block must answer the same whatever came before). Also: every subset of optional comparator outputs the constructor accepts.',
   note='Trusted: the Fraction references; product = floor (bit truncation of the two\'s-complement product).',
   ref='DESIGN.md section 4 C14'),
 'C19': dict(level='exploration', engine='call-history generator over live circuits and never-generated twins',
   technique='runtime call-history monitor: deep structural snapshots around every generation call, twin-circuit simulation traces, normalised text comparison across generation requests',
   text='Random histories of generation requests (same/fresh generator, hierarchy/single module/sub-object, createdStructures list, from the object or an ancestor), simulation steps and late structural '
        'additions over 1-3 live circuits: the circuit snapshot must be identical before and after each call, the twin that never saw a generator must simulate identically and give the same text, all texts '
        'for one (circuit, root) must agree after normalising instance suffixes and declaration order, and a generation that raises must also raise for a fresh copy of the circuit. Also: 2-3 circuits instantiating one generated behavioural class with different constructor constants, generation interleaved and requested in mid-run, each text co-simulated against its own circuit, attribute snapshot (type and value) before/after.',
   note='Trusted: the snapshot covers children, ports, wires (values, sources, sinks), leaf attributes and Wire.prepared; Div/Mod/SignedDiv blocks are excluded (documented random output on zero divisor).',
   ref='DESIGN.md section 4 C19'),
 'C11': dict(level='exploration', engine='construction-plan executor with an independent name/driver model (vlib/c11*.py)',
   technique='runtime reference-model monitor over generated construction sequences with one injected fault (20 fault kinds), plus integrity check over catalogue blocks with single-driver faults',
   text='Generated construction plans (wire creation, instantiation, rename, reparent, interface expansion) are executed on the real library in lockstep with an independent model of names and '
        'drivers; the faulting call must raise and the earlier driver/child/wire must stay in place (compared by identity), fault-free plans must not raise. checkIntegrity is run on every catalogue block '
        'nested 0-5 levels with all port wires driven (must return) and with exactly one driver removed or one port wire left undriven (must raise); expected verdicts come from the plan. Also: ports re-added on existing primitives after a disconnect (same and new names) with a global one-driver invariant after every step, and extra ports on the special wires of a system (clock, gated, base, derived, other scope). Also: wires of one name in several parents and refused reparentAndRename moves, wire tables compared after every step.',
   note='Trusted: the plan model; half-registered newcomers of refused calls, BidirWire drivers, detached ports and InOut ports are outside the statement and not judged.',
   ref='DESIGN.md section 4 C11'),
 'C18': dict(level='exploration', engine='child-process schematic builder + object-graph checker (vlib/c18*.py)',
   technique='offline checker over the recorded object graph of Schematic(obj) built in a child process under a step/time watchdog: symbol multiplicity, rectangle disjointness, per-wire connectivity at pin level',
   text='Every structural catalogue block, the FP/fixed-point and sequential structural blocks and generated netlists (fan-out, register feedback incl. self-loops, long forward edges) are placed and '
        'routed by the real Schematic class in a child process; the resulting objs/nets/symbol_matrix are checked: one symbol per child and port, no overlaps, per wire one connected figure touching the '
        'driving pin and every reading pin and no pin of another wire. A hang is attributed to its case by a watchdog and is a violation (termination is part of the property). Also: several Schematic objects over one hierarchy in one process (parent/child/redraw/sibling/interleaved; every net must end on a symbol of its own drawing) and n-input symbols at fan-ins 2..300. Also: user subclasses of the fixed-pin library symbols that add ports.',
   note='Trusted: the graph checker; wires with zero or several drivers inside the block are excluded; swallowed internal exceptions are counted, the verdict comes from the resulting graph.',
   ref='DESIGN.md section 4 C18'),
 'C04': dict(level='exploration', engine='E1 hooks + E3 netlist generator (vlib/netgen.py)',
   technique='invariant-at-hook monitor (fixpoint re-evaluation of every stateless leaf after construction and every clk), order-permutation twin runs, schedule checked against the plan graph, cyclic-plan rejection',
   text='Generated netlists are built under many permutations of block and wire creation order; after construction and every clock call each stateless leaf is re-evaluated and must leave its '
        'outputs unchanged (fixpoint), all orders must give identical wire values, Simulator.propagatables must be a topological order of the dependency graph recomputed from the plan, and plans with an '
        'injected combinational cycle (length 1, 2, n, through wrappers) must be refused while loops through a register are accepted. Also: groups of 2-4 systems alive in one process with interleaved build/extend/getSimulator/clk schedules.',
   note='Trusted: dependency graph recomputed from the plan; Latch, AsynchronousMemory, BidirBuf, GatedClock and Div/Mod with zero divisor are not stateless and not judged for the fixpoint clause.',
   ref='DESIGN.md section 4 C04'),
 'C05': dict(level='exploration', engine='E1 hooks (event trace) + E3 netlist generator',
   technique='online trace-specification checker over hooked Wire.put/prepare/settle and leaf clock/propagate events, plus schedule-permutation and clk-splitting twin runs',
   text='Per clock cycle the recorded event trace must satisfy: no wire value changes in the clocking phase, every prepare is followed by a settle installing the last prepared value before any '
        'propagate, Wire.prepared empty at cycle end, no settle without prepare. Designs with 2-7 interconnected sequential leaves are run under all/sampled permutations of the clockable lists and driver '
        'order and under different splittings of clk(n); all must agree. Non-trivial designs are those where an immediate-write twin of Reg would be order dependent. Also: Simulator.stop() requested at every position of a clk(n) call and while idle, judged by edges performed per call and by n-vs-singles equality. Also: domains whose drivers differ in phaseOffset with register rings across them; the trajectory must equal that of the same design with every phase 0.',
   note='Trusted: the hook wrappers call the real code first and never change its result; leaf state = scalar and list attributes.',
   ref='DESIGN.md section 4 C05'),
 'C06': dict(level='exploration', engine='E1 hooks (post-conditions on every write, icontract layer when importable) + catalogue/netgen workloads',
   technique='invariant-at-hook monitor: range/type post-condition on every Wire.put/prepare/settle event and full wire sweeps after construction, after every edge, inside listeners and inside a clockable probe',
   text='Catalogue blocks at all widths with extreme operands, negative/oversized constants, stimulus and reset values, and random compositions are simulated with hooks on every wire write; every '
        'reachable wire must hold an integer in [0, 2**width) at every observation point. Non-trivial cases are those where the raw argument of a write was out of range (measured by the hook). Also: constant parameters at their boundaries {0,1,w-1,w,2w,3w} crossed with narrower/equal/wider result wires.',
   note='Trusted: the hook wrappers; the write post-condition also requires stored == argument mod 2**width; icontract ensure-conditions are an additional layer, the verdict does not depend on them.',
   ref='DESIGN.md section 4 C06'),
}
PENDING = {}
