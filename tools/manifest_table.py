"""Per-property MANIFEST entries (level, technique, trusted base)."""
CHECKS = {
 'C01': dict(level='translation_validation', engine='E4 verilog interpreter + E2 catalogue + dutgen',
   technique='translation validation by lockstep co-execution: real simulator vs. emitted Verilog run by the /verif Verilog-subset interpreter, outputs compared every cycle',
   text='Each generated design (unit wrappers of every catalogue block emitted three ways, sequential blocks, parameter-boundary and wide-control classes, random compositions with '
        'hierarchy and register feedback, hand-written bodies) is validated individually: the py4hw simulator and the interpreter of the emitted text run in lockstep from power-up and all '
        'top-level outputs are compared at power-up, after every input change and after every edge. Held = no disagreement on the programs/comparisons counted in the evidence.',
   note='Trusted: the E4 reading of IEEE 1364-2005 (DESIGN.md Appendix A, self-tested at setup), zero power-up for uninitialised Verilog state; x sources, multi-clock and inout designs are skipped as indeterminate.',
   ref='DESIGN.md section 4 C01'),
 'C07': dict(level='exploration', engine='E2 catalogue + reference models',
   technique='runtime reference-model monitor: real blocks simulated under exhaustive/boundary/random inputs, outputs judged by independent integer references',
   text='Every arithmetic block of the catalogue is executed in the real simulator for every legal width/parameter configuration of the grid; '
        'inputs are exhaustive for small widths and boundary x boundary + random beyond; each output is compared with an independent integer reference. '
        'Held = no disagreement on the evaluations counted in the evidence; nothing is claimed for widths/configurations outside the grid.',
   note='Trusted: the integer references in vlib/catalog.py (written from the docstrings/property text) and the readings listed under assumptions.',
   ref='DESIGN.md section 4 C07'),
 'C08': dict(level='exploration', engine='E2 catalogue + reference models',
   technique='runtime reference-model monitor: real blocks simulated under exhaustive truth-table enumeration, outputs judged by independent truth-table references',
   text='Every gate/selector/comparator block is executed in the real simulator over all arities/widths/constants of the grid, exhaustively over inputs when the total '
        'input width is <= 12/14 bits; outputs compared with truth-table references. Held = no disagreement on what was enumerated.',
   note='Trusted: the truth-table references in vlib/catalog.py and the documented-domain readings listed under assumptions.',
   ref='DESIGN.md section 4 C08'),
}
PENDING = {}
