#!/venv/bin/python
"""edit_crlf.py FILE OLD NEW  -- exact single replacement preserving the file's line endings (py4hw has CRLF files).
OLD/NEW are given with \\n line breaks; they are converted to the file's convention."""
import sys
p, old, new = sys.argv[1:4]
s = open(p, newline='').read()
nl = '\r\n' if '\r\n' in s else '\n'
old = old.replace('\n', nl); new = new.replace('\n', nl)
if s.count(old) != 1:
    print('pattern occurs %d times' % s.count(old)); sys.exit(1)
open(p, 'w', newline='').write(s.replace(old, new))
print('edited', p)
