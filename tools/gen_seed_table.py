#!/venv/bin/python
"""Rewrites DESIGN.md section 8.5 (seeded changes) from seeded/*/meta.json and seeded/MATRIX.json."""
import glob, json, os, re
ROOT = os.path.dirname(os.path.dirname(os.path.abspath(__file__)))
os.chdir(ROOT)
matrix = json.load(open('seeded/MATRIX.json')) if os.path.exists('seeded/MATRIX.json') else {}
rows = []
for d in sorted(glob.glob('seeded/C*-*/meta.json')):
    m = json.load(open(d)); sid = os.path.basename(os.path.dirname(d))
    diff = open(os.path.join(os.path.dirname(d), 'patch.diff')).read()
    files = sorted(set(re.findall(r'^\+\+\+ b/(\S+)', diff, re.M)))
    m['files'] = files; m['breaks_property'] = m['property']
    m['round'] = {'A': 1, 'B': 1, 'C': 2, 'D': 2, 'E': 3, 'F': 3, 'G': 4, 'H': 4, 'I': 5, 'J': 5, 'K': 6, 'L': 6, 'M': 7, 'N': 7, 'O': 8, 'P': 8, 'Q': 9}.get(sid[-1], 0)
    json.dump(m, open(d, 'w'), indent=1)
    own = ', '.join(m.get('caught_by', [])) or 'not caught'
    others = sorted(c for c, rc in matrix.get(sid, {}).items() if rc == 1 and c != m['property'])
    rows.append('| %s | %s | %s | %s | %s |' % (sid, ', '.join(f.replace('py4hw/', '') for f in files), own, ', '.join(others) or '–', m.get('tests_with_change', '')))
static = open('tools/seed_section.md').read()
table = '\n'.join(['| Seed | Files touched (py4hw/) | Caught by its property\'s check | Also caught by (quick tier of) | Repository tests with the change |', '|---|---|---|---|---|'] + rows)
s = open('DESIGN.md').read()
tail = ''
if '\n### 8.5' in s:
    i = s.index('\n### 8.5')
    m = re.search(r'\n### 8\.[6-9]', s[i:])
    tail = s[i + m.start():] if m else ''
    s = s[:i]
open('DESIGN.md', 'w').write(s.rstrip('\n') + '\n\n' + static.replace('@@TABLE@@', table).rstrip('\n') + '\n' + tail)
print(len(rows), 'seeds')
