#!/venv/bin/python
"""reseed.py <Cxx> <L> [checks...] -- re-measure a seed already kept under /verif/seeded/<Cxx>-<L>/ (after the author's worktree is gone):
rebuilds the author's layout in a scratch directory under /tmp and runs tools/seedcheck.py on it; the scratch directory is removed."""
import os, shutil, subprocess, sys
prop, lab = sys.argv[1], sys.argv[2]
src = '/verif/seeded/%s-%s' % (prop, lab)
tmp = '/tmp/reseed-%s-%s' % (prop, lab)
shutil.rmtree(tmp, ignore_errors=True)
os.makedirs(tmp + '/seeded')
shutil.copy(src + '/patch.diff', tmp + '/seeded/%s.diff' % lab)
shutil.copy(src + '/demo.py', tmp + '/seeded/demo_%s.py' % lab)
if os.path.isdir(src + '/support'):
    for f in os.listdir(src + '/support'):
        shutil.copy(os.path.join(src, 'support', f), tmp + '/seeded/' + f)
if os.path.exists(src + '/NOTES-from-author.md'):
    shutil.copy(src + '/NOTES-from-author.md', tmp + '/seeded/NOTES.md')
try:
    r = subprocess.run([os.path.join(os.path.dirname(os.path.abspath(__file__)), 'seedcheck.py'), prop, lab] + sys.argv[3:],
                       env=dict(os.environ, SEED_SRC=tmp.replace(prop, '%s', 1) + '/seeded'))
finally:
    shutil.rmtree(tmp, ignore_errors=True)
sys.exit(r.returncode)
