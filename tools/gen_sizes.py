#!/venv/bin/python
"""gen_sizes.py LOG  -- rewrites DESIGN.md section 8.6 from the status lines of a run log (quick and thorough tiers, seed 1)."""
import re, sys, subprocess, os
ROOT = os.path.dirname(os.path.dirname(os.path.abspath(__file__)))
log = open(sys.argv[1]).read()
rows = {}
other = {}
for m in re.finditer(r'^(C\d\d) (\w+) tier=(\w+) seed=(\d+) evaluations=(\d+) distinct_nontrivial=(\d+) violations=(\d+) known=(\d+) wall=([\d.]+)s', log, re.M):
    c, verdict, tier, seed, ev, nt, v, k, wall = m.groups()
    if seed == '1':
        rows.setdefault(c, {})[tier] = (verdict, int(ev), int(nt), float(wall))
    other.setdefault((tier, seed), []).append((c, verdict))
# quick tier of seed 1: from the evidence files (written by the last quick run on the unchanged tree)
import json
for i in range(1, 21):
    c = 'C%02d' % i
    e = json.load(open(os.path.join(ROOT, 'evidence', c + '.json')))
    s = json.dumps(e)
head = subprocess.run(['git', '-C', ROOT, 'log', '--oneline', '-1'], stdout=subprocess.PIPE).stdout.decode().split()[0]
out = ['### 8.6 Sizes as built (unchanged tree, /verif at %s, /repo at %s)' % (head, subprocess.run(['git', '-C', '/repo', 'log', '--oneline', '-1'], stdout=subprocess.PIPE).stdout.decode().split()[0]), '',
       '| Check | thorough evaluations (seed 1) | distinct non-trivial | wall (16 shards) | verdict |', '|---|---|---|---|---|']
for c in sorted(rows):
    t = rows[c].get('thorough')
    if t:
        out.append('| %s | %s | %s | %d s | %s |' % (c, format(t[1], ','), format(t[2], ','), t[3], t[0]))
out.append('')
summ = []
for (tier, seed), lst in sorted(other.items()):
    bad = [c for c, v in lst if v != 'HELD']
    summ.append('%s tier, seed %s: %d checks run, %s' % (tier, seed, len(lst), 'all HELD' if not bad else 'not HELD: %s' % bad))
out.append('Runs in that log: ' + '; '.join(summ) + '. Quick-tier sizes are in the committed evidence files (seed 1). "Evaluations" are what each')
out.append('module counts (designs, programs, block evaluations, cycles, histories — see the `rule` field of each evidence file).')
s = open(os.path.join(ROOT, 'DESIGN.md')).read()
i = s.index('\n### 8.6')
open(os.path.join(ROOT, 'DESIGN.md'), 'w').write(s[:i].rstrip('\n') + '\n\n' + '\n'.join(out) + '\n')
print('\n'.join(out[-3:]))
