#!/venv/bin/python
"""seedcheck.py <Cxx> <A|B> [checks...]  -- confirm a seeded change produced by a sub-agent and run our checks on it.

Source: /tmp/seed-<Cxx>/seeded/{<L>.diff, demo_<L>.py, NOTES.md}.  Steps (all in a scratch worktree under /tmp, removed afterwards):
  1. the diff applies to /repo HEAD;  2. demo passes without it;  3. demo fails with it;  4. the repo test suite passes with it;
  5. each named check (default: the property's own) is run against the change via PY4HW_ROOT (quick tier; thorough if quick misses).
Result -> /verif/seeded/<Cxx>-<L>/{patch.diff, demo.py, meta.json}
"""
import json, os, shutil, subprocess, sys, time

def sh(cmd, cwd=None, env=None, timeout=3000):
    r = subprocess.run(cmd, shell=True, cwd=cwd, env=env, stdout=subprocess.PIPE, stderr=subprocess.STDOUT, timeout=timeout)
    return r.returncode, r.stdout.decode(errors='replace')

def main():
    prop, lab = sys.argv[1], sys.argv[2]
    checks = sys.argv[3:] or [prop]
    src = os.environ.get('SEED_SRC', '/tmp/seed-%s/seeded') % prop
    diff = os.path.join(src, lab + '.diff'); demo = os.path.join(src, 'demo_%s.py' % lab)
    wt = '/tmp/verify-%s-%s' % (prop, lab)
    out = '/verif/seeded/%s-%s' % (prop, lab)
    meta = dict(property=prop, label=lab, ran=[], confirmed=False)
    sh('git -C /repo worktree remove --force %s' % wt)
    rc, o = sh('git -C /repo worktree add -q --detach %s HEAD' % wt)
    try:
        env = dict(os.environ, PYTHONPATH=wt, MPLBACKEND='Agg')
        # the demonstration may come with helper modules: copy the author's whole seeded/ directory
        shutil.copytree(src, os.path.join(wt, 'seeded'), ignore=shutil.ignore_patterns('__pycache__', '*.diff'))
        shutil.copy(demo, os.path.join(wt, 'seeded', 'demo.py'))
        rc0, o0 = sh('/venv/bin/python seeded/demo.py', cwd=wt, env=env, timeout=300)
        meta['demo_without_change'] = rc0
        rc, o = sh('git apply --whitespace=nowarn %s' % diff, cwd=wt)
        if rc:
            meta['error'] = 'diff does not apply: ' + o[-300:]
            print(json.dumps(meta, indent=1)); return 1
        rc1, o1 = sh('/venv/bin/python seeded/demo.py', cwd=wt, env=env, timeout=300)
        meta['demo_with_change'] = rc1
        meta['demo_output_with_change'] = o1[-400:]
        rct, ot = sh('/venv/bin/python -m pytest -q -p no:cacheprovider --timeout=900 test/unit 2>&1 | tail -3', cwd=wt, env=env)
        meta['tests_with_change'] = ot.strip().splitlines()[-1] if ot.strip() else ''
        import re as _re
        mp = _re.search(r'(?:(\d+) failed, )?(\d+) passed', ot)
        nf, npass = (int(mp.group(1) or 0), int(mp.group(2))) if mp else (99, 0)
        # a seeded commit may add tests of its own; the one inherently flaky repository test may fail
        passed = (nf == 0 and npass >= 161) or (nf == 1 and npass >= 160 and 'Test_FPAdder_SP' in ot)
        meta['confirmed'] = bool(rc0 == 0 and rc1 != 0 and passed)
        results = {}
        for c in checks:
            for tier in os.environ.get('SEEDCHECK_TIERS', 'quick,thorough').split(','):
                t = time.time()
                rc, o = sh('./check %s --tier %s' % (c, tier), cwd='/verif', env=dict(os.environ, PY4HW_ROOT=wt, VERIF_EVIDENCE_DIR='/tmp/seedcheck-evidence'), timeout=3600)
                lines = [l for l in o.splitlines() if l.startswith(('VIOLATION', 'INCONCLUSIVE', c + ' '))]
                results['%s/%s' % (c, tier)] = dict(exit=rc, seconds=round(time.time() - t), first=lines[:2], last=lines[-1:] )
                meta['ran'].append('PY4HW_ROOT=%s ./check %s --tier %s -> exit %d' % (wt, c, tier, rc))
                if rc == 1:
                    break
            sh("find /verif/replays -name '*.json' -delete")
        meta['checks'] = results
        meta['caught_by'] = [k for k, v in results.items() if v['exit'] == 1]
        os.makedirs(out, exist_ok=True)
        shutil.copy(diff, os.path.join(out, 'patch.diff')); shutil.copy(demo, os.path.join(out, 'demo.py'))
        for f in os.listdir(src):
            if f.endswith('.py') and not f.startswith('demo_'):
                os.makedirs(os.path.join(out, 'support'), exist_ok=True)
                shutil.copy(os.path.join(src, f), os.path.join(out, 'support', f))
        notes = os.path.join(src, 'NOTES.md')
        if os.path.exists(notes):
            shutil.copy(notes, os.path.join(out, 'NOTES-from-author.md'))
        json.dump(meta, open(os.path.join(out, 'meta.json'), 'w'), indent=1)
        print(json.dumps(dict(confirmed=meta['confirmed'], tests=meta['tests_with_change'], demo=(rc0, rc1), caught_by=meta['caught_by'],
                              checks={k: (v['exit'], v['seconds'], v['first'][:1]) for k, v in results.items()}), indent=1))
    finally:
        sh('git -C /repo worktree remove --force %s' % wt)
    return 0

if __name__ == '__main__':
    sys.exit(main())
