#!/venv/bin/python
"""Regenerates MANIFEST.json from tools/manifest_table.py (keeps it schema-valid at all times)."""
import json, os, sys
HERE = os.path.dirname(os.path.dirname(os.path.abspath(__file__)))
sys.path.insert(0, os.path.join(HERE, 'tools'))
from manifest_table import CHECKS, PENDING  # noqa
ALL = ['C%02d' % i for i in range(1, 21)]

def main():
    checks = []
    for pid in ALL:
        if pid not in CHECKS:
            continue
        c = CHECKS[pid]
        checks.append(dict(property_id=pid, quick_cmd='./check %s --tier quick' % pid, thorough_cmd='./check %s --tier thorough' % pid,
                           evidence_file='evidence/%s.json' % pid, replay_cmd_template='./check %s --replay {path}' % pid,
                           engine=c['engine'], level_claimed=dict(category=c['level'], text=c['text'], design_ref=c['ref']),
                           level_note=c['note'], technique=c['technique']))
    na = [dict(property_id=p, reason=PENDING.get(p, 'check not built yet (work in progress); runtime monitoring applies, see DESIGN.md section 4')) for p in ALL if p not in CHECKS]
    m = dict(version=1,
             setup_cmd="(/venv/bin/pip install -q --no-index --find-links /opt/veriftools/wheels --target .deps icontract >/dev/null 2>&1 || true) && /venv/bin/python -m vlib.selftest",
             hooks=dict(guard='PY4HW_VERIF', enable='no source hooks: monitors are monkey-patch wrappers installed by the check process after `import py4hw` (editable install -> /repo working tree)',
                        baseline_off_cmd='cd /repo && /venv/bin/python -m pytest -q -p no:cacheprovider --timeout=900 test/unit', source_commits=[], add_only=True),
             engines=[dict(name='E1 hooks', path='vlib/hooks.py', kind_free_text='monkey-patch event recorder / invariant hooks on Wire and Simulator'),
                      dict(name='E2 catalogue', path='vlib/catalog.py', kind_free_text='block catalogue with independent reference models'),
                      dict(name='E2 sequential catalogue', path='vlib/seqcat.py', kind_free_text='sequential blocks with reference state machines'),
                      dict(name='E3 netlist generator', path='vlib/netgen.py', kind_free_text='JSON plans of random netlists, permutable construction order, fault injection (cycles)'),
                      dict(name='E3b dut generator', path='vlib/dutgen.py', kind_free_text='random compositions of catalogue blocks inside a Dut wrapper with hierarchy and register feedback'),
                      dict(name='E4 verilog', path='vlib/vlog', kind_free_text='Verilog-subset parser, elaborator, well-formedness checker and 2-state cycle interpreter')],
             checks=checks, not_applicable=na,
             notes='All checks: /venv/bin/python, PYTHONHASHSEED=0, VERIF_SEED honoured; exit 0 held / 1 violation / 2 inconclusive. See DESIGN.md.')
    json.dump(m, open(os.path.join(HERE, 'MANIFEST.json'), 'w'), indent=1)
    print('MANIFEST.json: %d checks, %d not_applicable' % (len(checks), len(na)))

if __name__ == '__main__':
    main()
