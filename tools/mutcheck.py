#!/venv/bin/python
"""Self-validation helper: run a command against a mutated scratch copy of /repo/py4hw.

  tools/mutcheck.py --patch seeded/X/patch.diff -- ./check C07
  tools/mutcheck.py --edit py4hw/logic/arithmetic.py 'self.a.get() - self.b.get()' 'self.b.get() - self.a.get()' -- ./check C07

The copy lives under /tmp (outside /repo and /verif), is put first on sys.path through PY4HW_ROOT
(which shadows the editable install) and is removed afterwards.  Never used by MANIFEST commands.
"""
import os, shutil, subprocess, sys, tempfile

def main():
    args = sys.argv[1:]
    if '--' not in args:
        print(__doc__); return 2
    i = args.index('--'); opts, cmd = args[:i], args[i+1:]
    repo = os.environ.get('REPO', '/repo')
    d = tempfile.mkdtemp(prefix='py4hw-mut-')
    try:
        shutil.copytree(os.path.join(repo, 'py4hw'), os.path.join(d, 'py4hw'), ignore=shutil.ignore_patterns('__pycache__'))
        k = 0
        while k < len(opts):
            if opts[k] == '--patch':
                r = subprocess.run(['patch', '-p1', '-s', '-i', os.path.abspath(opts[k+1])], cwd=d)
                if r.returncode: print('patch failed'); return 3
                k += 2
            elif opts[k] == '--edit':
                f, old, new = opts[k+1:k+4]
                p = os.path.join(d, f); s = open(p).read()
                if s.count(old) < 1: print('edit: pattern not found in', f); return 3
                open(p, 'w').write(s.replace(old, new, 1)); k += 4
            else:
                print('unknown option', opts[k]); return 2
        env = dict(os.environ, PY4HW_ROOT=d, VERIF_EVIDENCE_DIR=os.environ.get('VERIF_EVIDENCE_DIR', '/tmp/mutcheck-evidence'))
        return subprocess.run(cmd, env=env).returncode
    finally:
        shutil.rmtree(d, ignore_errors=True)

if __name__ == '__main__':
    sys.exit(main())
