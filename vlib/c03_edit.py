"""C03 helper: construction histories through the public netlist-editing API before generation.

A design is built by a list of operations on an Interface (addSourceToSink / addSinkToSource / remove* / declared again with the
same or another width / attached to blocks with addInterfaceSource / addInterfaceSink), on plain wires of the same scope and on
ports (reconnectIn, disconnectWireFromLogicObject).  Every history either raises (nothing is emitted: fine) or returns text that must
pass the whole C03 oracle.  Plans are plain lists, so a failing case replays from its plan.
"""

WIDTHS = (1, 3, 4, 8)
NAMES = ('data', 'ready', 'valid')


def directed_plans():
    """declare, [use], remove, declare again (same / other width, same / other direction), [use]: all combinations, in the generated
    root and in a child of it; plus the same through a plain wire of the interface's name and through attached blocks."""
    plans = []
    for scope in ('root', 'child'):
        for d1 in ('s2k', 'k2s'):
            for d2 in ('s2k', 'k2s'):
                for w1, w2 in ((8, 4), (4, 8), (4, 4), (1, 3)):
                    for use1 in (True, False):
                        for use2 in (True, False):
                            for attach in ('none', 'before', 'between', 'after'):
                                if attach != 'none' and (d1 != d2 or (w1, w2) not in ((8, 4), (4, 4))):
                                    continue
                                ops = [('add', d1, 'data', w1), ('add', 'k2s' if d1 == 's2k' else 's2k', 'ready', 1), ('use', 'ready')]
                                if attach == 'before':
                                    ops.append(('attach', 'x'))
                                if use1:
                                    ops.append(('use', 'data'))
                                ops.append(('remove', d1, 'data'))
                                if attach == 'between':
                                    ops.append(('attach', 'x'))
                                ops.append(('add', d2, 'data', w2))
                                if use2:
                                    ops.append(('use', 'data'))
                                if attach == 'after':
                                    ops.append(('attach', 'x'))
                                plans.append(dict(scope=scope, ops=ops, kind='declare-remove-declare'))
        for w1, w2 in ((8, 4), (4, 4)):
            # the element is removed and a plain wire / an element of another interface object takes its name
            plans.append(dict(scope=scope, kind='remove-then-plain-wire',
                              ops=[('add', 's2k', 'data', w1), ('use', 'data'), ('remove', 's2k', 'data'), ('wire', 'data', w2), ('use', 'data')]))
            plans.append(dict(scope=scope, kind='plain-wire-then-declare',
                              ops=[('wire', 'data', w1), ('use', 'data'), ('add', 's2k', 'data', w2), ('use', 'data')]))
            plans.append(dict(scope=scope, kind='remove-only',
                              ops=[('add', 's2k', 'data', w1), ('add', 'k2s', 'ready', w2), ('use', 'data'), ('use', 'ready'), ('remove', 'k2s', 'ready'),
                                   ('attach', 'x')]))
            plans.append(dict(scope=scope, kind='remove-unused',
                              ops=[('add', 's2k', 'data', w1), ('add', 's2k', 'valid', w2), ('use', 'valid'), ('remove', 's2k', 'data'), ('attach', 'x')]))
            plans.append(dict(scope=scope, kind='second-interface-object',
                              ops=[('add', 's2k', 'data', w1), ('use', 'data'), ('remove', 's2k', 'data'), ('newbus',), ('add', 's2k', 'data', w2),
                                   ('use', 'data')]))
            # ports edited after construction
            plans.append(dict(scope=scope, kind='reconnect-input',
                              ops=[('add', 's2k', 'data', w1), ('add', 's2k', 'valid', w1), ('use', 'data'), ('use', 'valid'), ('reconnect', 'data', 'valid')]))
            plans.append(dict(scope=scope, kind='disconnect-reader',
                              ops=[('add', 's2k', 'data', w1), ('use', 'data'), ('add', 's2k', 'valid', w2), ('use', 'valid'), ('disconnect', 'valid')]))
    return plans


def random_plan(rnd):
    """Random history.  Half of them never reuse a name (the library accepts those: they must give well-formed text), the others
    declare removed names again (refused by the unchanged library; must stay well-formed if ever accepted)."""
    ops = []
    live = {}
    ever = set()
    reuse = rnd.random() < 0.5
    n = rnd.randint(4, 12)

    def new_name(k):
        free = [x for x in NAMES if x not in ever]
        name = rnd.choice(free) if free else '%s%d' % (rnd.choice(NAMES), k)
        ever.add(name)
        return name
    for k in range(n):
        r = rnd.random()
        if not live or r < 0.3:
            name = rnd.choice(NAMES) if reuse and rnd.random() < 0.3 else new_name(k)
            d = rnd.choice(('s2k', 'k2s'))
            ops.append(('add', d, name, rnd.choice(WIDTHS)))
            live[name] = d
        elif r < 0.55:
            ops.append(('use', rnd.choice(sorted(live))))
        elif r < 0.8:
            name = rnd.choice(sorted(live))
            d = live.pop(name)
            ops.append(('remove', d, name))
            if rnd.random() < 0.8:
                again = name if reuse else new_name(k)
                live[again] = rnd.choice(('s2k', 'k2s')) if rnd.random() < 0.3 else d
                ops.append(('add', live[again], again, rnd.choice(WIDTHS)))
                if rnd.random() < 0.8:
                    ops.append(('use', again))
        elif r < 0.9:
            ops.append(('attach', 'x%d' % k))
        elif r < 0.95:
            name = rnd.choice(NAMES) if reuse else new_name(k)
            ops.append(('wire', name, rnd.choice(WIDTHS)))
            live.pop(name, None)
        else:
            ops.append(('newbus',))
            live.clear()
    return dict(scope=rnd.choice(('root', 'child')), ops=ops, kind='random')


def shape_of(plan):
    """Evidence class of a plan: what its history contains."""
    ops = plan['ops']
    removed = set()
    redeclared = used_after = False
    for k, op in enumerate(ops):
        if op[0] == 'remove':
            removed.add(op[2])
        elif op[0] in ('add', 'wire') and op[-2] in removed:
            redeclared = True
        elif op[0] == 'use' and redeclared and op[1] in removed:
            used_after = True
    if used_after:
        return 'remove, declare again, connect'
    if redeclared:
        return 'remove, declare again'
    if removed:
        return 'remove only'
    if any(op[0] in ('reconnect', 'disconnect') for op in ops):
        return 'port edit'
    return 'no removal'


def build(plan):
    """-> (hw, dut): raises when the library refuses a step."""
    import py4hw
    from . import cosim
    hw = py4hw.HWSystem()
    dut = cosim.Dut.cls('Dut')(hw, 'dut')
    a = hw.wire('a', 8)
    dut.addIn('a', a)
    chain = [dut]
    if plan['scope'] == 'child':
        S = cosim.Dut.cls('Mid')(dut, 'mid')
        S.addIn('a', a)
        chain.append(S)
    else:
        S = dut
    state = dict(bus=py4hw.Interface(S, 'bus'), n=0, readers={})
    cur = {}

    def fresh_out(width):
        state['n'] += 1
        o = hw.wire('o%d' % state['n'], width)
        for blk in chain:
            blk.addOut(o.name, o)
        return o

    made = []

    def use(scope, tag, w, drive=False, read=True):
        # readers are placed at once; a net that is read and still has no driver when the history ends is driven then (finish)
        state['n'] += 1
        k = state['n']
        if w not in made:
            made.append(w)
        if drive and w.source is None:
            py4hw.Constant(scope, 'c%d_%s' % (k, tag), (0xA5 >> (k % 3)) & ((1 << w.getWidth()) - 1), w)
        if read:
            o = fresh_out(w.getWidth())
            if scope is not S:
                scope.addOut(o.name, o)
            state['readers'][tag] = (py4hw.Not(scope, 'r%d_%s' % (k, tag), w, o), w)

    for op in plan['ops']:
        kind = op[0]
        bus = state['bus']
        if kind == 'add':
            _, d, name, width = op
            cur[name] = bus.addSourceToSink(name, width) if d == 's2k' else bus.addSinkToSource(name, width)
        elif kind == 'remove':
            _, d, name = op
            (bus.removeSourceToSink if d == 's2k' else bus.removeSinkToSource)(name)
        elif kind == 'wire':
            _, name, width = op
            cur[name] = S.wire(bus.name + '_' + name, width)
        elif kind == 'newbus':
            state['bus'] = py4hw.Interface(S, 'bus')
        elif kind == 'use':
            use(S, op[1], cur[op[1]])
        elif kind == 'attach':
            # a source block and a sink block take the interface as it is now; each drives its side and reads the other
            # (one source per net: a second pair of blocks on an element that already has its source would be the caller's mistake)
            elems = [w for n, w in bus.sourceToSink + bus.sinkToSource]
            if not elems or any(w.source is not None or id(w) in state.setdefault('attached', set()) for w in elems):
                continue
            state['attached'].update(id(w) for w in elems)
            src = cosim.Dut.cls('Src')(S, 'src_' + op[1])
            snk = cosim.Dut.cls('Snk')(S, 'snk_' + op[1])
            src.addInterfaceSource('p', bus)
            snk.addInterfaceSink('p', bus)
            for n, w in bus.sourceToSink:
                use(src, 's_' + n, w, drive=True, read=False)
                use(snk, 's_' + n, w)
            for n, w in bus.sinkToSource:
                use(snk, 'k_' + n, w, drive=True, read=False)
                use(src, 'k_' + n, w)
        elif kind == 'reconnect':
            # the reader of one element is moved to another element of the same width
            rd, old = state['readers'][op[1]]
            new = cur[op[2]]
            py4hw.disconnectWireFromLogicObject(old, rd)
            rd.reconnectIn('a', new)
            new.addSink(rd.getInPortByName('a'))
            fresh = fresh_out(old.getWidth())
            py4hw.Buf(S, 'keep_' + op[1], old, fresh)
        elif kind == 'disconnect':
            # a reader is taken off its wire and put back
            rd, old = state['readers'][op[1]]
            py4hw.disconnectWireFromLogicObject(old, rd)
            rd.reconnectIn('a', old)
            old.addSink(rd.getInPortByName('a'))
        else:
            raise ValueError(kind)
    for k, w in enumerate(made):
        if w.source is None and w.sinks:
            py4hw.Constant(S, 'fin%d' % k, (0x5A >> (k % 3)) & ((1 << w.getWidth()) - 1), w)
    return hw, dut
