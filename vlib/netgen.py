"""E3 netlist generator: random designs as JSON-serialisable PLANS.

A plan is a dict of plain lists/dicts/ints/strings:

  {'v': 1,
   'wires':  [{'id': 'w3', 'w': 4, 'scope': 'bx0'}, ...]      canonical wire creation order
   'inputs': ['in0', ...]                                      undriven wires poked by the harness
   'scopes': [{'path': 'bx0', 'clock': None | {'name': 'ckB', 'enable': wire id | None}}, ...]
             harness-defined structural wrappers (class Box); 'bx0/bx1' is a box inside a box
   'blocks': [{'id': 'b0', 'kind': 'cat', 'entry': 'And2', 'cfg': [4], 'conn': ['in0', 'in1', 'w3'],
               'ins': [...wire ids read...], 'outs': [...wire ids driven...], 'comb': True, 'seq': False, 'scope': ''},
              {'id': 'r0', 'kind': 'Reg', 'args': {'d': 'w3', 'q': 'w4', 'enable': None, 'reset': None},
               'params': {'reset_value': 5}, 'ins': [...], 'outs': [...], 'comb': False, 'seq': True, 'scope': ''}, ...]
   'fault': None | {...}}                                      what inject_cycle() did

build(plan, block_order, wire_order, subst) instantiates it under a fresh HWSystem:
  (a) under any permutation of block instantiation order and wire creation order,
  (b) any number of times (twin circuits),
  (c) after inject_cycle(): one combinational back edge of length 1 (self-loop), 2, n, through a structural
      wrapper, by rewiring an existing block, or -- legal -- a cycle through a Reg.
Catalogue blocks ('kind': 'cat') come from vlib.catalog (build(parent, cfg, mk)); the catalogue names every
instance 'd', so the child is re-keyed to the plan's block id right after construction (children dict order =
instantiation order is preserved).  Replay files contain the plan itself.
"""
import copy
import itertools
import math

from . import catalog
from .common import muted, stable_hash

RANDOM_AT_ZERO = {'Div', 'Mod', 'SignedDiv'}        # put random values while the divisor is 0


def P():
    import py4hw
    return py4hw


# --------------------------------------------------------------------------- harness classes

_CLS = {}


def classes():
    """harness-defined classes (need py4hw imported): Box structural wrapper, PutReg immediate-write twin of Reg"""
    if _CLS:
        return _CLS
    py4hw = P()

    class Box(py4hw.Logic):
        """structural wrapper used for hierarchy; ports are declared from the plan"""

        def __init__(self, parent, name):
            super().__init__(parent, name)

    class PutReg(py4hw.Logic):
        """deliberately WRONG twin of py4hw.Reg: writes q immediately (put) instead of preparing it.
        Only used by the harness to decide whether a design is order-sensitive at all (C05 non-triviality)."""

        def __init__(self, parent, name, d, q, enable=None, reset=None, reset_value=None):
            super().__init__(parent, name)
            self.d = self.addIn('d', d)
            self.q = self.addOut('q', q)
            self.e = self.addIn('e', enable) if enable is not None else None
            self.r = self.addIn('r', reset) if reset is not None else None
            self.reset_value = reset_value if reset_value is not None else 0
            self.value = self.reset_value

        def clock(self):
            set_value = True
            if self.e is not None and self.e.get() == 0:
                set_value = False
            if self.r is not None and self.r.get() == 1:
                self.value = self.reset_value
            elif set_value:
                self.value = self.d.get()
            self.q.put(self.value)

    class DoublePrepare(py4hw.Logic):
        """user-style behavioural block in the "default then override" idiom: prepares its output twice in one clock(),
        the second time with a raw value outside the wire's range (negative or oversized)."""

        def __init__(self, parent, name, a, r, mode=0):
            super().__init__(parent, name)
            self.a = self.addIn('a', a)
            self.r = self.addOut('r', r)
            self.mode = mode
            self.count = 0

        def clock(self):
            v = self.a.get()
            self.count += 1
            self.r.prepare(v)
            if self.mode == 0:
                if v & 1:
                    self.r.prepare(-v - 1)
            elif self.mode == 1:
                self.r.prepare((v << self.r.getWidth()) + 5)
            else:
                if self.count % 3 == 0:
                    self.r.prepare(v - (1 << (self.r.getWidth() + 2)))

    class DoublePut(py4hw.Logic):
        """combinational twin: two puts in one propagate(), the last one out of range"""

        def __init__(self, parent, name, a, r, mode=0):
            super().__init__(parent, name)
            self.a = self.addIn('a', a)
            self.r = self.addOut('r', r)
            self.mode = mode

        def propagate(self):
            v = self.a.get()
            self.r.put(0)
            if self.mode == 0:
                self.r.put(~v)
            else:
                self.r.put((v + 1) << self.r.getWidth())

    class PadPrepare(py4hw.Logic):
        """user-style CLOCKED block that drives a pad (bidirectional wire, InOut port) with prepare(): a free running
        counter wider than the pad (step may be negative), optionally offset by an input wire."""

        def __init__(self, parent, name, pad, a=None, step=7, start=0, oe=None):
            super().__init__(parent, name)
            self.pad = self.addInOut('pad', pad)
            self.a = self.addIn('a', a) if a is not None else None
            self.oe = self.addIn('oe', oe) if oe is not None else None
            self.step = step
            self.count = start

        def clock(self):
            self.count += self.step
            v = self.count
            if self.a is not None:
                v += self.a.get() << 1
            if self.oe is None or self.oe.get():
                self.pad.prepare(v)

    class Moore(py4hw.Logic):
        """user-style behavioural Moore block: a leaf with BOTH clock() (next state from pre-edge wire values) and
        propagate() (output = f(state)).  The simulator registers it as clockable and as propagatable.
        state += gain when inc (pre-edge) is 1; state += 1 every `period` edges (free running prescaler)."""

        def __init__(self, parent, name, inc, q, period=3, gain=16, start=0):
            super().__init__(parent, name)
            self.inc = self.addIn('inc', inc) if inc is not None else None
            self.q = self.addOut('q', q)
            self.period = period
            self.gain = gain
            self.phase = 0
            self.state = start

        def clock(self):
            if self.inc is not None and self.inc.get():
                self.state += self.gain
            self.phase += 1
            if self.phase >= self.period:
                self.phase = 0
                self.state += 1

        def propagate(self):
            self.q.put(self.state)

    class PadPut(py4hw.Logic):
        """user-style COMBINATIONAL block that drives a pad (bidirectional wire, InOut port) with put(): a*k - off,
        i.e. oversized and negative raw values."""

        def __init__(self, parent, name, pad, a, k=3, off=5):
            super().__init__(parent, name)
            self.pad = self.addInOut('pad', pad)
            self.a = self.addIn('a', a)
            self.k = k
            self.off = off

        def propagate(self):
            self.pad.put(self.a.get() * self.k - self.off)

    class FloatPut(py4hw.Logic):
        """user-style combinational block that computes with true division / averages: r = a / k (a Python float)"""

        def __init__(self, parent, name, a, r, k=2):
            super().__init__(parent, name)
            self.a = self.addIn('a', a)
            self.r = self.addOut('r', r)
            self.k = k

        def propagate(self):
            self.r.put(self.a.get() / self.k)

    class FloatPrepare(py4hw.Logic):
        """user-style clocked block: r <= (a + state) / k  (a Python float)"""

        def __init__(self, parent, name, a, r, k=2):
            super().__init__(parent, name)
            self.a = self.addIn('a', a)
            self.r = self.addOut('r', r)
            self.k = k
            self.state = 1

        def clock(self):
            self.state += 1
            self.r.prepare((self.a.get() + self.state) / self.k)

    _CLS.update(FloatPut=FloatPut, FloatPrepare=FloatPrepare)
    _CLS.update(Box=Box, PutReg=PutReg, DoublePrepare=DoublePrepare, DoublePut=DoublePut, PadPrepare=PadPrepare, PadPut=PadPut, Moore=Moore)
    return _CLS


_SHARED = {}      # per build: lists handed to several blocks as ONE object (params 'shared': key)


def _shared_list(k):
    if k.get('shared') is None:
        return list(k['values'])
    return _SHARED.setdefault(k['shared'], list(k['values']))


def _if_leaf(p, par, n, a, k):
    """combinational leaf whose ports are declared through a py4hw Interface: forward channel (source to sink) d is read,
    the reverse channel (sink to source) r is driven in propagate(): r = d ^ k.  mode 'sink' uses addInterfaceSink,
    mode 'source' uses addInterfaceSource (then the roles of the two channel lists are swapped)."""
    import py4hw
    kk = k.get('k', 1)

    class IfLeaf(py4hw.Logic):
        def __init__(self, parent, name, d, r, mode):
            super().__init__(parent, name)
            intf = py4hw.Interface(parent, 'if_' + name)
            if mode == 'sink':
                intf.sourceToSink.append(['d', d])
                intf.sinkToSource.append(['r', r])
                self.addInterfaceSink('p', intf)
            else:
                intf.sinkToSource.append(['d', d])
                intf.sourceToSink.append(['r', r])
                self.addInterfaceSource('p', intf)
            self.d = d
            self.r = r

        def propagate(self):
            self.r.put(self.d.get() ^ kk)
    return IfLeaf(par, n, a['d'], a['r'], k.get('mode', 'sink'))


_ABS = {}


def abstract_class(name):
    """one run-time class per name (py4hw.AbstractLogic), shared by every design of the process"""
    if name not in _ABS:
        _ABS[name] = P().AbstractLogic(name)
    return _ABS[name]


def _abs_leaf(p, par, n, a, k, s):
    """leaf whose behaviour is attached to the instance with types.MethodType (as py4hw/emulation/verilatorwrapping.py and the
    tutorial do).  With inputs the behaviour is attached before the ports are declared (so that the ports register on their
    wires); a source block (no input) declares its port first and gets its behaviour afterwards."""
    import types
    o = abstract_class(k.get('cls', 'AbsBlk'))(par, n)
    kk = k.get('k', 0x55)
    if a.get('a') is not None:
        def propagate(self):
            self.r.put(self.a.get() ^ kk)
        o.propagate = types.MethodType(propagate, o)
        o.a = o.addIn('a', a['a'])
        o.r = o.addOut('r', a['r'])
    else:
        o.r = o.addOut('r', a['r'])

        def propagate(self):
            self.r.put(kk)
        o.propagate = types.MethodType(propagate, o)
    return o


def _abs_group(p, par, n, a, k, s):
    """the same run-time class used as a structural group (no behaviour of its own) around one inverter"""
    o = abstract_class(k.get('cls', 'AbsBlk'))(par, n)
    o.addIn('a', a['a'])
    o.addOut('r', a['r'])
    p.Not(o, 'inv', a['a'], a['r'])
    return o


def _abs_clocked(p, par, n, a, k, s):
    """clock() bound to the instance: r <= a + k at every edge (prepare)"""
    import types
    o = abstract_class(k.get('cls', 'AbsBlk'))(par, n)
    kk = k.get('k', 1)

    def clock(self):
        self.r.prepare(self.a.get() + kk)
    o.clock = types.MethodType(clock, o)
    o.a = o.addIn('a', a['a'])
    o.r = o.addOut('r', a['r'])
    return o


# --------------------------------------------------------------------------- cfg normalisation (JSON round trip)

def norm_cfg(x):
    if isinstance(x, (list, tuple)):
        return tuple(norm_cfg(y) for y in x)
    if isinstance(x, str) and x.startswith(('0x', '-0x')):
        return int(x, 16)
    return x


_HEX = None


def dehex(o):
    """undo common.jsonable's hex rendering of very large integers in a replayed case"""
    global _HEX
    if _HEX is None:
        import re
        _HEX = re.compile(r'^-?0x[0-9a-f]+$')
    if isinstance(o, dict):
        return {k: dehex(v) for k, v in o.items()}
    if isinstance(o, list):
        return [dehex(v) for v in o]
    if isinstance(o, str) and _HEX.match(o):
        return int(o, 16)
    return o


def cfg_json(x):
    if isinstance(x, (list, tuple)):
        return [cfg_json(y) for y in x]
    return x


# --------------------------------------------------------------------------- catalogue signatures (dry run)

_SIG = {}


def signature(entry_name, cfg):
    """pins of a catalogue block in mk() call order, which are inputs/outputs, primitive or structural, leaf count"""
    cfg = norm_cfg(cfg)
    key = (entry_name, cfg)
    if key in _SIG:
        return _SIG[key]
    py4hw = P()
    e = catalog.by_name(entry_name)
    hw = py4hw.HWSystem()
    seq = []

    def mk(name, width):
        w = hw.wire('p%d_%s' % (len(seq), name), width)
        seq.append((name, width, w))
        return w
    try:
        with muted():
            e.build(hw, cfg, mk)
        child = hw.children['d']
        driven = {id(p.wire) for p in child.outPorts}
        pins = [(n, w) for n, w, _ in seq]
        outs = [k for k, (_, _, w) in enumerate(seq) if id(w) in driven]
        ins = [k for k in range(len(seq)) if k not in outs]
        leaves = child.allLeaves()
        sig = dict(pins=pins, ins=ins, outs=outs, prim=len(child.children) == 0, leaves=len(leaves),
                   classes=sorted({type(l).__name__ for l in leaves}))
    except Exception as ex:      # configuration does not build: not usable in plans
        sig = dict(error=repr(ex)[:200])
    _SIG[key] = sig
    return sig


# --------------------------------------------------------------------------- native (non-catalogue) kinds

def _mk_reg(py4hw, par, name, a, k, subst):
    cls = subst.get('Reg') or py4hw.Reg
    return cls(par, name, a['d'], a['q'], enable=a.get('enable'), reset=a.get('reset'), reset_value=k.get('reset_value'))


def _uart():
    import py4hw.logic.protocol.uart as U
    return U


def _vitis():
    import py4hw.emulation.vitiswrapping as V
    return V


NATIVE = {
    # kind: (input arg names, output arg names, seq, comb, constructor)
    'Reg': (('d', 'enable', 'reset'), ('q',), True, False, _mk_reg),
    'TReg': (('t', 'enable', 'reset'), ('q',), True, False,
             lambda p, par, n, a, k, s: p.TReg(par, n, a['t'], a['q'], enable=a.get('enable'), reset=a.get('reset'))),
    'Counter': (('reset', 'inc'), ('q',), True, False,
                lambda p, par, n, a, k, s: p.Counter(par, n, a.get('reset'), a.get('inc'), a['q'])),
    'ModuloCounter': (('reset', 'inc'), ('q', 'carryout'), True, False,
                      lambda p, par, n, a, k, s: p.ModuloCounter(par, n, k['mod'], a['reset'], a['inc'], a['q'], a['carryout'])),
    'DelayLine': (('a', 'en', 'reset'), ('r',), True, False,
                  lambda p, par, n, a, k, s: p.DelayLine(par, n, a['a'], a.get('en'), a.get('reset'), a['r'], k['delay'])),
    'SynchronousMemory': (('read_address', 'write_address', 'write', 'writedata'), ('readdata',), True, False,
                          lambda p, par, n, a, k, s: p.SynchronousMemory(par, n, a['read_address'], a['write_address'], a['write'], a['readdata'], a['writedata'])),
    'AsynchronousMemory': (('read_address', 'write_address', 'write', 'writedata'), ('readdata',), False, True,
                           lambda p, par, n, a, k, s: p.AsynchronousMemory(par, n, a['read_address'], a['write_address'], a['write'], a['readdata'], a['writedata'])),
    'Latch': (('d', 'enable'), ('q',), False, True,
              lambda p, par, n, a, k, s: p.Latch(par, n, a['d'], a['q'], a['enable'])),
    'Sequence': ((), ('r',), True, False,
                 lambda p, par, n, a, k, s: p.Sequence(par, n, _shared_list(k), a['r'], once=bool(k.get('once', False)))),
    'IfLeaf': (('d',), ('r',), False, True, lambda p, par, n, a, k, s: _if_leaf(p, par, n, a, k)),
    'RandomValue': ((), ('r',), True, False,
                    lambda p, par, n, a, k, s: p.RandomValue(par, n, a['r'], k['mean'], k['stddev'])),
    'AutoReset': ((), ('reset',), True, False,
                  lambda p, par, n, a, k, s: p.AutoReset(par, n, a['reset'])),
    'StreamCapture': (('x',), (), True, False,
                      lambda p, par, n, a, k, s: p.logic.simulation.StreamCapture(par, n, a['x'])),
    'BidirBuf': (('pout', 'poe'), ('pin',), False, True,
                 lambda p, par, n, a, k, s: p.BidirBuf(par, n, a['pin'], a['pout'], a['poe'], a['bidir'])),
    'DoublePrepare': (('a',), ('r',), True, False,
                      lambda p, par, n, a, k, s: classes()['DoublePrepare'](par, n, a['a'], a['r'], mode=k.get('mode', 0))),
    'PadPrepare': (('a', 'oe'), (), True, False,
                   lambda p, par, n, a, k, s: classes()['PadPrepare'](par, n, a['pad'], a.get('a'), step=k.get('step', 7), start=k.get('start', 0), oe=a.get('oe'))),
    'Moore': (('inc',), ('q',), True, False,
              lambda p, par, n, a, k, s: classes()['Moore'](par, n, a.get('inc'), a['q'], period=k.get('period', 3), gain=k.get('gain', 16), start=k.get('start', 0))),
    'PadPut': (('a',), (), False, True,
               lambda p, par, n, a, k, s: classes()['PadPut'](par, n, a['pad'], a['a'], k=k.get('k', 3), off=k.get('off', 5))),
    'Stack_ShiftRegister': (('din', 'push', 'pop'), ('dout',), True, False,
                            lambda p, par, n, a, k, s: p.Stack_ShiftRegister(par, n, a['din'], a['dout'], a['push'], a['pop'], None, None, k.get('depth', 3))),
    # adders with an arbitrary-width wire on the carry port (the constructors accept it)
    'AddWideCI': (('a', 'b', 'ci'), ('r',), False, True,
                  lambda p, par, n, a, k, s: p.Add(par, n, a['a'], a['b'], a['r'], ci=a.get('ci'))),
    'AddCarryInWide': (('a', 'b', 'ci'), ('r',), False, True,
                       lambda p, par, n, a, k, s: p.AddCarryIn(par, n, a['a'], a['b'], a['r'], a['ci'])),
    'SubBorrowInWide': (('a', 'b', 'ci'), ('r',), False, True,
                        lambda p, par, n, a, k, s: p.SubBorrowIn(par, n, a['a'], a['b'], a['r'], a['ci'])),
    'FloatPut': (('a',), ('r',), False, True,
                 lambda p, par, n, a, k, s: classes()['FloatPut'](par, n, a['a'], a['r'], k=k.get('k', 2))),
    'FloatPrepare': (('a',), ('r',), True, False,
                     lambda p, par, n, a, k, s: classes()['FloatPrepare'](par, n, a['a'], a['r'], k=k.get('k', 2))),
    'AbsLeaf': (('a',), ('r',), False, True, _abs_leaf),
    'AbsGroup': (('a',), ('r',), False, True, _abs_group),
    'AbsClocked': (('a',), ('r',), True, False, _abs_clocked),
    'DoublePut': (('a',), ('r',), False, True,
                  lambda p, par, n, a, k, s: classes()['DoublePut'](par, n, a['a'], a['r'], mode=k.get('mode', 0))),
    'Waveform': (('w0', 'w1', 'w2', 'w3'), (), True, False,
                 lambda p, par, n, a, k, s: p.Waveform(par, n, [a[x] for x in ('w0', 'w1', 'w2', 'w3') if a.get(x) is not None])),
    'EdgeDetector': (('a',), ('r',), True, True,
                     lambda p, par, n, a, k, s: p.EdgeDetector(par, n, a['a'], a['r'], k['direction'])),
    'ClockSyncFSM': (('start', 'stop'), ('sync', 'active'), True, False,
                     lambda p, par, n, a, k, s: _uart().clock.ClockSyncFSM(par, n, a['start'], a['stop'], a['sync'], a['active'])),
    'UARTSerializer': (('valid', 'v', 'uart_clock_posedge'), ('ready', 'tx'), True, False,
                       lambda p, par, n, a, k, s: _uart().serdes.UARTSerializer(par, n, a['ready'], a['valid'], a['v'], a['uart_clock_posedge'], a['tx'])),
    'UARTDeserializer': (('rx', 'rx_sample', 'ready'), ('valid', 'v', 'clock_desync'), True, False,
                         lambda p, par, n, a, k, s: _uart().serdes.UARTDeserializer(par, n, a['rx'], a['rx_sample'], a['ready'], a['valid'], a['v'], a['clock_desync'])),
    'MsgSequencer': (('ready',), ('valid', 'v'), True, False,
                     lambda p, par, n, a, k, s: _uart().sequencer.MsgSequencer(par, n, a['ready'], a['valid'], a['v'], k['msg'])),
    'Axi2ClkFSM': (('active_handshake', 'clk_target', 'reset_clk_count'), ('clk_count', 'clk_out', 'load_outs'), True, False,
                   lambda p, par, n, a, k, s: _vitis().Axi2ClkFSM(par, n, a['active_handshake'], a['clk_target'], a['reset_clk_count'], a['clk_count'], a['clk_out'], a['load_outs'])),
    'VitisKernelFSM': (('ap_start', 'ap_reset', 'load_outs', 'all_sent'), ('ap_done', 'ap_idle', 'ap_ready'), True, False,
                       lambda p, par, n, a, k, s: _vitis().VitisKernelFSM(par, n, a['ap_start'], a['ap_reset'], a['ap_done'], a['ap_idle'], a['ap_ready'], a['load_outs'], a['all_sent'])),
}


def native_block(bid, kind, args, params=None, scope=''):
    ins_n, outs_n, seq, comb, _ = NATIVE[kind]
    return dict(id=bid, kind=kind, args=dict(args), params=dict(params or {}),
                ins=[args[n] for n in ins_n if args.get(n) is not None],
                outs=[args[n] for n in outs_n if args.get(n) is not None],
                comb=comb, seq=seq, scope=scope)


def cat_block(bid, entry, cfg, conn, scope=''):
    sig = signature(entry, cfg)
    if 'error' in sig:
        raise ValueError('catalogue configuration %s%r does not build: %s' % (entry, cfg, sig['error']))
    assert len(conn) == len(sig['pins']), (entry, cfg, conn, sig)
    return dict(id=bid, kind='cat', entry=entry, cfg=cfg_json(cfg), conn=list(conn),
                ins=[conn[k] for k in sig['ins']], outs=[conn[k] for k in sig['outs']],
                comb=True, seq=False, scope=scope, prim=sig['prim'])


def new_plan():
    return dict(v=1, wires=[], inputs=[], scopes=[], blocks=[], fault=None)


def plan_hash(plan):
    return stable_hash(plan)


# --------------------------------------------------------------------------- instantiate

class Built:
    def __init__(self, plan):
        self.plan = plan
        self.hw = None
        self.W = {}
        self.B = {}
        self.boxes = {}
        self.sim = None

    def poke(self, values):
        for wid, v in values.items():
            if wid.startswith('#'):
                continue        # '#n': number of cycles of the clk() call that follows (see c04.make_hist)
            self.W[wid].put(v)

    def simulator(self, how='get'):
        """how: 'get'   HWSystem.getSimulator()                      (singleton accessor)
                'direct' py4hw.simulation.Simulator(hw)               (public constructor, as test/interactive/tb_Bits.py)
                'scope'  a py4hw.Scope added to the design, whose constructor creates the simulator and registers as listener
                'twice'  getSimulator() called twice in a row"""
        py4hw = P()
        with muted():
            if how == 'direct':
                import py4hw.simulation as S
                self.sim = S.Simulator(self.hw)
            elif how == 'scope':
                w = [x for x in self.W.values()][:2]
                py4hw.Scope(self.hw, 'verif_scope', w)
                self.sim = self.hw.simulator
            elif how == 'twice':
                self.hw.getSimulator()
                self.sim = self.hw.getSimulator()
            else:
                self.sim = self.hw.getSimulator()
        return self.sim


def _parent_path(path):
    return path.rsplit('/', 1)[0] if '/' in path else ''


def build(plan, block_order=None, wire_order=None, subst=None, extra=None, pause_at=None, on_pause=None):
    """Instantiate the plan under a fresh HWSystem.
    block_order / wire_order: permutations of block ids / wire ids (default: plan order).
    subst: {'Reg': cls} class substitution for native kinds (PutReg twin).
    extra(built): called after all plan blocks exist and before returning (harness probes, waveforms...).
    pause_at / on_pause: after `pause_at` blocks have been instantiated on_pause(built) is called (e.g. an early
    getSimulator(), so that the remaining blocks are late additions)."""
    py4hw = P()
    cls = classes()
    subst = subst or {}
    _SHARED.clear()
    b = Built(plan)
    with muted():
        hw = py4hw.HWSystem()
    b.hw = hw
    wspec = {w['id']: w for w in plan['wires']}
    bspec = {x['id']: x for x in plan['blocks']}
    sspec = {s['path']: s for s in plan.get('scopes', [])}
    b.boxes[''] = hw

    def get_wire(wid):
        if wid in b.W:
            return b.W[wid]
        s = wspec[wid]
        if s.get('bidir'):
            w = scope_obj(s['scope']).bidir_wire(s.get('name', wid), s['w'])
        else:
            w = scope_obj(s['scope']).wire(s.get('name', wid), s['w'])
        b.W[wid] = w
        return w

    def scope_obj(path):
        if path in b.boxes:
            return b.boxes[path]
        par = scope_obj(_parent_path(path))
        box = cls['Box'](par, path.rsplit('/', 1)[-1])
        b.boxes[path] = box
        ck = (sspec.get(path) or {}).get('clock')
        if ck:
            en = get_wire(ck['enable']) if ck.get('enable') else None
            if ck.get('freq'):
                # a driver of its own frequency (base=None: ClockDriver copies the frequency of a base driver)
                box.clockDriver = py4hw.ClockDriver(ck['name'], freq=ck['freq'], enable=en)
            else:
                box.clockDriver = py4hw.ClockDriver(ck['name'], base=hw.clockDriver, enable=en)
        return box

    worder = list(wire_order) if wire_order is not None else [w['id'] for w in plan['wires']]
    border = list(block_order) if block_order is not None else [x['id'] for x in plan['blocks']]
    assert sorted(worder) == sorted(wspec) and sorted(border) == sorted(bspec), 'orders must be permutations of the plan'
    with muted():
        for wid in worder:
            get_wire(wid)
        for nb, bid in enumerate(border):
            if on_pause is not None and nb == pause_at:
                on_pause(b)
            x = bspec[bid]
            par = scope_obj(x['scope'])
            if x['kind'] == 'cat':
                e = catalog.by_name(x['entry'])
                conn = x['conn']
                k = [0]

                def mk(name, width, conn=conn, k=k, x=x):
                    w = b.W[conn[k[0]]]
                    if w.getWidth() != width and not (name in x.get('wide_pins', ())):
                        raise ValueError('plan wire %s is %d bits, pin %s of %s needs %d' % (conn[k[0]], w.getWidth(), name, x['entry'], width))
                    k[0] += 1
                    return w
                if 'd' in par.children:
                    raise ValueError('scope %r already has a child named d' % x['scope'])
                e.build(par, norm_cfg(x['cfg']), mk)
                child = par.children.pop('d')
                iname = x.get('name', bid)       # instance name (several blocks in different scopes may share it)
                if iname in par.children:
                    raise ValueError('scope %r already has a child named %s' % (x['scope'], iname))
                child.name = iname
                par.children[iname] = child
                b.B[bid] = child
            else:
                ctor = NATIVE[x['kind']][4]
                a = {n: (b.W[v] if v is not None else None) for n, v in x['args'].items()}
                b.B[bid] = ctor(py4hw, par, x.get('name', bid), a, x.get('params', {}), subst)
        # declare the ports of the structural wrappers from the plan (structural ports do not take part in simulation)
        for path, box in b.boxes.items():
            if path == '':
                continue
            pin, pout = box_ports(plan, path)
            for wid in pin:
                box.addIn('i_' + wid, b.W[wid])
            for wid in pout:
                box.addOut('o_' + wid, b.W[wid])
        if extra is not None:
            extra(b)
    return b


def _inside(scope, path):
    return scope == path or scope.startswith(path + '/')


def box_ports(plan, path):
    """wires crossing the boundary of the wrapper `path`: (inputs, outputs)"""
    wscope = {w['id']: w['scope'] for w in plan['wires']}
    used_in, driven_in = set(), set()
    for x in plan['blocks']:
        if _inside(x['scope'], path):
            used_in.update(x['ins'])
            driven_in.update(x['outs'])
    pin = sorted(w for w in used_in if not _inside(wscope[w], path) and w not in driven_in)
    pout = sorted(w for w in driven_in if not _inside(wscope[w], path))
    return pin, pout


# --------------------------------------------------------------------------- orders

def orders(items, rnd, k, exhaustive_max=6):
    """identity, reverse, random ...; all n! when n <= exhaustive_max"""
    items = list(items)
    n = len(items)
    if n <= exhaustive_max:
        return [list(p) for p in itertools.permutations(items)]
    out = [list(items), list(reversed(items))]
    seen = {tuple(out[0]), tuple(out[1])}
    tries = 0
    while len(out) < k and tries < 20 * k:
        tries += 1
        p = list(items)
        rnd.shuffle(p)
        if tuple(p) not in seen:
            seen.add(tuple(p))
            out.append(p)
    return out


# --------------------------------------------------------------------------- dependency graphs

def my_leaves(root):
    """own traversal (children dict order), not Logic.allLeaves"""
    out = []

    def rec(o):
        ch = list(o.children.values())
        if ch:
            for c in ch:
                rec(c)
        else:
            out.append(o)
    rec(root)
    return out


def is_prop(o):
    return callable(getattr(o, 'propagate', None))


def is_clk(o):
    return callable(getattr(o, 'clock', None))


def leaf_graph(root):
    """combinational dependency graph recomputed from the leaves' own port lists (never from Wire.sinks/source):
    returns (propagatable leaves in instantiation order, {id(leaf): [successor leaves]})"""
    leaves = [l for l in my_leaves(root) if is_prop(l)]
    readers = {}
    for l in leaves:
        for p in list(l.inPorts) + list(l.inOutPorts):
            if p.wire is not None:
                readers.setdefault(id(p.wire), []).append(l)
    succ = {}
    for l in leaves:
        s = []
        seen = set()
        for p in list(l.outPorts):
            if p.wire is None:
                continue
            for r in readers.get(id(p.wire), ()):
                if id(r) not in seen:
                    seen.add(id(r))
                    s.append(r)
        succ[id(l)] = s
    return leaves, succ


def plan_graph(plan):
    """plan-level combinational graph: {block id: [block ids reading one of its outputs]} over comb blocks only"""
    comb = [x for x in plan['blocks'] if x['comb']]
    readers = {}
    for x in comb:
        for w in x['ins']:
            readers.setdefault(w, []).append(x['id'])
    g = {}
    for x in comb:
        s = []
        for w in x['outs']:
            for r in readers.get(w, ()):
                if r not in s:
                    s.append(r)
        g[x['id']] = s
    return g


def sccs(nodes, succ):
    """Tarjan (iterative). nodes: list of keys; succ: key -> list of keys. Returns list of components (lists)."""
    index = {}
    low = {}
    on = set()
    st = []
    out = []
    cnt = [0]
    for root in nodes:
        if root in index:
            continue
        work = [(root, 0)]
        while work:
            v, i = work.pop()
            if i == 0:
                index[v] = low[v] = cnt[0]
                cnt[0] += 1
                st.append(v)
                on.add(v)
            recurse = False
            ss = succ.get(v, ())
            while i < len(ss):
                w = ss[i]
                i += 1
                if w not in index:
                    work.append((v, i))
                    work.append((w, 0))
                    recurse = True
                    break
                if w in on:
                    low[v] = min(low[v], index[w])
            if recurse:
                continue
            if low[v] == index[v]:
                comp = []
                while True:
                    w = st.pop()
                    on.discard(w)
                    comp.append(w)
                    if w == v:
                        break
                out.append(comp)
            if work:
                u = work[-1][0]
                low[u] = min(low[u], low[v])
    return out


def comb_cycles(root):
    """cyclic strongly connected components of the leaf graph: list of lists of leaves (a single leaf with a self edge counts)"""
    leaves, succ = leaf_graph(root)
    byid = {id(l): l for l in leaves}
    s2 = {k: [id(x) for x in v] for k, v in succ.items()}
    out = []
    for comp in sccs([id(l) for l in leaves], s2):
        if len(comp) > 1 or comp[0] in s2.get(comp[0], ()):
            out.append([byid[c] for c in comp])
    return out


def inversions(order, succ):
    """number of dependency edges (a -> b) with b placed before a in `order` (leaves)"""
    pos = {id(l): k for k, l in enumerate(order)}
    n = 0
    for l in order:
        for s in succ.get(id(l), ()):
            if id(s) in pos and pos[id(s)] < pos[id(l)]:
                n += 1
    return n


# --------------------------------------------------------------------------- generators

def _lca(a, b):
    if a is None:
        return b
    pa = a.split('/') if a else []
    pb = b.split('/') if b else []
    out = []
    for x, y in zip(pa, pb):
        if x != y:
            break
        out.append(x)
    return '/'.join(out)


def assign_wire_scopes(plan):
    """owner of a wire = lowest common ancestor of the scopes of all blocks touching it; inputs belong to the root"""
    own = {}
    for x in plan['blocks']:
        for w in x['ins'] + x['outs']:
            own[w] = _lca(own.get(w), x['scope'])
    clock_en = {s['clock']['enable'] for s in plan.get('scopes', []) if s.get('clock') and s['clock'].get('enable')}
    for w in plan['wires']:
        if w['id'] in plan['inputs'] or w['id'] in clock_en:
            w['scope'] = ''
        else:
            w['scope'] = own.get(w['id'], '') or ''
    return plan


class _Gen:
    def __init__(self, rnd):
        self.rnd = rnd
        self.plan = new_plan()
        self.bywidth = {}
        self.nw = 0
        self.nb = 0
        self.ni = 0

    def wire(self, width, pool=True, prefix='w'):
        wid = '%s%d' % (prefix, self.nw)
        self.nw += 1
        self.plan['wires'].append(dict(id=wid, w=width, scope=''))
        if pool:
            self.bywidth.setdefault(width, []).append(wid)
        return wid

    def input(self, width):
        wid = 'in%d' % self.ni
        self.ni += 1
        self.plan['wires'].append(dict(id=wid, w=width, scope=''))
        self.plan['inputs'].append(wid)
        self.bywidth.setdefault(width, []).append(wid)
        return wid

    def pick(self, width, p_new=0.15, recent=6):
        pool = self.bywidth.get(width)
        if not pool or self.rnd.random() < p_new:
            return self.input(width)
        if self.rnd.random() < 0.6:
            return self.rnd.choice(pool[-recent:])
        return self.rnd.choice(pool)

    def bid(self, prefix='b'):
        s = '%s%d' % (prefix, self.nb)
        self.nb += 1
        return s


def comb_pool(prim_only=False, allow_random=False, props=('C07', 'C08'), max_leaves=24, tier='quick'):
    out = []
    for e in catalog.ENTRIES:
        if e.prop not in props:
            continue
        if not allow_random and e.name in RANDOM_AT_ZERO:
            continue
        out.append(e)
    return out


WIDE_CONTROL_PINS = ('ci',)      # catalogue pins declared 1 bit wide whose constructors accept any width


def gen_dag(rnd, n_blocks, prim_only=False, n_regs=0, n_boxes=0, allow_random=False, max_leaves=24,
            reg_narrow=False, tier='quick', scope_p=0.45, wide_ctl=0.0, p_abs=0.0):
    """random acyclic combinational netlist from the catalogue, optionally with Regs in feedback and wrappers"""
    g = _Gen(rnd)
    pool = comb_pool(prim_only, allow_random)
    scopes = ['']
    for k in range(n_boxes):
        par = rnd.choice(scopes) if rnd.random() < 0.4 else ''
        if par.count('/') >= 1:
            par = ''
        scopes.append((par + '/' if par else '') + 'bx%d' % k)
    g.plan['scopes'] = [dict(path=s, clock=None) for s in scopes[1:]]

    def scope():
        return rnd.choice(scopes[1:]) if len(scopes) > 1 and rnd.random() < scope_p else ''

    for _ in range(rnd.randint(1, 3)):
        g.input(rnd.choice([1, 2, 3, 4, 5, 8]))
    regs = []
    for _ in range(n_regs):
        w = rnd.choice([1, 2, 3, 4, 5, 8])
        q = g.wire(w)
        regs.append((w, q))
    made = 0
    guard = 0
    while made < n_blocks and guard < 50 * n_blocks:
        guard += 1
        if p_abs and rnd.random() < 0.25 * p_abs + 0.03:
            # leaves declared through an Interface (reverse channel driven combinationally), and BidirWire nets driven by a
            # Buf and read by BidirBufs whose output enable is tied to 0
            aw = rnd.choice(sorted(g.bywidth)) if g.bywidth else 4
            if rnd.random() < 0.5:
                src = g.pick(aw)
                for _ in range(rnd.randint(2, 3)):
                    o = g.wire(aw, pool=False)
                    blk = native_block(g.bid('i'), 'IfLeaf', dict(d=src, r=o), dict(k=rnd.randrange(1 << aw), mode=rnd.choice(['sink', 'source'])), scope())
                    blk['prim'] = True
                    g.plan['blocks'].append(blk)
                    g.bywidth.setdefault(aw, []).append(o)
                    src = o
                    made += 1
            else:
                bw = g.wire(aw, pool=False)
                for x in g.plan['wires']:
                    if x['id'] == bw:
                        x['bidir'] = True
                z = g.wire(aw, pool=False)
                z1 = g.wire(1, pool=False)
                g.plan['blocks'].append(cat_block(g.bid('z'), 'Constant', (aw, 0), [z], ''))
                g.plan['blocks'].append(cat_block(g.bid('z'), 'Constant', (1, 0), [z1], ''))
                g.plan['blocks'].append(cat_block(g.bid('d'), 'Buf', (aw, aw), [g.pick(aw), bw], ''))
                for _ in range(rnd.randint(1, 3)):
                    pin = g.wire(aw, pool=False)
                    g.plan['blocks'].append(native_block(g.bid('q'), 'BidirBuf', dict(pout=z, poe=z1, pin=pin, bidir=bw), {}, ''))
                    g.bywidth.setdefault(aw, []).append(pin)
                    made += 1
            continue
        if p_abs and rnd.random() < p_abs:
            # run-time class instances: the same class as behaviour-less group, as combinational leaf and as source
            cls_name = rnd.choice(['AbsBlk0', 'AbsBlk1'])
            kind = rnd.choice(['AbsGroup', 'AbsLeaf', 'AbsLeaf', 'AbsSrc'])
            aw = rnd.choice(sorted(g.bywidth)) if g.bywidth else 4
            o = g.wire(aw, pool=False)
            if kind == 'AbsSrc':
                blk = native_block(g.bid('x'), 'AbsLeaf', dict(a=None, r=o), dict(cls=cls_name, k=rnd.randrange(1 << aw)), scope())
            else:
                blk = native_block(g.bid('x'), kind, dict(a=g.pick(aw), r=o), dict(cls=cls_name, k=rnd.randrange(1 << aw)), scope())
            blk['prim'] = (kind != 'AbsGroup')
            g.plan['blocks'].append(blk)
            g.bywidth.setdefault(aw, []).append(o)
            made += 1
            continue
        best = None
        for _ in range(4):
            e = rnd.choice(pool)
            cfgs = e.configs(tier)
            cfg = cfgs[rnd.randrange(len(cfgs))]
            sig = signature(e.name, cfg)
            if 'error' in sig or sig['leaves'] > max_leaves or (prim_only and not sig['prim']):
                continue
            score = sum(1 for k in sig['ins'] if g.bywidth.get(sig['pins'][k][1])) + rnd.random()
            if best is None or score > best[0]:
                best = (score, e, cfg, sig)
        if best is None:
            continue
        _, e, cfg, sig = best
        conn = [None] * len(sig['pins'])
        wide = []
        for k in sig['ins']:
            pname, pw = sig['pins'][k]
            if wide_ctl and pname in WIDE_CONTROL_PINS and rnd.random() < wide_ctl and g.bywidth:
                # a multi-bit wire on a carry / control port (e.g. a counter output used as third addend)
                conn[k] = g.pick(rnd.choice(sorted(g.bywidth)), p_new=0.0)
                wide.append(pname)
            else:
                conn[k] = g.pick(pw)
        for k in sig['outs']:
            conn[k] = g.wire(sig['pins'][k][1], pool=False)
        for k in sig['outs']:
            g.bywidth.setdefault(sig['pins'][k][1], []).append(conn[k])
        blk = cat_block(g.bid(), e.name, cfg, conn, scope())
        if wide:
            blk['wide_pins'] = wide
        g.plan['blocks'].append(blk)
        made += 1
    for k, (w, q) in enumerate(regs):
        dw = w
        if reg_narrow and rnd.random() < 0.5:
            cands = [x for x in g.bywidth if x > w]
            if cands:
                dw = rnd.choice(cands)
        d = g.pick(dw, p_new=0.05, recent=10 ** 6)
        en = g.pick(1, p_new=0.3) if rnd.random() < 0.4 else None
        rs = g.pick(1, p_new=0.3) if rnd.random() < 0.3 else None
        rv = rnd.choice([None, 0, 1, (1 << w) - 1, (1 << w) + 3, -1, -(1 << w) - 2]) if reg_narrow else rnd.choice([None, 0, 1, (1 << w) - 1])
        blk = native_block('r%d' % k, 'Reg', dict(d=d, q=q, enable=en, reset=rs), dict(reset_value=rv), scope())
        g.plan['blocks'].insert(rnd.randrange(len(g.plan['blocks']) + 1), blk)
    return assign_wire_scopes(g.plan)


def gen_gated(rnd, n_blocks, tier='quick', prim_only=False):
    """gen_dag plus gated clock domains: one or more top-level wrappers get their own ClockDriver whose enable is a
    poked 1-bit input (0 on many cycles), a toggling register or a registered copy of an input.  Every gated wrapper
    is guaranteed to contain a register, a combinational leaf fed from OUTSIDE the domain (a register of the always
    running root domain), a combinational leaf fed from INSIDE (its own register) and to feed ungated logic downstream.
    plan['gated'] lists the gated scope paths."""
    plan = gen_dag(rnd, n_blocks, prim_only=prim_only, n_regs=rnd.randint(1, 4), n_boxes=rnd.randint(1, 3), scope_p=0.6,
                   tier=tier, max_leaves=12)
    top = [s for s in plan['scopes'] if '/' not in s['path']]
    gated = rnd.sample(top, rnd.randint(1, len(top)))
    extra = []

    def wire(wid, w, inp=False):
        plan['wires'].append(dict(id=wid, w=w, scope=''))
        if inp:
            plan['inputs'].append(wid)
        return wid

    for k, s in enumerate(gated):
        box = s['path']
        en = 'gen%d' % k
        mode = rnd.choice(['input', 'input', 'toggle', 'delayed'])
        if mode == 'input':
            wire(en, 1, True)
        elif mode == 'toggle':
            wire(en, 1)
            wire('gend%d' % k, 1)
            extra.append(cat_block('gtn%d' % k, 'Not', (1, 1), [en, 'gend%d' % k], ''))
            extra.append(native_block('gtr%d' % k, 'Reg', dict(d='gend%d' % k, q=en, enable=None, reset=None), {}, ''))
        else:
            wire(en, 1)
            wire('geni%d' % k, 1, True)
            extra.append(native_block('gtr%d' % k, 'Reg', dict(d='geni%d' % k, q=en, enable=None, reset=None), {}, ''))
        s['clock'] = dict(name='gck%d' % k, enable=en, mode=mode)
        w = rnd.choice([1, 3, 4, 8])
        si, sq, ga, gb, gc, gz = [x + str(k) for x in ('gsi', 'gsq', 'ga', 'gb', 'gc', 'gz')]
        wire(si, w, True)
        for x in (sq, ga, gb, gc, gz):
            wire(x, w)
        inner = box
        sub = [t['path'] for t in plan['scopes'] if t['path'].startswith(box + '/')]
        extra.append(native_block('gsr%d' % k, 'Reg', dict(d=si, q=sq, enable=None, reset=None), dict(reset_value=rnd.randrange(1 << w)), ''))
        extra.append(cat_block('gin%d' % k, 'Not', (w, w), [sq, ga], rnd.choice([inner] + sub)))       # fed from outside the domain
        extra.append(native_block('ghr%d' % k, 'Reg', dict(d=ga, q=gb, enable=None, reset=None), {}, inner))  # register of the gated domain
        extra.append(cat_block('gix%d' % k, 'Xor2', (w,), [gb, sq, gc], inner))                         # fed from inside and outside
        extra.append(cat_block('gdn%d' % k, 'Xor2', (w,), [ga, sq, gz], ''))                            # ungated logic downstream
    for blk in extra:
        plan['blocks'].insert(rnd.randrange(len(plan['blocks']) + 1), blk)
    plan['gated'] = [s['path'] for s in gated]
    return assign_wire_scopes(plan)


def gen_chain(n, width=1, kind='Not'):
    """n inverters (or buffers) in a row; plan order = dataflow order"""
    g = _Gen(None)
    prev = g.input(width)
    for k in range(n):
        nxt = g.wire(width)
        g.plan['blocks'].append(cat_block('n%d' % k, kind, (width, width), [prev, nxt], ''))
        prev = nxt
    return assign_wire_scopes(g.plan)


def gen_layered(rnd, depth, width, w=1):
    """wide-and-deep acyclic netlist of primitive gates: `depth` layers of `width` gates; every gate reads one wire of the
    previous layer in its own column (so the longest combinational path has `depth` leaves) and, for 2-input gates, one
    random wire of the previous layer.  plan order = dataflow order (layer by layer)."""
    g = _Gen(rnd)
    prev = [g.input(w) for _ in range(width)]
    n = 0
    for d in range(depth):
        cur = []
        for c in range(width):
            o = g.wire(w)
            kind = rnd.choice(['Not', 'Buf', 'And2', 'Or2', 'Xor2'])
            if kind in ('Not', 'Buf'):
                g.plan['blocks'].append(cat_block('g%d' % n, kind, (w, w), [prev[c], o], ''))
            else:
                g.plan['blocks'].append(cat_block('g%d' % n, kind, (w,), [prev[c], rnd.choice(prev), o], ''))
            n += 1
            cur.append(o)
        prev = cur
    return assign_wire_scopes(g.plan)


def local_shuffle(items, rnd, window):
    """order in which every item stays within `window` positions of its place (cheap for swap sorters, still out of order)"""
    items = list(items)
    out = []
    for k in range(0, len(items), window):
        seg = items[k:k + window]
        rnd.shuffle(seg)
        out += seg
    return out


# --------------------------------------------------------------------------- fault injection (combinational cycles)

FAULT_KINDS = ('self', 'two', 'n', 'wrapper', 'self_wrapper', 'rewire', 'tail')
LEGAL_KINDS = ('reg',)


def _ring_blocks(plan, rnd, length, width, x, with_reg=False, scopes=None, prefix='f'):
    """And2(x, L[length-1] -> L[0]); then Not/Buf L[i-1] -> L[i].  with_reg: one stage is a Reg (legal loop)."""
    L = []
    for i in range(length):
        wid = '%sL%d' % (prefix, i)
        plan['wires'].append(dict(id=wid, w=width, scope=''))
        L.append(wid)
    blocks = [cat_block('%s0' % prefix, 'And2', (width,), [x, L[length - 1], L[0]], scopes[0] if scopes else '')]
    reg_at = rnd.randrange(1, length) if (with_reg and length > 1) else None
    for i in range(1, length):
        sc = scopes[i % len(scopes)] if scopes else ''
        if reg_at == i:
            blocks.append(native_block('%s%d' % (prefix, i), 'Reg', dict(d=L[i - 1], q=L[i], enable=None, reset=None), {}, sc))
        else:
            blocks.append(cat_block('%s%d' % (prefix, i), rnd.choice(['Not', 'Buf']), (width, width), [L[i - 1], L[i]], sc))
    return blocks, L


def inject_cycle(plan, rnd, kind):
    """returns a deep copy of the plan with one loop added. kinds:
    self: And2(x, l -> l); two: 2 leaves; n: 3..9 leaves; wrapper: ring whose leaves alternate between the root and a
    structural wrapper; self_wrapper: self-loop of a leaf inside a wrapper through a wire owned outside;
    rewire: an input of an existing block is reconnected to a wire combinationally downstream of it;
    tail: ring appended after everything else (hidden behind an already sorted prefix); reg: ring closed through a Reg (legal)."""
    p = copy.deepcopy(plan)
    widths = sorted({w['w'] for w in p['wires']})
    cands = [w for w in p['wires']]
    src = rnd.choice(cands)
    width = src['w']
    x = src['id']
    info = dict(kind=kind)
    if kind == 'rewire':
        g = plan_graph(p)
        bsp = {b['id']: b for b in p['blocks']}
        ww = {w['id']: w['w'] for w in p['wires']}
        # reachability
        options = []
        for a in g:
            seen = {a}
            stack = [a]
            while stack:
                v = stack.pop()
                for s in g[v]:
                    if s not in seen:
                        seen.add(s)
                        stack.append(s)
            for bq in seen:
                for ow in bsp[bq]['outs']:
                    for k, iw in enumerate(bsp[a]['conn'] if bsp[a]['kind'] == 'cat' else []):
                        if iw in bsp[a]['ins'] and ww[iw] == ww[ow] and iw != ow:
                            options.append((a, k, ow, bq))
        if options:
            a, k, ow, bq = rnd.choice(options)
            blk = bsp[a]
            old = blk['conn'][k]
            blk['conn'][k] = ow
            # recompute ins exactly from the signature
            sig = signature(blk['entry'], blk['cfg'])
            blk['ins'] = [blk['conn'][i] for i in sig['ins']]
            info.update(block=a, pin=k, now=ow, was=old, via=bq, self_edge=(a == bq))
            # the old wire may have lost its last reader; it stays declared (dangling wires are legal)
            p['fault'] = info
            return assign_wire_scopes(p)
        kind = 'n'
        info['kind'] = 'n'
        info['fallback_from'] = 'rewire'
    if kind in ('wrapper', 'self_wrapper'):
        paths = [s['path'] for s in p.get('scopes', [])]
        if not paths:
            p.setdefault('scopes', []).append(dict(path='fbx', clock=None))
            paths = ['fbx']
        box = rnd.choice(paths)
    if kind == 'self':
        blocks, L = _ring_blocks(p, rnd, 1, width, x)
    elif kind == 'self_wrapper':
        blocks, L = _ring_blocks(p, rnd, 1, width, x, scopes=[box])
        # a reader in the root keeps the loop wire owned by the root: the loop leaves the wrapper and re-enters it
        tap = 'fT'
        p['wires'].append(dict(id=tap, w=width, scope=''))
        blocks.append(cat_block('ftap', 'Buf', (width, width), [L[0], tap], ''))
    elif kind == 'two':
        blocks, L = _ring_blocks(p, rnd, 2, width, x)
    elif kind in ('n', 'tail'):
        blocks, L = _ring_blocks(p, rnd, rnd.randint(3, 9), width, x)
    elif kind == 'wrapper':
        blocks, L = _ring_blocks(p, rnd, rnd.randint(2, 6), width, x, scopes=['', box])
    elif kind == 'reg':
        blocks, L = _ring_blocks(p, rnd, rnd.randint(2, 6), width, x, with_reg=True)
    else:
        raise ValueError(kind)
    info.update(length=len(L), width=width, blocks=[b['id'] for b in blocks])
    if kind == 'tail':
        p['blocks'].extend(blocks)
    else:
        for blk in blocks:
            p['blocks'].insert(rnd.randrange(len(p['blocks']) + 1), blk)
    p['fault'] = info
    return assign_wire_scopes(p)


# --------------------------------------------------------------------------- sequential designs (C05)

SEQ_SHAPES = ('shared_seq', 'ring', 'shift_taps', 'counter_mem', 'fsm_regs', 'random', 'two_domains', 'moore', 'pad', 'replicated')


def gen_seq(rnd, n_seq, shape=None, fsm=True):
    """design with n_seq sequential leaves wired to each other.  Returns the plan; plan['seq_ids'] lists the blocks
    that are single sequential leaves."""
    shape = shape or rnd.choice(SEQ_SHAPES)
    g = _Gen(rnd)
    w = rnd.choice([1, 2, 3, 4, 8])
    plan = g.plan
    plan['shape'] = shape

    def reg(d, q, en=None, rs=None, rv=None, scope=''):
        plan['blocks'].append(native_block(g.bid('r'), 'Reg', dict(d=d, q=q, enable=en, reset=rs), dict(reset_value=rv), scope))

    def cat(entry, cfg, conn, scope=''):
        plan['blocks'].append(cat_block(g.bid('c'), entry, cfg, conn, scope))

    if shape == 'shared_seq':
        # several Sequence blocks (once=True and default) built from ONE list object of the caller, feeding registers
        vals = [rnd.randrange(1 << w) for _ in range(rnd.randint(3, 6))]
        outs = []
        for k in range(rnd.randint(2, 3)):
            r = g.wire(w)
            plan['blocks'].append(native_block(g.bid('s'), 'Sequence', dict(r=r), dict(values=vals, once=(k < 2 or rnd.random() < 0.5), shared='L0'), ''))
            outs.append(r)
        acc = outs[0]
        for o in outs[1:]:
            nx = g.wire(w)
            cat('Xor2', (w,), [acc, o, nx])
            acc = nx
        for k in range(max(1, n_seq - len(outs))):
            q = g.wire(w)
            reg(acc if k == 0 else outs[k % len(outs)], q)
        rnd.shuffle(plan['blocks'])
    elif shape == 'ring':
        # q[i] -> (optional inverter) -> d[i+1]; closed ring; distinct reset values make it non-trivial
        qs = [g.wire(w) for _ in range(n_seq)]
        en = g.input(1) if rnd.random() < 0.5 else None
        for i in range(n_seq):
            src = qs[i - 1]
            if rnd.random() < 0.4:
                t = g.wire(w)
                cat('Not', (w, w), [src, t])
                src = t
            reg(src, qs[i], en=en if rnd.random() < 0.7 else None, rv=rnd.randrange(1 << w))
    elif shape == 'shift_taps':
        din = g.input(w)
        qs = [g.wire(w) for _ in range(n_seq)]
        taps = rnd.sample(range(n_seq), min(n_seq, rnd.randint(2, 3)))
        fb = qs[taps[0]]
        for t in taps[1:]:
            nx = g.wire(w)
            cat('Xor2', (w,), [fb, qs[t], nx])
            fb = nx
        first = g.wire(w)
        cat('Xor2', (w,), [fb, din, first])
        prev = first
        for i in range(n_seq):
            reg(prev, qs[i], rv=rnd.choice([None, 1, (1 << w) - 1]))
            prev = qs[i]
    elif shape == 'counter_mem':
        aw = rnd.choice([1, 2, 3])
        cnt = g.wire(aw)
        inc = g.input(1)
        plan['blocks'].append(native_block(g.bid('k'), 'Counter', dict(reset=None, inc=inc, q=cnt), {}, ''))
        rd = g.wire(w)
        wd = g.wire(w)
        we = g.input(1)
        ra = g.wire(aw)
        reg(cnt, ra)                     # delayed address
        plan['blocks'].append(native_block(g.bid('m'), 'SynchronousMemory',
                                           dict(read_address=ra, write_address=cnt, write=we, readdata=rd, writedata=wd), {}, ''))
        # write data = read data + counter-derived value held in a register chain
        prev = rd
        for i in range(max(1, n_seq - 3)):
            q = g.wire(w)
            reg(prev, q, rv=rnd.randrange(1 << w))
            prev = q
        x = g.input(w)
        cat('Xor2', (w,), [prev, x, wd]) if rnd.random() < 0.5 else cat('Add', (w, w, w, 0, 0), [prev, x, wd])
    elif shape == 'fsm_regs':
        one = [g.input(1) for _ in range(2)]
        bits = list(one)
        kinds = ['ClockSyncFSM', 'VitisKernelFSM', 'UARTSerializer', 'UARTDeserializer', 'MsgSequencer', 'Axi2ClkFSM', 'AutoReset']
        nf = max(1, min(n_seq - 1, rnd.randint(1, 3)))
        fsm_outs = []
        pending = []
        for _ in range(nf):
            k = rnd.choice(kinds)
            ins_n, outs_n, _, _, _ = NATIVE[k]
            args = {}
            for o in outs_n:
                ow = 8 if o == 'v' else (w if o == 'clk_count' else 1)
                args[o] = g.wire(ow, pool=False)
                fsm_outs.append((args[o], ow))
            pending.append((k, args, ins_n))
        for wid, ow in fsm_outs:
            g.bywidth.setdefault(ow, []).append(wid)
        nreg = max(1, n_seq - nf)
        rq = [g.wire(rnd.choice([1, 1, w])) for _ in range(nreg)]
        ww = {x['id']: x['w'] for x in plan['wires']}
        for k, args, ins_n in pending:
            for i_ in ins_n:
                iw = 8 if i_ == 'v' else (w if i_ == 'clk_target' else 1)
                args[i_] = g.pick(iw, p_new=0.2, recent=10 ** 6)
            params = dict(msg=''.join(rnd.choice('AZaz09 ~') for _ in range(rnd.randint(1, 4)))) if k == 'MsgSequencer' else {}
            plan['blocks'].append(native_block(g.bid('f'), k, args, params, ''))
        ww = {x['id']: x['w'] for x in plan['wires']}
        for q in rq:
            d = g.pick(ww[q], p_new=0.1, recent=10 ** 6)
            reg(d, q, en=g.pick(1, p_new=0.1, recent=10 ** 6) if rnd.random() < 0.5 else None,
                rs=g.pick(1, p_new=0.1, recent=10 ** 6) if rnd.random() < 0.3 else None, rv=rnd.randrange(1 << ww[q]))
        rnd.shuffle(plan['blocks'])
    elif shape == 'two_domains':
        # registers of two clock domains feed each other (second domain = a wrapper with its own ClockDriver)
        # the second domain is always running, gated by a poked input, or gated by a REGISTER output (toggling, or a
        # registered copy of an input) so that the enable changes from edge to edge inside one clk(n) call
        mode = rnd.choice(['none', 'input', 'toggle', 'delayed', 'toggle', 'delayed'])
        en = None
        if mode == 'input':
            en = g.input(1)
        elif mode == 'toggle':
            en = g.wire(1)
            nen = g.wire(1)
            cat('Not', (1, 1), [en, nen])
            reg(nen, en)
        elif mode == 'delayed':
            en = g.wire(1)
            reg(g.input(1), en)
        plan['scopes'] = [dict(path='dom', clock=dict(name='ckB', enable=en, mode=mode, freq=rnd.choice([None, 50E6, 25E6, 12.5E6, 1E6, 100E6])))]
        qs = [g.wire(w) for _ in range(n_seq)]
        for i in range(n_seq):
            src = qs[i - 1]
            if rnd.random() < 0.3:
                t = g.wire(w)
                cat('Not', (w, w), [src, t], scope='dom' if i % 2 else '')
                src = t
            reg(src, qs[i], rv=rnd.randrange(1 << w), scope='dom' if i % 2 else '')
    elif shape == 'moore':
        # user leaves with clock() AND propagate() between library sequential blocks.  A Sequence(once) that reaches its
        # last element and registers that catch up give edges at which NO prepared wire changes while a Moore block
        # still changes state (its prescaler ticks).
        w = rnd.choice([4, 8, 12])
        nm = 1 if n_seq < 4 else rnd.randint(1, 2)
        prev_q = None
        left = max(1, n_seq - nm - 1)
        for m in range(nm):
            inc = g.wire(1)
            vals = [rnd.getrandbits(1) for _ in range(rnd.randint(1, 4))] + [rnd.choice([0, 0, 1])]
            if m == 0 or prev_q is None:
                plan['blocks'].append(native_block(g.bid('s'), 'Sequence', dict(r=inc), dict(values=vals, once=rnd.random() < 0.8), ''))
            else:
                b0 = g.wire(1)
                cat('Bit', (w, 0), [prev_q, b0])
                reg(b0, inc)
            q = g.wire(w)
            plan['blocks'].append(native_block(g.bid('mo'), 'Moore', dict(inc=inc if rnd.random() < 0.85 else None, q=q),
                                               dict(period=rnd.choice([1, 2, 3, 5, 8]), gain=rnd.choice([1, 3, 16]), start=rnd.randrange(1 << w)), ''))
            src = q
            for i in range(max(1, left // nm)):
                if rnd.random() < 0.3:
                    t = g.wire(w)
                    cat('Not', (w, w), [src, t])
                    src = t
                nq = g.wire(w)
                reg(src, nq, en=g.input(1) if rnd.random() < 0.2 else None)
                src = nq
            prev_q = src
        rnd.shuffle(plan['blocks'])
    elif shape == 'pad':
        # sequential leaves that prepare() onto a bidirectional wire (registered tri-state pad / bus driver); the bus is
        # read back through a BidirBuf that never drives it and directly by a register
        w = rnd.choice([2, 4, 8])
        a = g.input(rnd.choice([w, w + 3]))
        bus = g.wire(w)
        oe = g.input(1) if rnd.random() < 0.5 else None
        plan['blocks'].append(native_block(g.bid('pd'), 'PadPrepare', dict(pad=bus, a=a if rnd.random() < 0.8 else None, oe=oe),
                                           dict(step=rnd.choice([1, 3, 7, -3]), start=rnd.randrange(1 << w)), ''))
        pin = g.wire(w)
        z = g.wire(w)
        z1 = g.wire(1)
        cat('Constant', (w, 0), [z])
        cat('Constant', (1, 0), [z1])
        plan['blocks'].append(native_block(g.bid('bb'), 'BidirBuf', dict(pout=z, poe=z1, pin=pin, bidir=bus), {}, ''))
        src = [pin, bus]
        for i in range(max(1, n_seq - 1)):
            q = g.wire(w)
            d = src[i] if i < 2 else src[-1]
            if rnd.random() < 0.3:
                t = g.wire(w)
                cat('Not', (w, w), [d, t])
                d = t
            reg(d, q, rv=rnd.randrange(1 << w))
            src.append(q)
        if n_seq >= 4 and rnd.random() < 0.5:
            # a second pad driven from the register chain (feedback through sequential leaves only)
            bus2 = g.wire(w)
            plan['blocks'].append(native_block(g.bid('pd'), 'PadPrepare', dict(pad=bus2, a=src[-1], oe=None), dict(step=0, start=0), ''))
            q = g.wire(w)
            reg(bus2, q)
            for x in plan['wires']:
                if x['id'] == bus2:
                    x['bidir'] = True
        for x in plan['wires']:
            if x['id'] == bus:
                x['bidir'] = True
        rnd.shuffle(plan['blocks'])
    elif shape == 'replicated':
        # the SAME sub-block (same wrapper name, same instance names, same local wire names) instantiated several times
        # under different parents, 3+ levels deep, all clocked at the same edge, each fed with different data
        w = rnd.choice([2, 4, 8])
        k = rnd.randint(2, 4)
        inner = rnd.sample(['regs', 'DelayLine', 'Stack_ShiftRegister', 'Counter', 'TReg'], rnd.randint(1, 3))
        if 'regs' not in inner and rnd.random() < 0.7:
            inner.append('regs')
        nreg = max(1, min(3, n_seq // k))
        dl = rnd.randint(2, 3)
        din = g.input(w)
        ctl = [g.input(1), g.input(1)]
        plan['scopes'] = []
        outs = []
        for r_ in range(k):
            top = 'u%d' % r_
            deep = rnd.random() < 0.6
            sc = top + '/core' + ('/stage' if deep else '')
            plan['scopes'] += [dict(path=top, clock=None), dict(path=top + '/core', clock=None)] + ([dict(path=sc, clock=None)] if deep else [])

            def lw(name, width, pre='u%d_' % r_):
                wid = pre + name
                plan['wires'].append(dict(id=wid, name=name, w=width, scope=''))
                return wid

            def blk(b_, name):
                b_['name'] = name
                plan['blocks'].append(b_)
            # per-replica data: the shared input xor a different constant
            src = lw('src', w)
            kc = lw('kc', w)
            blk(cat_block('u%d_kc' % r_, 'Constant', (w, rnd.randrange(1 << w)), [kc], sc), 'kc')
            blk(cat_block('u%d_mix' % r_, 'Xor2', (w,), [din, kc, src], sc), 'mix')
            cur = src
            for kind in inner:
                if kind == 'regs':
                    for j in range(nreg):
                        q = lw('s%d' % j, w)
                        blk(native_block('u%d_r%d' % (r_, j), 'Reg', dict(d=cur, q=q, enable=None, reset=None), dict(reset_value=rnd.randrange(1 << w)), sc), 'r%d' % j)
                        cur = q
                elif kind == 'DelayLine':
                    q = lw('dlo', w)
                    blk(native_block('u%d_dl' % r_, 'DelayLine', dict(a=cur, en=None, reset=None, r=q), dict(delay=dl), sc), 'dl')
                    cur = q
                elif kind == 'Stack_ShiftRegister':
                    q = lw('sto', w)
                    blk(native_block('u%d_st' % r_, 'Stack_ShiftRegister', dict(din=cur, dout=q, push=ctl[0], pop=ctl[1]), dict(depth=3), sc), 'st')
                    cur = q
                elif kind == 'Counter':
                    c = lw('cnt', w)
                    b0 = lw('cb', 1)
                    blk(cat_block('u%d_b0' % r_, 'Bit', (w, 0), [cur, b0], sc), 'b0')
                    blk(native_block('u%d_cnt' % r_, 'Counter', dict(reset=None, inc=b0, q=c), {}, sc), 'cnt')
                    x = lw('cx', w)
                    blk(cat_block('u%d_cx' % r_, 'Xor2', (w,), [cur, c, x], sc), 'cx')
                    cur = x
                else:
                    t = lw('tq', 1)
                    b0 = lw('tb', 1)
                    blk(cat_block('u%d_tb' % r_, 'Bit', (w, 0), [cur, b0], sc), 'tb')
                    blk(native_block('u%d_tr' % r_, 'TReg', dict(t=b0, q=t, enable=None, reset=None), {}, sc), 'tr')
            o = g.wire(w)       # uniquely named wire owned by the root: the replica's output port
            blk(cat_block('u%d_ob' % r_, 'Buf', (w, w), [cur, o], sc), 'ob')
            outs.append(o)
        acc = outs[0]
        for o in outs[1:]:
            nx = g.wire(w)
            cat('Xor2', (w,), [acc, o, nx])
            acc = nx
        reg(acc, g.wire(w))
        rnd.shuffle(plan['blocks'])
    else:   # random: registers / memory / sequence with a comb layer between them
        qs = []
        specs = []
        for i in range(n_seq):
            k = rnd.choice(['Reg', 'Reg', 'Reg', 'Sequence', 'SynchronousMemory'])
            if k == 'SynchronousMemory' and any(s[0] == k for s in specs):
                k = 'Reg'
            specs.append((k, g.wire(w)))
        din = g.input(w)
        comb = []
        for _ in range(rnd.randint(0, 3)):
            e = rnd.choice(['Xor2', 'And2', 'Or2', 'Not', 'Sub', 'Mux2'])
            if e == 'Not':
                o = g.wire(w, pool=False)
                cat('Not', (w, w), [g.pick(w, 0.05, 10 ** 6), o])
            elif e == 'Sub':
                o = g.wire(w, pool=False)
                cat('Sub', (w, w, w), [g.pick(w, 0.05, 10 ** 6), g.pick(w, 0.05, 10 ** 6), o])
            elif e == 'Mux2':
                o = g.wire(w, pool=False)
                cat('Mux2', (w, 1), [g.pick(1, 0.3, 10 ** 6), g.pick(w, 0.05, 10 ** 6), g.pick(w, 0.05, 10 ** 6), o])
            else:
                o = g.wire(w, pool=False)
                cat(e, (w,), [g.pick(w, 0.05, 10 ** 6), g.pick(w, 0.05, 10 ** 6), o])
            comb.append(o)
        for o in comb:
            g.bywidth.setdefault(w, []).append(o)
        for k, q in specs:
            if k == 'Reg':
                reg(g.pick(w, 0.05, 10 ** 6), q, en=g.pick(1, 0.4, 10 ** 6) if rnd.random() < 0.4 else None,
                    rs=g.pick(1, 0.4, 10 ** 6) if rnd.random() < 0.25 else None, rv=rnd.randrange(1 << w))
            elif k == 'Sequence':
                plan['blocks'].append(native_block(g.bid('s'), 'Sequence', dict(r=q),
                                                   dict(values=[rnd.randrange(1 << w) for _ in range(rnd.randint(1, 5))], once=rnd.random() < 0.3), ''))
            else:
                aw = rnd.choice([1, 2])
                ra = g.pick(aw, 0.5, 10 ** 6)
                wa = g.pick(aw, 0.5, 10 ** 6)
                plan['blocks'].append(native_block(g.bid('m'), 'SynchronousMemory',
                                                   dict(read_address=ra, write_address=wa, write=g.pick(1, 0.5, 10 ** 6), readdata=q,
                                                        writedata=g.pick(w, 0.05, 10 ** 6)), {}, ''))
        rnd.shuffle(plan['blocks'])
    # StreamCapture blocks next to the registers, on the same wires (root domain and, if there is one, the second domain)
    regs_ = [x for x in plan['blocks'] if x['kind'] == 'Reg']
    for k, x in enumerate(rnd.sample(regs_, min(len(regs_), 2))):
        wid = rnd.choice([x['args']['d'], x['args']['q']])
        plan['blocks'].append(native_block('cap%d' % k, 'StreamCapture', dict(x=wid), {}, x['scope']))
    return assign_wire_scopes(plan)


# --------------------------------------------------------------------------- state snapshots

def wire_values(root):
    from .hooks import all_wires
    out = {}
    for w in all_wires(root):
        out[w.getFullPath()] = w.value
    return out


_BASE_ATTRS = {'name', 'propagate', 'clock', 'parent', 'inPorts', 'outPorts', 'inOutPorts', 'sources', 'sinks', 'children',
               'clockDriver', '_wires', 'parameters'}


def leaf_state(root):
    out = {}
    for l in my_leaves(root):
        st = {}
        for k, v in vars(l).items():
            if k in _BASE_ATTRS:
                continue
            if isinstance(v, (int, str, bool, float)) or v is None:
                st[k] = v
            elif isinstance(v, list) and all(isinstance(x, (int, float, str)) for x in v):
                st[k] = list(v)
        if st:
            out[l.getFullPath()] = st
    return out
