"""C18 workload: cases (library blocks and generated netlists) and how to build them.

A netlist plan is JSON: {'w': width, 'n_in': k, 'nodes': [{'cls', 'ins': [ref..], 'nout'}], 'outs': [ref..]} with
ref = ['i', k] (block input port k) or ['n', j, o] (output o of node j).  Only Reg/HReg nodes may read a node that is not
earlier in the list (register feedback, including q -> own d); every node input and every block output is driven.
"""

COMB = {'And2': 2, 'Or2': 2, 'Xor2': 2, 'Nand2': 2, 'Not': 1, 'Buf': 1, 'Add': 2, 'Sub': 2, 'Mul': 2, 'Mux2': 3, 'Equal': 2}

# Library blocks used as netlist nodes WITH their optional ports connected / with several outputs.  Widths: 'W' = the data width
# of the netlist, 1 = a one-bit control/flag.  spec(opts) -> (input widths, output widths); make(py4hw, parent, name, ins, outs, opts)
LIB = {
    'Add': dict(opts=['ci', 'co'], weight=4,
                spec=lambda o: (['W', 'W'] + ([1] if o.get('ci') else []), ['W'] + ([1] if o.get('co') else [])),
                make=lambda P, p, n, i, r, o: P.Add(p, n, i[0], i[1], r[0], ci=i[2] if o.get('ci') else None, co=r[1] if o.get('co') else None)),
    'Abs': dict(opts=['inverted'], weight=1,
                spec=lambda o: (['W'], ['W'] + ([1] if o.get('inverted') else [])),
                make=lambda P, p, n, i, r, o: P.Abs(p, n, i[0], r[0], inverted=r[1] if o.get('inverted') else None)),
    'Reg': dict(opts=['enable', 'reset'], weight=2,
                spec=lambda o: (['W'] + ([1] if o.get('enable') else []) + ([1] if o.get('reset') else []), ['W']),
                make=lambda P, p, n, i, r, o: P.Reg(p, n, i[0], r[0], enable=i[1] if o.get('enable') else None,
                                                    reset=i[-1] if o.get('reset') else None)),
    'ShiftRight': dict(opts=['arithmetic'], weight=1,
                       spec=lambda o: (['W', 'W'] + ([1] if o.get('arithmetic') else []), ['W']),
                       make=lambda P, p, n, i, r, o: P.ShiftRight(p, n, i[0], i[1], r[0], arithmetic=i[2] if o.get('arithmetic') else False)),
    'DelayLine': dict(opts=['en', 'reset'], weight=1,
                      spec=lambda o: (['W'] + ([1] if o.get('en') else []) + ([1] if o.get('reset') else []), ['W']),
                      make=lambda P, p, n, i, r, o: P.DelayLine(p, n, i[0], i[1] if o.get('en') else None, i[-1] if o.get('reset') else None, r[0], 2)),
    'Comparator': dict(opts=[], weight=2, spec=lambda o: (['W', 'W'], [1, 1, 1]),
                       make=lambda P, p, n, i, r, o: P.Comparator(p, n, i[0], i[1], r[0], r[1], r[2])),
    'Swap': dict(opts=[], weight=1, spec=lambda o: (['W', 'W', 1], ['W', 'W']),
                 make=lambda P, p, n, i, r, o: P.Swap(p, n, i[0], i[1], i[2], r[0], r[1])),
    'Counter': dict(opts=[], weight=1, spec=lambda o: ([1, 1], ['W']),
                    make=lambda P, p, n, i, r, o: P.Counter(p, n, i[0], i[1], r[0])),
    'ModuloCounter': dict(opts=[], weight=1, spec=lambda o: ([1, 1], ['W', 1]),
                          make=lambda P, p, n, i, r, o: P.ModuloCounter(p, n, 3, i[0], i[1], r[0], r[1])),
    'Bit': dict(opts=[], weight=2, spec=lambda o: (['W'], [1]),
                make=lambda P, p, n, i, r, o: P.Bit(p, n, i[0], 0, r[0])),
}
_K = {}


def out_width(nd, o, W):
    if 'ow' in nd:
        return W if nd['ow'][o] == 'W' else nd['ow'][o]
    return 1 if nd['cls'] == 'Equal' else W


# library blocks with a schematic symbol of their own (Schematic.mapping), fixed arity: how to wire one up
_B2 = dict(ins=[('a', 'w'), ('b', 'w')], out='w')
SUBCLASS_BASES = {
    'Not': dict(ins=[('a', 'w')], out='w'), 'Buf': dict(ins=[('a', 'w')], out='w'),
    'And2': _B2, 'Or2': _B2, 'Nor2': _B2, 'Xor2': _B2, 'Add': _B2, 'Sub': _B2, 'Mul': _B2,
    'Mux2': dict(ins=[('sel', '1'), ('sel0', 'w'), ('sel1', 'w')], out='w'),
    'Reg': dict(ins=[('d', 'w')], out='w'),
    'Bit': dict(ins=[('a', 'w')], out='1'), 'Range': dict(ins=[('a', 'w')], out='range'),
    'And': dict(ins=[('a', 'w'), ('b', 'w'), ('c', 'w')], out='w', list=True),
    'Or': dict(ins=[('a', 'w'), ('b', 'w'), ('c', 'w')], out='w', list=True),
}


def classes():
    if _K:
        return _K
    import py4hw

    class HLeaf(py4hw.Logic):
        def __init__(self, parent, name, ins, outs, clocked=False):
            super().__init__(parent, name)
            for i, w in enumerate(ins):
                self.addIn('i%d' % i, w)
            for i, w in enumerate(outs):
                self.addOut('o%d' % i, w)

        def propagate(self):
            pass

    class HReg(HLeaf):
        def clock(self):
            pass
    HReg.propagate = None

    class HNet(py4hw.Logic):
        """harness structural block built from a netlist plan"""
        def __init__(self, parent, name, plan, in_wires, out_wires):
            super().__init__(parent, name)
            W = plan['w']
            for k, w in enumerate(in_wires):
                self.addIn('in%d' % k, w)
            for k, w in enumerate(out_wires):
                self.addOut('out%d' % k, w)
            # a block output is the wire of the signal it exports (py4hw shares wire objects through the hierarchy)
            sig = {}
            for k, w in enumerate(in_wires):
                sig[('i', k)] = w
            exported = {}
            for k, r in enumerate(plan['outs']):
                exported.setdefault(tuple(r), []).append(k)
            extra_bufs = []
            clash_names = [w.name for w in list(in_wires) + list(out_wires)]
            for j, nd in enumerate(plan['nodes']):
                for o in range(nd.get('nout', 1)):
                    key = ('n', j, o)
                    ks = exported.get(key, [])
                    if ks:
                        sig[key] = out_wires[ks[0]]
                        extra_bufs += [(key, k) for k in ks[1:]]
                    else:
                        nm = 's%d_%d' % (j, o)
                        if plan.get('name_clash') and clash_names:
                            nm = clash_names.pop(0)
                        sig[key] = self.wire(nm, out_width(nd, o, W))
            for j in plan.get('order') or range(len(plan['nodes'])):
                nd = plan['nodes'][j]
                i = [sig[tuple(r)] for r in nd['ins']]
                o = [sig[('n', j, k)] for k in range(nd.get('nout', 1))]
                c, nm = nd['cls'], 'n%d' % j
                if c == 'HLeaf':
                    HLeaf(self, nm, i, o)
                elif c == 'HReg':
                    HReg(self, nm, i, o)
                elif c == 'Reg':
                    py4hw.Reg(self, nm, i[0], o[0], enable=i[1] if len(i) > 1 else None)
                elif c == 'Constant':
                    py4hw.Constant(self, nm, 1, o[0])
                elif c in ('Scope', 'Waveform'):
                    # observers: Scope takes wires; Waveform takes wires or PORTS (here ports of the drawn block)
                    items = list(i)
                    if nd.get('via') == 'ports':
                        items = []
                        for r in nd['ins']:
                            r = tuple(r)
                            items.append(self.inPorts[r[1]] if r[0] == 'i' else self.outPorts[exported[r][0]])
                    getattr(py4hw, c)(self, nm, items)
                elif c == 'Lib':
                    LIB[nd['lib']]['make'](py4hw, self, nm, i, o, nd.get('opts', {}))
                else:
                    getattr(py4hw, c)(self, nm, *(i + o))
            for k, r in enumerate(plan['outs']):
                if r[0] == 'i':
                    py4hw.Buf(self, 'ob%d' % k, sig[tuple(r)], out_wires[k])
            for key, k in extra_bufs:
                py4hw.Buf(self, 'ob%d' % k, sig[key], out_wires[k])

    class HChild(py4hw.Logic):
        """harness structural block whose only child is one library block with all the ports of that configuration connected"""
        def __init__(self, parent, name, rec, cfg):
            super().__init__(parent, name)
            ins, outs = rec.build(self, cfg, parent.wire)
            for k, w in enumerate(ins):
                self.addIn('in%d' % k, w)
            for k, w in enumerate(outs):
                self.addOut('out%d' % k, w)

    class HChain(py4hw.Logic):
        """size class: one long chain a -> x0 -> x1 ... -> r; children created output-first, input-first or in random order"""
        def __init__(self, parent, name, a, r, n, cls, order):
            super().__init__(parent, name)
            self.addIn('a', a)
            self.addOut('r', r)
            ws = [a] + [self.wire('w%d' % i, a.getWidth()) for i in range(n - 1)] + [r]
            for i in order:
                if cls == 'HLeaf':
                    HLeaf(self, 'x%d' % i, [ws[i]], [ws[i + 1]])
                else:
                    getattr(py4hw, cls)(self, 'x%d' % i, ws[i], ws[i + 1])

    class HGate(py4hw.Logic):
        """fan-in class: one n-input library block (its inputs are the n input ports of the harness) followed by a reader"""
        def __init__(self, parent, name, cls, n, w):
            super().__init__(parent, name)
            if cls.startswith('Concatenate'):
                w = 1
            ins = [self.addIn('a_%d' % i, parent.wire('a_%d' % i, w)) for i in range(n)]
            if cls in ('Scope', 'Waveform'):
                r = self.addOut('r', parent.wire('r', w))
                getattr(py4hw, cls)(self, 'g', ins)
                py4hw.Buf(self, 'b', ins[n // 2], r)
                return
            rw = n * w if cls.startswith('Concatenate') else w
            r = self.addOut('r', parent.wire('r', rw))
            t = self.wire('t', rw)
            if cls == 'Mux':
                sel = self.addIn('sel', parent.wire('sel', max(1, (n - 1).bit_length())))
                py4hw.Mux(self, 'g', sel, ins, t)
            else:
                getattr(py4hw, cls)(self, 'g', ins, t)
            py4hw.Buf(self, 'b', t, r)

    class HSub(py4hw.Logic):
        """subclass class: one child whose class is a USER SUBCLASS of a library block that has its own schematic symbol; the
        subclass declares extra input/output ports after super().__init__ (a gated / observed variant of the gate).  A plain
        instance of the base class sits next to it on the same inputs.  Every child output goes through a Buf to a block output."""
        def __init__(self, parent, name, base, xin, xout, w):
            super().__init__(parent, name)
            w = max(2, w) if base in ('Bit', 'Range') else w
            spec = SUBCLASS_BASES[base]
            iw = [self.addIn(n, parent.wire(n, w if k == 'w' else 1)) for n, k in spec['ins']]
            xi = [self.addIn('x%d' % i, parent.wire('x%d' % i, w if i % 2 else 1)) for i in range(xin)]
            rw = {'w': w, '1': 1, 'range': 2}[spec['out']]
            consts = {'Bit': [w - 1], 'Range': [w - 1, w - 2]}.get(base, [])
            bcls = getattr(py4hw, base)

            def init(me, parent_, name_, ins_, r_, xi_, xo_):
                if spec.get('list'):
                    bcls.__init__(me, parent_, name_, list(ins_), r_)
                else:
                    bcls.__init__(me, parent_, name_, *(list(ins_) + consts + [r_]))
                me.xi = [me.addIn('en%d' % i, x) for i, x in enumerate(xi_)]
                me.xo = [me.addOut('mon%d' % i, x) for i, x in enumerate(xo_)]
                if not me.isPrimitive():
                    for i, x in enumerate(xo_):
                        py4hw.Buf(me, 'xmon%d' % i, ins_[0], x)

            body = dict(__init__=init)
            if callable(getattr(bcls, 'propagate', None)):
                def propagate(me):
                    bcls.propagate(me)
                    for x in me.xo:
                        x.put(me.xi[0].get() if me.xi else 1)
                body['propagate'] = propagate
            elif callable(getattr(bcls, 'clock', None)):
                def clock(me):
                    bcls.clock(me)
                    for x in me.xo:
                        x.prepare(me.xi[0].get() if me.xi else 1)
                body['clock'] = clock
            ucls = type('User' + base, (bcls,), body)
            outs = []
            for tag, cls_, xi_, nxo in (('u', ucls, xi, xout), ('p', bcls, None, 0)):
                t = self.wire(tag + '_t', rw)
                xo = [self.wire('%s_m%d' % (tag, i), w if cls_ is not ucls or not callable(getattr(bcls, 'propagate', None)) and not callable(getattr(bcls, 'clock', None)) else 1)
                      for i in range(nxo)]
                if cls_ is ucls:
                    ucls(self, 'user', iw, t, xi_, xo)
                elif spec.get('list'):
                    bcls(self, 'plain', list(iw), t)
                else:
                    bcls(self, 'plain', *(list(iw) + consts + [t]))
                outs += [t] + xo
            for k, t in enumerate(outs):
                py4hw.Buf(self, 'ob%d' % k, t, self.addOut('r%d' % k, parent.wire('r%d' % k, t.getWidth())))

    _K.update(HSub=HSub)
    _K.update(HLeaf=HLeaf, HReg=HReg, HNet=HNet, HChild=HChild, HChain=HChain, HGate=HGate)
    return _K


def gen_netlist(rnd, big=False, observer=False):
    W = rnd.choice([1, 4, 8])
    # blocks without input ports exist too (free-running generators): their first node is a constant
    n_in = 0 if rnd.random() < 0.1 else rnd.randrange(1, 5)
    n_nodes = rnd.randrange(3, 30 if big else 15)
    chainy = rnd.random()
    nodes = []
    outs_of = []      # (j, o, narrow): narrow = a one-bit flag in a wider netlist, only usable on one-bit pins
    lib_names = sorted(LIB)
    lib_weights = [LIB[k]['weight'] for k in lib_names]
    for j in range(n_nodes):
        r = rnd.random()
        lib = None
        if r < 0.16 and (n_in or outs_of):
            cls = 'Lib'
            lib = rnd.choices(lib_names, lib_weights)[0]
        elif r < 0.30:
            cls = 'Reg'
        elif r < 0.35:
            cls = 'HReg'
        elif r < 0.44:
            cls = 'HLeaf'
        elif r < 0.47:
            cls = 'Constant'
        else:
            cls = rnd.choice(list(COMB))
        if n_in == 0 and not outs_of:
            cls = 'Constant'
        nout = 1
        iw = ow = opts = None
        if cls == 'Lib':
            opts = dict((k, 1) for k in LIB[lib]['opts'] if rnd.random() < 0.6)
            have_narrow = W == 1 or any(nr for _, _, nr in outs_of)
            if not have_narrow:
                # no one-bit signal to put on a control pin yet: optional control inputs stay open, blocks that need one become Bit
                for k in ('ci', 'enable', 'reset', 'en', 'arithmetic'):
                    opts.pop(k, None)
                if 1 in LIB[lib]['spec'](opts)[0]:
                    lib, opts = 'Bit', {}
            iw, ow = LIB[lib]['spec'](opts)
            nin, nout = len(iw), len(ow)
        elif cls in ('HLeaf', 'HReg'):
            nin = rnd.randrange(1, 4)
            nout = rnd.randrange(1, 3)
        elif cls == 'Reg':
            nin = rnd.choice([1, 1, 2])
        elif cls == 'Constant':
            nin = 0
        else:
            nin = COMB[cls]

        def pick(allow_later, narrow=False):
            if narrow and W != 1:
                return list(rnd.choice([('n', a, b) for a, b, eq in outs_of if eq]))
            cands = [('i', k) for k in range(n_in)] + [('n', a, b) for a, b, eq in outs_of if not eq]
            if allow_later and rnd.random() < 0.5:
                # register feedback: from this node itself or a later one (decided now, nodes exist later)
                tgt = j if (rnd.random() < 0.12 or j == n_nodes - 1) else rnd.randrange(j + 1, n_nodes)
                return ['fb', tgt]
            recent = [('n', a, b) for a, b, eq in outs_of[-2:] if not eq]
            if recent and rnd.random() < chainy:
                return list(rnd.choice(recent))
            return list(rnd.choice(cands))
        ins = []
        for pin in range(nin):
            nar = bool(iw) and iw[pin] == 1
            r_ = pick(cls in ('Reg', 'HReg'), nar)
            for _retry in range(4):         # distinct wires on the pins of one instance, unless there is no choice
                if r_ not in ins:
                    break
                r_ = pick(cls in ('Reg', 'HReg'), nar)
            ins.append(r_)
        if cls in ('And2', 'Xor2') and rnd.random() < 0.06:
            ins[1] = list(ins[0])       # the same wire on two pins of one instance
        nd = dict(cls=cls, ins=ins, nout=nout)
        if cls == 'Lib':
            nd.update(lib=lib, opts=opts, ow=ow)
        nodes.append(nd)
        for o in range(nout):
            outs_of.append((j, o, W != 1 and out_width(nd, o, W) == 1))
    # resolve feedback placeholders to a real full-width output of the target (or fall back to an input)
    for j, nd in enumerate(nodes):
        for k, r in enumerate(nd['ins']):
            if r[0] == 'fb':
                t = r[1]
                wide = lambda q: [o for o in range(nodes[q]['nout']) if out_width(nodes[q], o, W) == W]
                while t < n_nodes and not wide(t):
                    t += 1
                nd['ins'][k] = ['n', t, rnd.choice(wide(t))] if t < n_nodes else (['i', rnd.randrange(n_in)] if n_in else ['n', 0, 0])
    motif = None
    if rnd.random() < 0.35:
        # several outputs of one block converge on one multi-input sink that also waits for deeper logic (so it sits two or more
        # columns away), another reader of the first output is created after that sink, and a register loop follows
        motif = 'converge'
        src0 = ['i', rnd.randrange(n_in)] if n_in else ['n', 0, 0]
        b = len(nodes)
        k = rnd.randrange(2, 4)
        nodes.append(dict(cls=rnd.choice(['HLeaf', 'HLeaf', 'HReg']), ins=[src0], nout=k))                    # b   : S
        depth = rnd.randrange(1, 4)
        prev = ['n', b, k - 1]
        for q in range(depth):                                                                               # b+1.. : deeper logic
            nodes.append(dict(cls=rnd.choice(['Not', 'Buf']), ins=[prev], nout=1))
            prev = ['n', len(nodes) - 1, 0]
        x = len(nodes)
        xin = [['n', b, 0], ['n', b, 1], prev]
        rnd.shuffle(xin)
        nodes.append(dict(cls='HLeaf', ins=xin, nout=1))                                                     # X
        nodes.append(dict(cls=rnd.choice(['Not', 'Buf']), ins=[['n', b, 0]], nout=1))                        # Y, after X
        r_ = len(nodes)
        nodes.append(dict(cls='Reg', ins=[['n', r_ + 1, 0]], nout=1))                                        # R  <- Z (feedback)
        nodes.append(dict(cls='And2', ins=[['n', x, 0], ['n', r_, 0]], nout=1))                              # Z
        for j in range(b, len(nodes)):
            for o in range(nodes[j]['nout']):
                outs_of.append((j, o, False))
        n_nodes = len(nodes)
    used = set()
    for nd in nodes:
        for r in nd['ins']:
            used.add(tuple(r))
    loose = [('n', a, b) for a, b, eq in outs_of if ('n', a, b) not in used and not eq]
    rnd.shuffle(loose)
    # blocks without any output port are legal too (free-running accumulators, sinks): the last column is then an instance column
    n_out = 0 if rnd.random() < 0.15 else rnd.randrange(1, 4)
    outs = [list(x) for x in loose[:n_out]]
    while len(outs) < n_out:
        c = [('i', k) for k in range(n_in)] + [('n', a, b) for a, b, eq in outs_of if not eq]
        outs.append(list(rnd.choice(c)))
    # an internal wire may carry the same short name as a wire of the enclosing scope that sits on a port (different owners)
    plan = dict(w=W, n_in=n_in, nodes=nodes, outs=outs, name_clash=rnd.random() < 0.15)
    if motif:
        plan['motif'] = motif
    obs_at = None
    if observer or rnd.random() < 0.08:
        # an observer child (no outputs): py4hw.Scope / py4hw.Waveform on wires, or Waveform on ports of the drawn block,
        # created first, in the middle or last; ordinary readers exist before and after it
        exported = [tuple(r) for r in outs if r[0] == 'n']
        by_port = [('i', k) for k in range(n_in)] + exported
        anysig = [('i', k) for k in range(n_in)] + [('n', a, b) for a, b, nr in outs_of]
        cls = rnd.choice(['Scope', 'Waveform', 'Waveform'])
        via = 'ports' if (cls == 'Waveform' and by_port and rnd.random() < 0.6) else 'wires'
        cands = by_port if via == 'ports' else anysig
        if cands:
            picks = rnd.sample(cands, min(len(cands), rnd.randrange(1, 4)))
            nodes.append(dict(cls=cls, via=via, ins=[list(x) for x in picks], nout=0))
            obs_at = rnd.choice(['first', 'middle', 'last'])
            plan['observer'] = dict(cls=cls, via=via, at=obs_at)
    # the order in which the children are instantiated need not follow the data flow
    q = rnd.random()
    if q < 0.25:
        order = list(range(len(nodes)))
        rnd.shuffle(order)
        plan['order'] = order
    elif q < 0.35:
        plan['order'] = list(range(len(nodes) - 1, -1, -1))
    if obs_at:
        order = [j for j in (plan.get('order') or range(len(nodes))) if j != len(nodes) - 1]
        order.insert(dict(first=0, middle=len(order) // 2, last=len(order))[obs_at], len(nodes) - 1)
        plan['order'] = order
    return plan


def _converging(nodes):
    """sinks that read two different outputs of one multi-output node"""
    n = 0
    for nd in nodes:
        per = {}
        for r in nd['ins']:
            if r[0] == 'n':
                per.setdefault(r[1], set()).add(r[2])
        n += sum(1 for v in per.values() if len(v) > 1)
    return n


def features(plan):
    """what makes a netlist non-trivial for the router, computed from the plan"""
    nodes = plan['nodes']
    lvl = {}
    for j, nd in enumerate(nodes):
        l = 0
        for r in nd['ins']:
            if r[0] == 'n' and r[1] < j:
                l = max(l, lvl[r[1]])
        lvl[j] = l + 1
    fan = {}
    fb = 0
    selfloop = 0
    span = 0
    for j, nd in enumerate(nodes):
        for r in nd['ins']:
            fan[tuple(r)] = fan.get(tuple(r), 0) + 1
            if r[0] == 'n' and r[1] >= j:
                fb += 1
                selfloop += int(r[1] == j)
            elif r[0] == 'n':
                span = max(span, lvl[j] - lvl[r[1]])
            else:
                span = max(span, lvl[j])
    top = max(lvl.values()) + 1
    for r in plan['outs']:
        fan[tuple(r)] = fan.get(tuple(r), 0) + 1
        span = max(span, top - (lvl[r[1]] if r[0] == 'n' else 0))
    lib = [nd for nd in nodes if nd['cls'] == 'Lib']
    return dict(max_fanout=max(fan.values()), feedback_edges=fb, self_loops=selfloop, max_span=span, nodes=len(nodes),
                lib_nodes=len(lib), lib_optional_ports=sum(len(nd.get('opts') or {}) for nd in lib),
                multi_output_nodes=sum(1 for nd in nodes if nd.get('nout', 1) > 1),
                converging_outputs=_converging(nodes), creation_order_permuted=bool(plan.get('order')),
                observer=('%s_%s_%s' % (plan['observer']['cls'], plan['observer']['via'], plan['observer']['at'])) if plan.get('observer') else None)


def build(case):
    """-> the structural block to draw (built under a fresh HWSystem)"""
    import py4hw
    from .c11seq import recipe, tup
    hw = py4hw.HWSystem()
    if case['type'] == 'block':
        recipe(case['src'], case['block']).build(hw, tup(case['cfg']), hw.wire)
        return hw.children['d']
    if case['type'] == 'child':
        return classes()['HChild'](hw, 'wrap', recipe(case['src'], case['block']), tup(case['cfg']))
    if case['type'] == 'gate':
        return classes()['HGate'](hw, 'wide', case['cls'], case['n'], case['w'])
    if case['type'] == 'subclass':
        return classes()['HSub'](hw, 'sub', case['base'], case['xin'], case['xout'], case['w'])
    if case['type'] == 'chain':
        n = case['n']
        if case['order'] == 'output_first':
            order = list(range(n - 1, -1, -1))
        elif case['order'] == 'input_first':
            order = list(range(n))
        else:
            import random
            order = list(range(n))
            random.Random(case['order_seed']).shuffle(order)
        return classes()['HChain'](hw, 'chain', hw.wire('a', case['w']), hw.wire('r', case['w']), n, case['cls'], order)
    plan = case['plan']
    iw = [hw.wire('in%d' % k, plan['w']) for k in range(plan['n_in'])]
    ow = [hw.wire('out%d' % k, plan['w']) for k in range(len(plan['outs']))]
    return classes()['HNet'](hw, 'net', plan, iw, ow)
