"""C18 workload: cases (library blocks and generated netlists) and how to build them.

A netlist plan is JSON: {'w': width, 'n_in': k, 'nodes': [{'cls', 'ins': [ref..], 'nout'}], 'outs': [ref..]} with
ref = ['i', k] (block input port k) or ['n', j, o] (output o of node j).  Only Reg/HReg nodes may read a node that is not
earlier in the list (register feedback, including q -> own d); every node input and every block output is driven.
"""

COMB = {'And2': 2, 'Or2': 2, 'Xor2': 2, 'Nand2': 2, 'Not': 1, 'Buf': 1, 'Add': 2, 'Sub': 2, 'Mul': 2, 'Mux2': 3, 'Equal': 2}
_K = {}


def classes():
    if _K:
        return _K
    import py4hw

    class HLeaf(py4hw.Logic):
        def __init__(self, parent, name, ins, outs, clocked=False):
            super().__init__(parent, name)
            for i, w in enumerate(ins):
                self.addIn('i%d' % i, w)
            for i, w in enumerate(outs):
                self.addOut('o%d' % i, w)

        def propagate(self):
            pass

    class HReg(HLeaf):
        def clock(self):
            pass
    HReg.propagate = None

    class HNet(py4hw.Logic):
        """harness structural block built from a netlist plan"""
        def __init__(self, parent, name, plan, in_wires, out_wires):
            super().__init__(parent, name)
            W = plan['w']
            for k, w in enumerate(in_wires):
                self.addIn('in%d' % k, w)
            for k, w in enumerate(out_wires):
                self.addOut('out%d' % k, w)
            # a block output is the wire of the signal it exports (py4hw shares wire objects through the hierarchy)
            sig = {}
            for k, w in enumerate(in_wires):
                sig[('i', k)] = w
            exported = {}
            for k, r in enumerate(plan['outs']):
                exported.setdefault(tuple(r), []).append(k)
            extra_bufs = []
            clash_names = [w.name for w in list(in_wires) + list(out_wires)]
            for j, nd in enumerate(plan['nodes']):
                for o in range(nd.get('nout', 1)):
                    key = ('n', j, o)
                    ks = exported.get(key, [])
                    if ks:
                        sig[key] = out_wires[ks[0]]
                        extra_bufs += [(key, k) for k in ks[1:]]
                    else:
                        nm = 's%d_%d' % (j, o)
                        if plan.get('name_clash') and clash_names:
                            nm = clash_names.pop(0)
                        sig[key] = self.wire(nm, 1 if nd['cls'] == 'Equal' else W)
            for j, nd in enumerate(plan['nodes']):
                i = [sig[tuple(r)] for r in nd['ins']]
                o = [sig[('n', j, k)] for k in range(nd.get('nout', 1))]
                c, nm = nd['cls'], 'n%d' % j
                if c == 'HLeaf':
                    HLeaf(self, nm, i, o)
                elif c == 'HReg':
                    HReg(self, nm, i, o)
                elif c == 'Reg':
                    py4hw.Reg(self, nm, i[0], o[0], enable=i[1] if len(i) > 1 else None)
                elif c == 'Constant':
                    py4hw.Constant(self, nm, 1, o[0])
                else:
                    getattr(py4hw, c)(self, nm, *(i + o))
            for k, r in enumerate(plan['outs']):
                if r[0] == 'i':
                    py4hw.Buf(self, 'ob%d' % k, sig[tuple(r)], out_wires[k])
            for key, k in extra_bufs:
                py4hw.Buf(self, 'ob%d' % k, sig[key], out_wires[k])

    _K.update(HLeaf=HLeaf, HReg=HReg, HNet=HNet)
    return _K


def gen_netlist(rnd, big=False):
    W = rnd.choice([1, 4, 8])
    # blocks without input ports exist too (free-running generators): their first node is a constant
    n_in = 0 if rnd.random() < 0.1 else rnd.randrange(1, 5)
    n_nodes = rnd.randrange(3, 30 if big else 15)
    chainy = rnd.random()
    nodes = []
    outs_of = []      # (j, o, is_equal)
    for j in range(n_nodes):
        r = rnd.random()
        if r < 0.18:
            cls = 'Reg'
        elif r < 0.24:
            cls = 'HReg'
        elif r < 0.34:
            cls = 'HLeaf'
        elif r < 0.37:
            cls = 'Constant'
        else:
            cls = rnd.choice(list(COMB))
        if n_in == 0 and not outs_of:
            cls = 'Constant'
        nout = 1
        if cls in ('HLeaf', 'HReg'):
            nin = rnd.randrange(1, 4)
            nout = rnd.randrange(1, 3)
        elif cls == 'Reg':
            nin = rnd.choice([1, 1, 2])
        elif cls == 'Constant':
            nin = 0
        else:
            nin = COMB[cls]

        def pick(allow_later):
            cands = [('i', k) for k in range(n_in)] + [('n', a, b) for a, b, eq in outs_of if not eq]
            if allow_later and rnd.random() < 0.5:
                # register feedback: from this node itself or a later one (decided now, nodes exist later)
                tgt = j if (rnd.random() < 0.12 or j == n_nodes - 1) else rnd.randrange(j + 1, n_nodes)
                return ['fb', tgt]
            recent = [('n', a, b) for a, b, eq in outs_of[-2:] if not eq]
            if recent and rnd.random() < chainy:
                return list(rnd.choice(recent))
            return list(rnd.choice(cands))
        ins = []
        for _ in range(nin):
            r_ = pick(cls in ('Reg', 'HReg'))
            for _retry in range(4):         # distinct wires on the pins of one instance, unless there is no choice
                if r_ not in ins:
                    break
                r_ = pick(cls in ('Reg', 'HReg'))
            ins.append(r_)
        if cls in ('And2', 'Xor2') and rnd.random() < 0.06:
            ins[1] = list(ins[0])       # the same wire on two pins of one instance
        nodes.append(dict(cls=cls, ins=ins, nout=nout))
        for o in range(nout):
            outs_of.append((j, o, cls == 'Equal'))
    # resolve feedback placeholders to a real full-width output of the target (or fall back to an input)
    for j, nd in enumerate(nodes):
        for k, r in enumerate(nd['ins']):
            if r[0] == 'fb':
                t = r[1]
                while t < n_nodes and nodes[t]['cls'] == 'Equal':
                    t += 1
                nd['ins'][k] = ['n', t, rnd.randrange(nodes[t]['nout'])] if t < n_nodes else (['i', rnd.randrange(n_in)] if n_in else ['n', 0, 0])
    used = set()
    for nd in nodes:
        for r in nd['ins']:
            used.add(tuple(r))
    loose = [('n', a, b) for a, b, eq in outs_of if ('n', a, b) not in used and not eq]
    rnd.shuffle(loose)
    # blocks without any output port are legal too (free-running accumulators, sinks): the last column is then an instance column
    n_out = 0 if rnd.random() < 0.15 else rnd.randrange(1, 4)
    outs = [list(x) for x in loose[:n_out]]
    while len(outs) < n_out:
        c = [('i', k) for k in range(n_in)] + [('n', a, b) for a, b, eq in outs_of if not eq]
        outs.append(list(rnd.choice(c)))
    # an internal wire may carry the same short name as a wire of the enclosing scope that sits on a port (different owners)
    return dict(w=W, n_in=n_in, nodes=nodes, outs=outs, name_clash=rnd.random() < 0.15)


def features(plan):
    """what makes a netlist non-trivial for the router, computed from the plan"""
    nodes = plan['nodes']
    lvl = {}
    for j, nd in enumerate(nodes):
        l = 0
        for r in nd['ins']:
            if r[0] == 'n' and r[1] < j:
                l = max(l, lvl[r[1]])
        lvl[j] = l + 1
    fan = {}
    fb = 0
    selfloop = 0
    span = 0
    for j, nd in enumerate(nodes):
        for r in nd['ins']:
            fan[tuple(r)] = fan.get(tuple(r), 0) + 1
            if r[0] == 'n' and r[1] >= j:
                fb += 1
                selfloop += int(r[1] == j)
            elif r[0] == 'n':
                span = max(span, lvl[j] - lvl[r[1]])
            else:
                span = max(span, lvl[j])
    top = max(lvl.values()) + 1
    for r in plan['outs']:
        fan[tuple(r)] = fan.get(tuple(r), 0) + 1
        span = max(span, top - (lvl[r[1]] if r[0] == 'n' else 0))
    return dict(max_fanout=max(fan.values()), feedback_edges=fb, self_loops=selfloop, max_span=span, nodes=len(nodes))


def build(case):
    """-> the structural block to draw (built under a fresh HWSystem)"""
    import py4hw
    from .c11seq import recipe, tup
    hw = py4hw.HWSystem()
    if case['type'] == 'block':
        recipe(case['src'], case['block']).build(hw, tup(case['cfg']), hw.wire)
        return hw.children['d']
    plan = case['plan']
    iw = [hw.wire('in%d' % k, plan['w']) for k in range(plan['n_in'])]
    ow = [hw.wire('out%d' % k, plan['w']) for k in range(len(plan['outs']))]
    return classes()['HNet'](hw, 'net', plan, iw, ow)
