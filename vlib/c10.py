"""C10 -- a clock domain advances exactly when its enable is active (DESIGN.md section C10).

Generated designs (plans, JSON): 1-3 gated sub-hierarchies, each with its own
`ClockDriver(name, base=sys.clockDriver, enable=en, wire=...)` placed at depth 1-3 (on a structural wrapper, on the
catalogue block itself or on a primitive leaf; optionally nested inside another gated sub-hierarchy), containing
sequential catalogue blocks (vlib/seqcat.py), some of them below further wrappers that must inherit the nearest
ancestor's driver.  Every gated block has an ungated twin fed by the same input nets.  The enable is
  poked       a poked input net (1-3 bits)
  reg_out     the output of a register outside the domain
  self_not    NOT of a register that lives INSIDE the gated domain (the domain switches itself off for ever)
  self_or     (register inside the gated domain) OR (poked kick input): self-gating with an external wake-up
  gatedclock  the output of a GatedClock block
Oracle, per edge and per block: with `en` = value of the domain's enable net read before the edge
  en == 0 : every net driven by a clockable leaf of the block and every integer/list attribute of those leaves is
            unchanged across the edge;
  en != 0 (or ungated): reference state := nxt(reference state, inputs read before the edge);
  always  : outputs == out(reference state, inputs read after the edge)   (once the block was clocked at least once)
and, per elaboration, sim.clockDrivers[drv].clockables is compared (by driver identity) with "nearest ancestor carrying
a driver" computed on the plan tree.

Construction histories (plan fields form / attach / early / rephase): the gated driver is built with or without base=
and wire=, keyword or positional; it is attached when its node is created, or only after something already resolved
clock drivers on the half-built design (an early hw.getSimulator(), a Scope or OldWaveform probe, an RTL generation,
direct getObjectClockDriver queries), or in the middle of the run; in the middle of the run drivers may also be detached
or replaced by a fresh driver on another domain's enable, followed by hw.getSimulator() and a new assignment check.  A driver may also start without an enable (a separate,
always running domain) and get one later; the enable attribute of a live driver may be replaced or removed, with the
bench going on with the simulator it already holds (no getSimulator() in between).

Time (plan fields schedule / sources): the edges are requested by clk(1) stepping, by clk(n) calls with n = 2..50 mixed
with single steps, or by one long call; inputs and enable sources are poked between calls (held inside a call) or are
driven by Sequence blocks of the design (changing at every edge inside a call).  A Simulator listener judges every
edge of a call separately, with the enable value captured right before that edge.
"""
import sys
import time
import traceback

from . import seqcat
from . import c09
from .common import muted, rng, shard_slice, stable_hash

LEVEL = 'exploration'
RULE = ('one case = one generated design (1-3 gated domains of kinds poked/reg_out/self_not/self_or/gatedclock, driver at depth '
        '1-3 built in one of 5 constructor forms and attached at creation / after an early driver-resolving step (simulator, Scope, '
        'OldWaveform, RTL generation, direct query) / in the middle of the run, optional mid-run detach/attach/replace + '
        're-elaboration, 1-3 catalogue blocks per domain with ungated twins, optional nesting and cross-domain connections) simulated for '
        'N edges under random duty-cycle stimulus; one evaluation = one block judged at one edge; a design is non-trivial when '
        'some domain saw both enable==0 and enable!=0 edges and some gated block diverged from its ungated twin; distinct by '
        'plan+stimulus content')
SHARDS = {'quick': 1, 'thorough': 16}
TIMEOUT = {'quick': 600, 'thorough': 3000}
MIN_NONTRIVIAL = {'quick': 300, 'thorough': 5000}
PARAMS = {'quick': dict(designs=1500, cycles=64, seconds=420), 'thorough': dict(designs=24000, cycles=256, seconds=2400)}

KINDS = ('poked', 'reg_out', 'self_not', 'self_or', 'gatedclock')
SELF_KINDS = ('self_not', 'self_or')


# --------------------------------------------------------------------------- block pool

def block_pool(skip=()):
    pool = []      # [(block name, [configs])]: a block is drawn first, then one of its configurations
    for e in seqcat.ENTRIES:
        if e.name in skip:
            continue
        cfgs = list(e.bfs_configs('quick'))
        for c in e.configs('quick'):
            pi, po = e.ports(c)
            if c not in cfgs and sum(pi.values()) <= 20 and max(list(pi.values()) + [1]) <= 8:
                cfgs.append(c)
        pool.append((e.name, cfgs))
    return pool


def dualport_simulates():
    """the dual-port memory cannot be clocked on a tree with the C09 dualport_clock_attrs defect; C10 then leaves it out"""
    e = seqcat.by_name('DualPortSynchronousMemory')
    try:
        with muted():
            d = c09.Dut(e, (1, 1))
            d.sim.clk(1)
        return True
    except Exception:
        import py4hw
        py4hw.Wire.prepared = []
        return False


# --------------------------------------------------------------------------- plan generation (pure python, JSON-able)

def gen_plan(rnd, idx, pool, cycles):
    ndom = rnd.choice((1, 1, 2, 2, 3))
    doms = []
    avail = []      # (net name, width) of block outputs created so far: later blocks may take them as inputs
    nb = [0]

    def new_block(role, name=None, cfg=None, twin=True, chain=True):
        if name is None:
            name, cfgs = rnd.choice(pool)
            cfg = rnd.choice(cfgs)
        e = seqcat.by_name(name)
        bid = 'b%d' % nb[0]
        nb[0] += 1
        pi, po = e.ports(cfg)
        conn = {}
        if chain and e.domain is None:
            for port, w in pi.items():
                c = [n for n, ww in avail if ww == w]
                if c and rnd.random() < 0.25:
                    conn[port] = rnd.choice(c)
        for o, w in po.items():
            avail.append(('o_%s_%s' % (bid, o), w))
            if twin:
                avail.append(('t_%s_%s' % (bid, o), w))
        return dict(id=bid, entry=name, cfg=cfg, role=role, twin=twin, conn=conn, nest=0)

    for k in range(ndom):
        kind = KINDS[(idx + k) % len(KINDS)] if k == 0 else rnd.choice(KINDS)
        enw = 1 if kind == 'self_not' else rnd.choice((1, 1, 2, 3))
        d = dict(kind=kind, enw=enw, depth=rnd.randint(1, 3), inside=None, on_block=rnd.random() < 0.2, blocks=[], outside=[])
        if k > 0 and rnd.random() < 0.3:
            d['inside'] = rnd.randrange(k)
        if kind == 'reg_out':
            d['outside'].append(new_block('en_src', 'Reg', (enw, 0, 0, None), twin=False, chain=False))
        if kind in SELF_KINDS:
            d['blocks'].append(new_block('self_src', 'Reg', (enw, 0, 0, None), chain=False))
        if not (d['on_block'] and d['blocks']):
            for _ in range(1 if d['on_block'] else rnd.randint(1, 3)):
                b = new_block('dut')
                b['nest'] = 0 if d['on_block'] else rnd.choice((0, 0, 1, 2))
                d['blocks'].append(b)
        doms.append(d)
    order = list(range(3 * ndom))
    rnd.shuffle(order)
    # construction history: how each gated driver is built, when it is attached, what resolves drivers in between, and
    # whether the clock tree is changed (detach / attach / replace + re-elaboration) in the middle of the run
    for d in doms:
        d['form'] = rnd.choice(('base_wire', 'base_wire') + FORMS[1:])
        d['attach'] = rnd.choice(('at_creation', 'at_creation', 'after_build', 'after_build', 'late'))
        d['en_start'] = rnd.random() < 0.8
    early = rnd.choice(('none', 'none') + EARLY[1:])
    rephase = None
    if any(d['attach'] == 'late' for d in doms) or rnd.random() < 0.3:
        changes = {}
        for k, d in enumerate(doms):
            repl = 'replace:%d:%s' % (rnd.randrange(ndom), rnd.choice(FORMS))
            ch = rnd.choice(('attach', 'attach', repl)) if d['attach'] == 'late' else rnd.choice(('keep', 'detach', 'detach', repl))
            if ch != 'keep':
                changes[str(k)] = ch
        rephase = dict(at=rnd.randint(cycles // 4, (3 * cycles) // 4), probe=rnd.choice(('none', 'none', 'scope', 'sim', 'query')), changes=changes,
                       resim=True)
    live = [k for k, d in enumerate(doms) if d['attach'] != 'late']
    if live and (rephase is None or not rephase['changes']) and (rnd.random() < 0.45 or any(not doms[k]['en_start'] for k in live)):
        # the clock tree stays; only the enable attribute of live driver objects is reassigned, and (2 times out of 3) the
        # bench goes on with the simulator it already holds
        changes = {}
        for k in live:
            d = doms[k]
            ch = 'enable_set:%d' % rnd.randrange(ndom) if not d['en_start'] else \
                rnd.choice(('keep', 'enable_remove', 'enable_set:%d' % rnd.randrange(ndom), 'enable_set:%d' % rnd.randrange(ndom)))
            if ch != 'keep':
                changes[str(k)] = ch
        resim = rnd.random() < 0.33
        rephase = dict(at=rnd.randint(cycles // 4, (3 * cycles) // 4), changes=changes, resim=resim,
                       probe=rnd.choice(('none', 'query')) if not resim else rnd.choice(('none', 'scope', 'sim', 'query')))
    # driver names need not be unique (a reusable block may build ClockDriver('gclk', ...) in its constructor): identity must count
    # time: how the edges are requested (clk(1) stepping, clk(n) calls with n = 2..50, one long call) and who drives the inputs
    # (poked between calls and held inside a call, or Sequence sources of the design that change at every edge)
    mode = rnd.choice(('step', 'step', 'mixed', 'mixed', 'bursts', 'single'))
    schedule = []
    tot = 0
    while tot < cycles and mode != 'step':
        n = cycles if mode == 'single' else rnd.randint(2, 50) if (mode == 'bursts' or rnd.random() < 0.5) else 1
        n = min(n, cycles - tot)
        schedule.append(n)
        tot += n
    sources = rnd.choice(('poke', 'sequence', 'sequence')) if mode != 'step' else rnd.choice(('poke', 'poke', 'sequence'))
    return dict(domains=doms, order=order, cycles=cycles, same_names=(ndom >= 2 and rnd.random() < 0.4), early=early, rephase=rephase,
                schedule_mode=mode, schedule=schedule, sources=sources)


def add_chains(rnd, plan):
    """chains of derived drivers: the driver of domain k is built with base= the driver of an earlier domain j < k (which has its
    own, independent enable) instead of the system driver, giving chains  own -> base -> base.base -> system driver  of 1-3 derived
    drivers.  Drawn from a stream of its own so that the rest of the plan is what it was.  Forms without base= get one."""
    doms = plan['domains']
    for k, d in enumerate(doms):
        d['base'] = None
        if k > 0 and rnd.random() < 0.55:
            d['base'] = k - 1 if rnd.random() < 0.7 else rnd.randrange(k)
            d['form'] = {'nobase_wire': 'base_wire', 'nobase_nowire': 'base_nowire', 'positional_nobase': 'base_wire'}.get(d['form'], d['form'])
    if rnd.random() < (0.5 if plan.get('same_names') else 0.15):
        plan['same_names'] = 'system'       # every derived driver is called like the system default driver
    return plan


def gen_stimulus(rnd, plan, cycles):
    """per cycle: {poked net name: value}.  Block inputs come from the C09 history generator (duty cycles, holds,
    documented domain); enable-type pokes are 0 / non-zero with a per-segment duty, multi-bit values biased to even ones."""
    cols = {}
    for d in plan['domains']:
        for b in d['blocks'] + d['outside']:
            e = seqcat.by_name(b['entry'])
            cfg = b['cfg']
            en_like = b['role'] in ('en_src', 'self_src')
            hist = c09.gen_history(e, cfg, rnd, cycles)
            for port, w in e.ports(cfg)[0].items():
                if port in b['conn']:
                    continue
                name = 'i_%s_%s' % (b['id'], port)
                cols[name] = enable_column(rnd, w, cycles, low=(d['kind'] == 'self_not')) if en_like else [h[port] for h in hist]
    for k, d in enumerate(plan['domains']):
        if d['kind'] in ('poked', 'gatedclock', 'self_or'):
            cols['p_en%d' % k] = enable_column(rnd, d['enw'], cycles, low=(d['kind'] == 'self_or'))
    return [{n: c[t] for n, c in cols.items()} for t in range(cycles)]


def enable_column(rnd, w, cycles, low=False):
    col = []
    seg_end = 0
    duty = 0.5
    for t in range(cycles):
        if t >= seg_end:
            seg_end = t + rnd.randint(4, 40)
            duty = rnd.choice((0.05, 0.2, 0.5) if low else c09.DUTIES)
        if rnd.random() < duty:
            if w == 1:
                col.append(1)
            else:
                v = rnd.randrange(1, 1 << w)
                if rnd.random() < 0.5:
                    v = (v & ~1) or 2       # non-zero with LSB 0: "non-zero" is active, not "== 1" / "bit 0"
                col.append(v)
        else:
            col.append(0)
    return col


# --------------------------------------------------------------------------- building a plan in the real library

FORMS = ('base_wire', 'base_nowire', 'nobase_wire', 'nobase_nowire', 'positional_nobase',
         'wire_is_enable', 'wire_buf_of_enable', 'wire_reg_of_enable')
EARLY = ('none', 'sim', 'scope', 'oldwaveform', 'query', 'rtl')


def make_driver(py4hw, hw, name, form, en, clkwire, base=None):
    """every legal way of building a gated ClockDriver: base= is optional (only RTL generation reads it), so is wire="""
    # base: the driver this one is derived from -- the system driver, or (chains) another derived, possibly gated, driver
    base = hw.clockDriver if base is None else base
    if form == 'base_wire':
        return py4hw.ClockDriver(name, base=base, enable=en, wire=clkwire())
    if form == 'base_nowire':
        return py4hw.ClockDriver(name, base=base, enable=en)
    if form == 'nobase_wire':
        return py4hw.ClockDriver(name, enable=en, wire=clkwire())
    if form == 'nobase_nowire':
        return py4hw.ClockDriver(name, enable=en)
    if form == 'positional_nobase':
        return py4hw.ClockDriver(name, 25E6, 0, None, en, clkwire())
    # wire= is a net DRIVEN by the design, the way RTL generation wants a gated clock described (tb_VitisKernelPlatform:
    # ClockDriver('clk_dut', base=hw.clockDriver, wire=clk_out, enable=clk_out)).  The value of that net is a level, not a
    # clock: the domain advances whenever the enable reads non-zero
    if en is None:
        return py4hw.ClockDriver(name, base=base, enable=None, wire=clkwire())
    if form == 'wire_is_enable':
        # the enable net itself (GatedClock output, register output, gate output, Sequence source, or a poked net)
        return py4hw.ClockDriver(name, base=base, wire=en, enable=en)
    w = clkwire(en.getWidth())
    tag = '%s_%d' % (w.name, len(hw.children))
    if form == 'wire_buf_of_enable':
        py4hw.Buf(hw, 'clkbuf_' + tag, en, w)
        return py4hw.ClockDriver(name, base=base, wire=w, enable=en)
    if form == 'wire_reg_of_enable':
        py4hw.Reg(hw, 'clkreg_' + tag, en, w)       # a register output as clock wire, another net as enable
        return py4hw.ClockDriver(name, base=base, wire=w, enable=en)
    raise ValueError(form)


def driver_name(plan, hw, default):
    """names are free labels: distinct per driver, one label shared by all derived drivers, or the system default driver's own name"""
    sn = plan.get('same_names')
    return hw.clockDriver.name if sn == 'system' else 'gclk' if sn else default


class Node:
    """plan-side hierarchy node: what the oracle knows about the placement of drivers (driver = driver record or None)"""

    def __init__(self, parent, name, driver=None):
        self.parent, self.name, self.driver = parent, name, driver

    def nearest_driver(self):
        n = self
        while n is not None:
            if n.driver is not None:
                return n.driver
            n = n.parent
        raise AssertionError('no driver on the path to the root')


class Built:
    pass


def build(plan, stim=None):
    """instantiate the blocks, run the plan's early resolution step, attach the drivers, elaborate"""
    import py4hw
    py4hw.Wire.prepared = []
    B = Built()
    hw = py4hw.HWSystem()
    B.hw = hw
    B.rootdrv = dict(key='root', name=hw.clockDriver.name, obj=hw.clockDriver, en=None, kind='ungated', enw=0, form='root')
    root = Node(None, 'HWSystem', B.rootdrv)
    wires = {}
    B.pokes = []
    B.nprobes = 0

    def W(name, w):
        if name not in wires:
            wires[name] = hw.wire(name, w)
        return wires[name]

    B.W = W
    doms = plan['domains']
    # nets first, so that instantiation order is free
    for k, d in enumerate(doms):
        if d['kind'] in ('poked', 'gatedclock', 'self_or'):
            W('p_en%d' % k, d['enw'])
        for b in d['blocks'] + d['outside']:
            e = seqcat.by_name(b['entry'])
            pi, po = e.ports(b['cfg'])
            for o, w in po.items():
                W('o_%s_%s' % (b['id'], o), w)
                if b['twin']:
                    W('t_%s_%s' % (b['id'], o), w)
        # the enable net: an existing net for the kinds where a poked net / a register output IS the enable
        if d['kind'] == 'poked':
            wires['en%d' % k] = wires['p_en%d' % k]
        elif d['kind'] == 'reg_out':
            wires['en%d' % k] = wires['o_%s_q' % d['outside'][0]['id']]
        else:
            W('en%d' % k, d['enw'])
    B.blocks = []
    B.drvrec = {}        # domain index -> driver record currently planned for that domain
    B.site = {}          # domain index -> (py4hw object that carries the driver, plan node)
    B.attached = {}      # domain index -> bool
    dom_nodes = {}

    def inst_block(b, parent_logic, parent_node, out_prefix, inst, dom):
        e = seqcat.by_name(b['entry'])
        cfg = b['cfg']
        pi, po = e.ports(cfg)
        ins = {}
        for port, w in pi.items():
            if port in b['conn']:
                ins[port] = wires[b['conn'][port]]
            else:
                n = 'i_%s_%s' % (b['id'], port)
                if n not in wires:
                    B.pokes.append(n)
                ins[port] = W(n, w)
        outs = {o: wires['%s_%s_%s' % (out_prefix, b['id'], o)] for o in po}
        e.make(parent_logic, inst, cfg, ins, outs)
        obj = parent_logic.children[inst]
        node = Node(parent_node, inst)
        rec = dict(id=b['id'] + ('' if out_prefix == 'o' else '_twin'), spec=b, entry=e, cfg=cfg, ins=ins, outs=outs, obj=obj,
                   node=node, dom=dom, state=e.init(cfg), clocked=0, ow={o: w for o, w in po.items()})
        B.blocks.append(rec)
        return rec

    def make_domain(k, parent_logic, parent_node):
        d = doms[k]
        pl, pn = parent_logic, parent_node
        for j in range(d['depth'] - 1):      # depth = level of the object that carries the driver (HWSystem = 0)
            pl = py4hw.Logic(pl, 'w%d_%d' % (k, j))
            pn = Node(pn, pl.name)
        if d['on_block']:
            # the driver sits on the catalogue block itself (for Reg / memories / Sequence / AutoReset: on a primitive leaf)
            rec = inst_block(d['blocks'][0], pl, pn, 'o', d['blocks'][0]['id'], k)
            B.site[k] = (rec['obj'], rec['node'])
            if d.get('attach', 'at_creation') == 'at_creation':
                attach(B, k)
            dom_nodes[k] = (pl, pn)      # a nested domain cannot live inside a block: it becomes a sibling
        else:
            dl = py4hw.Logic(pl, 'd%d' % k)
            dn = Node(pn, dl.name)
            B.site[k] = (dl, dn)
            if d.get('attach', 'at_creation') == 'at_creation':
                attach(B, k)             # before the children exist
            dom_nodes[k] = (dl, dn)
            for b in d['blocks']:
                bl, bn = dl, dn
                for j in range(b['nest']):
                    bl = py4hw.Logic(bl, 'n_%s_%d' % (b['id'], j))
                    bn = Node(bn, bl.name)
                inst_block(b, bl, bn, 'o', b['id'], k)
        for k2, d2 in enumerate(doms):
            if d2['inside'] == k:
                make_domain(k2, *dom_nodes[k])

    def make_twins(k):
        for b in doms[k]['blocks']:
            if b['twin']:
                inst_block(b, hw, root, 't', b['id'] + '_t', None)

    def make_ensrc(k):
        d = doms[k]
        en = wires['en%d' % k]
        if d['kind'] == 'gatedclock':
            py4hw.GatedClock(hw, 'gc%d' % k, wires['p_en%d' % k], en, B.drvrec[k]['obj'])
        elif d['kind'] == 'self_not':
            py4hw.Not(hw, 'ennot%d' % k, wires['o_%s_q' % d['blocks'][0]['id']], en)
        elif d['kind'] == 'self_or':
            py4hw.Or2(hw, 'enor%d' % k, wires['o_%s_q' % d['blocks'][0]['id']], wires['p_en%d' % k], en)
        for b in d['outside']:
            inst_block(b, hw, root, 'o', b['id'], None)

    B.wires = wires
    for k, d in enumerate(doms):
        name = driver_name(plan, hw, 'clk_d%d' % k)
        form = d.get('form', 'base_wire')
        # derived from the system driver, or from the driver of an earlier domain (a chain of derived drivers)
        brec = B.drvrec[d['base']] if d.get('base') is not None else None
        bobj = brec['obj'] if brec is not None else None
        if d.get('en_start', True):
            obj = make_driver(py4hw, hw, name, form, wires['en%d' % k], lambda w=1, k=k: W('clkw_d%d' % k, w), base=bobj)
            B.drvrec[k] = dict(key='d%d' % k, name=name, obj=obj, en=wires['en%d' % k], kind=d['kind'], enw=d['enw'], form=form, base_rec=brec)
        else:
            # a separate clock domain without gating (yet): its enable net may be attached to the live driver later
            obj = make_driver(py4hw, hw, name, form, None, lambda w=1, k=k: W('clkw_d%d' % k, w), base=bobj)
            B.drvrec[k] = dict(key='d%d' % k, name=name, obj=obj, en=None, kind='always_on', enw=0, form=form, base_rec=brec)
        B.attached[k] = False
    items = []
    for k in range(len(doms)):
        items += [('dom', k), ('twins', k), ('ensrc', k)]
    for i in plan['order']:
        what, k = items[i]
        if what == 'dom':
            if doms[k]['inside'] is None:
                make_domain(k, hw, root)
        elif what == 'twins':
            make_twins(k)
        else:
            make_ensrc(k)
    B.pokes += ['p_en%d' % k for k, d in enumerate(doms) if d['kind'] in ('poked', 'gatedclock', 'self_or')]
    if plan.get('sources', 'poke') == 'sequence':
        # design-driven stimulus: every input net is driven by a Sequence source in the system domain, so that inputs and
        # enables keep changing inside a clk(n) call
        for n in B.pokes:
            col = [s_[n] for s_ in (stim or []) if n in s_] or [0]
            py4hw.Sequence(hw, 'src_' + n, col, wires[n])
    B.sim = None
    # what is frozen when a domain is gated: nets driven by the block's clockable leaves + their int / list attributes
    for rec in B.blocks:
        leaves = seqcat.clockable_leaves(rec['obj'])
        rec['leaves'] = leaves
        fw = []
        for leaf in leaves:
            for p in leaf.outPorts:
                if p.wire is not None:
                    fw.append(p.wire)
        rec['fwires'] = fw
        at = []
        for leaf in leaves:
            for name, v in sorted(vars(leaf).items()):
                if isinstance(v, int):
                    at.append((leaf, name, False))
                elif isinstance(v, list) and name not in ('inPorts', 'outPorts', 'inOutPorts', 'sources', 'sinks') \
                        and all(isinstance(x, int) for x in v):
                    at.append((leaf, name, True))
        rec['fattrs'] = at
    # something resolves clock drivers while part of the drivers is not attached yet (a probe, an early simulator, RTL ...)
    B.early_result = resolve_early(B, plan.get('early', 'none'))
    for k, d in enumerate(doms):
        if d.get('attach', 'at_creation') == 'after_build':
            attach(B, k)
    elaborate(B)
    return B


def attach(B, k):
    obj, node = B.site[k]
    obj.clockDriver = B.drvrec[k]['obj']
    node.driver = B.drvrec[k]
    B.attached[k] = True


def detach(B, k):
    obj, node = B.site[k]
    obj.clockDriver = None
    node.driver = None
    B.attached[k] = False


def elaborate(B):
    """(re-)elaborate: HWSystem.getSimulator() re-sorts the existing simulator; then map every block to its gating driver"""
    B.sim = B.hw.getSimulator()
    remap(B)


def remap(B):
    """oracle-side bookkeeping only: which driver record (and so which enable net, if any) governs each block"""
    for rec in B.blocks:
        rec['drv'] = rec['node'].nearest_driver()
    seen = []
    for rec in B.blocks:
        if rec['drv']['en'] is not None and not any(rec['drv'] is d for d in seen):
            seen.append(rec['drv'])
    B.gating = seen
    gov = []
    for rec in B.blocks:
        if not any(rec['drv'] is d for d in gov):
            gov.append(rec['drv'])
    B.governing = gov       # every driver record that clocks some block (evidence: state of the chain of bases at each edge)


def resolve_early(B, how):
    """things a user legitimately does while the design is still being put together; each of them looks up clock drivers.
    -> None, or (object path, observed driver, expected driver record) when a direct query answered wrongly"""
    import py4hw
    hw = B.hw
    B.nprobes += 1
    tag = B.nprobes
    some = [rec['outs'][o] for rec in B.blocks[:2] for o in list(rec['outs'])[:1]]
    if how == 'sim':
        hw.getSimulator()
    elif how == 'scope':
        py4hw.Scope(hw, 'probe_scope%d' % tag, some)
    elif how == 'oldwaveform':
        py4hw.OldWaveform(hw, 'probe_wave%d' % tag, some)
    elif how == 'rtl':
        try:
            py4hw.VerilogGenerator(hw).getVerilogForHierarchy()
        except Exception:
            B.rtl_raised = True       # several catalogue blocks are not translatable; the lookups it made before still count
    elif how == 'query':
        for rec in B.blocks:
            exp = rec['node'].nearest_driver()
            objs = list(rec['leaves'])
            o = rec['obj']
            while o is not None and o is not hw:
                objs.append(o)
                o = o.parent
            for o in objs:
                got = py4hw.getObjectClockDriver(o)
                # only objects at or below the block are judged against the block's driver; wrappers above it may sit above
                # the node that carries the driver
                if (o is rec['obj'] or o in rec['leaves']) and got is not exp['obj']:
                    return o.getFullPath(), getattr(got, 'name', got), exp
    return None


def frozen_state(rec):
    return ([w.value for w in rec['fwires']],
            [list(getattr(l, n)) if is_list else getattr(l, n) for l, n, is_list in rec['fattrs']])


# --------------------------------------------------------------------------- oracle

def check_assignment(run, B, plan, case, when='elaboration'):
    """sim.clockDrivers[drv].clockables  ==  nearest ancestor with a driver, computed on the plan tree (by identity)"""
    actual = {}
    dup = []
    for drv, cds in B.sim.clockDrivers.items():
        for leaf in cds.clockables:
            if id(leaf) in actual:
                dup.append(leaf.getFullPath())
            actual[id(leaf)] = drv
    ok = True
    n = 0
    for rec in B.blocks:
        exp = rec['node'].nearest_driver()
        for leaf in rec['leaves']:
            n += 1
            got = actual.get(id(leaf))
            if got is not exp['obj']:
                ok = False
                gname = getattr(got, 'name', None)
                run.violation('c10_driver_assignment',
                              dict(placement=placement(plan, rec), expected_is_root=(exp is B.rootdrv), observed_is_root=(got is B.rootdrv['obj']),
                                   when=when, early=plan.get('early', 'none')),
                              dict(case, leaf=leaf.getFullPath(), when=when), expected=exp['key'] + ':' + exp['name'], observed=gname,
                              what='%s: leaf %s (%s) is clocked by driver %r%s, nearest ancestor with a driver carries %s %r (early step: %s)'
                                   % (when, leaf.getFullPath(), rec['entry'].name, gname,
                                      ' (the root driver)' if got is B.rootdrv['obj'] else '', exp['key'], exp['name'], plan.get('early', 'none')))
                break
    if dup:
        ok = False
        run.violation('c10_driver_assignment', dict(placement='duplicate', when=when), dict(case, leaves=dup[:5]), observed=dup[:5],
                      what='leaves registered with more than one clock driver: %r' % dup[:3])
    run.count('driver_assignments_checked', n)
    return ok


def placement(plan, rec):
    if rec['dom'] is None:
        return 'ungated'
    d = plan['domains'][rec['dom']]
    if d['on_block']:
        return 'driver_on_leaf' if not rec['obj'].children else 'driver_on_block'
    s = 'nested_%d' % rec['spec']['nest'] if rec['spec']['nest'] else 'direct'
    if d['inside'] is not None:
        s += '_inside_other_domain'
    return s


def apply_rephase(B, plan, rp):
    """mid-run change of the clock tree followed by a re-elaboration (HWSystem.getSimulator() updates the simulator)"""
    import py4hw
    res = resolve_early(B, rp.get('probe', 'none'))
    doms = plan['domains']
    for ks, ch in sorted(rp['changes'].items()):
        k = int(ks)
        if ch == 'detach' and B.attached[k]:
            detach(B, k)
        elif ch == 'attach' and not B.attached[k]:
            attach(B, k)
        elif ch.startswith('replace'):
            # a fresh driver object, gated by the enable of domain j, built in another legal form
            _, j, form = ch.split(':')
            j = int(j)
            name = driver_name(plan, B.hw, 'clk_d%d_r' % k)
            obj = make_driver(py4hw, B.hw, name, form, B.wires['en%d' % j], lambda w=1: B.W('clkw_d%d_r' % k, w))
            B.drvrec[k] = dict(key='d%dr' % k, name=name, obj=obj, en=B.wires['en%d' % j], kind=doms[j]['kind'], enw=doms[j]['enw'], form=form)
            attach(B, k)
        elif ch.startswith('enable_'):
            # only the enable attribute of the LIVE driver object changes (a net is attached to a driver that had none,
            # another net takes over, or the gating is removed); the clock tree itself stays as it is
            d = B.drvrec[k]
            if ch == 'enable_remove':
                d['obj'].enable = None
                d.update(en=None, kind='always_on', enw=0)
            else:
                j = int(ch.split(':')[1])
                d['obj'].enable = B.wires['en%d' % j]
                d.update(en=B.wires['en%d' % j], kind=doms[j]['kind'], enw=doms[j]['enw'])
    if rp.get('resim', True):
        elaborate(B)
    else:
        remap(B)            # the bench keeps stepping the simulator it already holds: no getSimulator() in between
    return res


def run_design(run, plan, stim, stats=None, verbose=False):
    """-> 'ok' | 'violation' | 'build'.  stats: dict of counters (per-kind enable edges etc.)"""
    stats = stats if stats is not None else {}

    def bump(name, key, n=1):
        d = stats.setdefault(name, {})
        d[key] = d.get(key, 0) + n

    case = dict(plan=plan, stimulus=stim)
    try:
        with muted():
            B = build(plan, stim)
    except Exception as e:
        run.violation('c10_build_raises', dict(exc=type(e).__name__), dict(plan=plan), observed=traceback.format_exc()[-600:],
                      what='design does not build / elaborate: %r' % (e,))
        return 'build', None

    def query_violation(res, when):
        path, got, exp = res
        run.violation('c10_driver_query', dict(when=when, expected_is_root=(exp is B.rootdrv)), dict(plan=plan, object=path, when=when),
                      expected=exp['key'] + ':' + exp['name'], observed=got,
                      what='%s: getObjectClockDriver(%s) returned %r, nearest ancestor with a driver carries %s %r'
                           % (when, path, got, exp['key'], exp['name']))

    if B.early_result is not None:
        query_violation(B.early_result, 'before the drivers were attached')
        return 'violation', None
    if not check_assignment(run, B, plan, dict(plan=plan)):
        return 'violation', None
    doms = plan['domains']
    rp = plan.get('rephase')
    seen = {}
    twins = {}
    for rec in B.blocks:
        twins.setdefault(rec['spec']['id'], []).append(rec)
    bump('designs_by_early_step', plan.get('early', 'none'))
    ST = dict(t=0, pre=None, fail=False, diverged=False, left=0, inburst=False, first=None)
    sequence_sources = plan.get('sources', 'poke') == 'sequence'
    bump('designs_by_sources', plan.get('sources', 'poke'))
    bump('designs_by_schedule', plan.get('schedule_mode', 'step'))
    bump('designs_by_driver_names', {'system': 'all_named_as_system_driver', True: 'one_shared_label'}.get(plan.get('same_names'), 'distinct'))

    def capture():
        """what the oracle needs from right before an edge: enable values, block inputs, frozen state of gated blocks"""
        for d in B.gating:
            d['now'] = d['en'].get()
        for d in B.governing:
            # evidence only: the enables along  own driver -> base -> base.base ...  ('-' = that driver has no enable)
            ch, a = [], d
            while a is not None and len(ch) < 8:
                ch.append('-' if a['en'] is None else '0' if a['en'].get() == 0 else '1')
                a = a.get('base_rec')
            d['chain_now'] = ch
        pre = []
        for rec in B.blocks:
            ins = {p: w.get() for p, w in rec['ins'].items()}
            active = rec['drv']['en'] is None or rec['drv']['now'] != 0
            pre.append((ins, active, None if active else frozen_state(rec)))
        ST['pre'] = pre

    def judge():
        """judge the edge that just happened (number ST['t'], 0-based) against the capture made before it"""
        t = ST['t']
        later = ST['first'] is not None and t > ST['first']
        bump('edges_by_position_in_clk_call', 'later' if later else 'first')
        for d in B.gating:
            z = d['now'] == 0
            seen.setdefault(d['key'], [0, 0])[0 if z else 1] += 1
            bump('edges_enable_zero' if z else 'edges_enable_nonzero', d['kind'])
            bump('edges_enable_zero_by_form' if z else 'edges_enable_nonzero_by_form', d['form'])
            if not z and d.get('prev_on') and d['form'].startswith('wire_'):
                stats['consecutive_enabled_edges_with_driven_clock_wire'] = stats.get('consecutive_enabled_edges_with_driven_clock_wire', 0) + 1
            d['prev_on'] = not z
            if not z and d['now'] != 1:
                bump('edges_enable_multibit_not_1', d['kind'])
                if not d['now'] & 1:
                    bump('edges_enable_nonzero_even', d['kind'])
        for d in B.governing:
            ch = d.get('chain_now') or []
            if len(ch) >= 2:
                bump('chain_edges_by_enables_own_base_basebase', 'depth%d:%s' % (len(ch), '/'.join(ch)))
                if ch[0] != '0' and '0' in ch[1:]:
                    stats['chain_edges_own_open_some_base_closed'] = stats.get('chain_edges_own_open_some_base_closed', 0) + 1
        for rec, (ins, active, froz) in zip(B.blocks, ST['pre']):
            e, cfg = rec['entry'], rec['cfg']
            drv = rec['drv']
            chn = drv.get('chain_now') or []
            if len(chn) >= 2:
                bump('chain_block_checks', 'depth%d:%s' % (len(chn), 'advances' if active else 'holds') +
                     (',a_base_is_closed' if '0' in chn[1:] else ',bases_open'))
            kind = drv['kind']
            run.ev()
            if active:
                rec['state'] = e.nxt(cfg, rec['state'], ins)
                rec['clocked'] += 1
            else:
                now = frozen_state(rec)
                bump('frozen_checks', kind)
                if now != froz:
                    what = 'net' if now[0] != froz[0] else 'attribute'
                    if what == 'net':
                        i = [a != b for a, b in zip(now[0], froz[0])].index(True)
                        where = rec['fwires'][i].getFullPath()
                        ev, ov = froz[0][i], now[0][i]
                    else:
                        i = [a != b for a, b in zip(now[1], froz[1])].index(True)
                        where = '%s.%s' % (rec['fattrs'][i][0].getFullPath(), rec['fattrs'][i][1])
                        ev, ov = froz[1][i], now[1][i]
                    run.violation('c10_gated_changed', dict(kind=kind, what=what, en_width=drv['enw'], form=drv['form']),
                                  dict(case, stimulus=stim[:t + 1], cycle=t, block=rec['id'], where=where),
                                  expected=ev, observed=ov,
                                  what='edge %d: enable of driver %s (%s, built as %s) read 0 but %s of %s %s changed %r -> %r'
                                       % (t + 1, drv['key'], kind, drv['form'], what, e.name, where, ev, ov))
                    return False
            if rec['clocked'] == 0:
                bump('output_checks_skipped_never_clocked', kind)
                continue
            ins_post = {p: w.get() for p, w in rec['ins'].items()}
            exp = e.out(cfg, rec['state'], ins_post)
            got = {o: w.get() for o, w in rec['outs'].items()}
            bad = c09.compare(exp, got, rec['ow'])
            bump('output_checks_active' if active else 'output_checks_gated', kind)
            if bad:
                o, ev, ov = bad
                en_val = None if drv['en'] is None else drv['now']
                run.violation('c10_value', dict(kind=kind, active=bool(active), en_is_one=(en_val == 1) if en_val is not None else None,
                                                form=drv['form']),
                              dict(case, stimulus=stim[:t + 1], cycle=t, block=rec['id'], out=o), expected=ev, observed=ov,
                              what='edge %d: %s %s%r (%s, driver built as %s, enable read %r%s) output %s expected %d got %d'
                                   % (t + 1, rec['id'], e.name, cfg, kind, drv['form'], en_val,
                                      '; enables along own driver/base/...: %s' % '/'.join(chn) if len(chn) >= 2 else '', o, ev, ov))
                return False
        if not ST['diverged']:
            for pair in twins.values():
                if len(pair) == 2 and pair[0]['state'] != pair[1]['state']:
                    ST['diverged'] = True
        return True

    class EdgeListener:
        """Simulator listener: called at the end of every cycle, also inside a clk(n) burst -> every edge is judged"""

        def simulatorUpdated(self):
            if not ST['inburst'] or ST['fail']:
                return
            ok = judge()
            ST['t'] += 1
            ST['left'] -= 1
            if not ok:
                ST['fail'] = True
                B.sim.stop()
                return
            if ST['left'] > 0:
                # inside a burst nothing is poked: the settled state after this edge is the state before the next one
                capture()
                for d in B.gating:
                    if (d['now'] == 0) != (d['start'] == 0):
                        bump('edges_inside_clk_call_with_flipped_enable', 'now_on' if d['now'] else 'now_off')

    B.sim.addListener(EdgeListener())
    sched = list(plan.get('schedule') or [])
    with muted():
        while ST['t'] < len(stim):
            t = ST['t']
            if rp is not None and t == rp['at']:
                try:
                    res = apply_rephase(B, plan, rp)
                except Exception as e:
                    run.violation('c10_build_raises', dict(exc=type(e).__name__, when='re-elaboration'), dict(case, stimulus=stim[:t], cycle=t),
                                  observed=traceback.format_exc()[-600:], what='re-elaboration before edge %d raises: %r' % (t + 1, e))
                    return 'build', None
                if res is not None:
                    query_violation(res, 're-elaboration')
                    return 'violation', None
                if not check_assignment(run, B, plan, dict(case, stimulus=stim[:t], cycle=t), when='re-elaboration'):
                    return 'violation', None
                bump('rephase_probe', rp.get('probe', 'none'))
                for ch in rp['changes'].values():
                    bump('rephase_changes', ch.split(':')[0])
                    if ch.startswith('enable_'):
                        bump('live_enable_changes_' + ('with_new_getSimulator' if rp.get('resim', True) else 'on_held_simulator'), ch.split(':')[0])
            n = sched.pop(0) if sched else 1
            n = max(1, min(n, len(stim) - t))
            if rp is not None and t < rp['at'] < t + n:
                sched.insert(0, t + n - rp['at'])       # a clk(n) call ends where the clock tree is changed
                n = rp['at'] - t
            if not sequence_sources:
                for name, v in stim[t].items():         # poked inputs are held during a clk(n) call
                    B.wires[name].put(v)
            bump('clk_calls', '1' if n == 1 else '2-9' if n < 10 else '10-50' if n <= 50 else '>50')
            try:
                B.sim.propagateAll()
                capture()
                for d in B.gating:
                    d['start'] = d['now']
                ST['left'], ST['inburst'], ST['first'] = n, True, t
                B.sim.clk(n)
                ST['inburst'] = False
            except Exception as e:
                ST['inburst'] = False
                run.violation('c10_sim_raises', dict(exc=type(e).__name__), dict(case, stimulus=stim[:ST['t'] + 1], cycle=ST['t']),
                              observed=traceback.format_exc()[-600:], what='simulation raises at edge %d: %r' % (ST['t'] + 1, e))
                return 'violation', None
            if ST['fail']:
                return 'violation', None
            if ST['t'] != t + n:
                run.violation('c10_edge_count', dict(requested=n), dict(case, cycle=t), expected=n, observed=ST['t'] - t,
                              what='clk(%d) produced %d listener notifications' % (n, ST['t'] - t))
                return 'violation', None
    diverged = ST['diverged']
    both = any(s[0] > 0 and s[1] > 0 for s in seen.values())
    for k, d in enumerate(doms):
        depth, j = 1, d.get('base')
        while j is not None:
            depth, j = depth + 1, doms[j].get('base')
        bump('domains_by_chain_depth', str(depth))
        bump('domains', d['kind'])
        bump('domains_enw%d' % d['enw'], d['kind'])
        bump('domains_by_driver_form', d.get('form', 'base_wire'))
        bump('domains_by_attach_time', d.get('attach', 'at_creation'))
    for rec in B.blocks:
        if rec['dom'] is not None:
            bump('gated_blocks_by_placement', placement(plan, rec))
            bump('gated_blocks_by_entry', rec['entry'].name)
    info = dict(nontrivial=both and diverged, seen=seen, blocks=len(B.blocks),
                drivers={'%s#%d' % (d.name, i): len(c.clockables) for i, (d, c) in enumerate(B.sim.clockDrivers.items())})
    return 'ok', info


# --------------------------------------------------------------------------- reach evidence (sys.monitoring)

class Reach:
    def __init__(self):
        self.n = 0
        self.tid = None

    def start(self):
        try:
            import py4hw.simulation as ps
            mon = sys.monitoring
            code = ps.Simulator._clk_cycle.__code__
            for tid in (3, 4, 5, 2):
                try:
                    mon.use_tool_id(tid, 'verif-c10')
                    self.tid = tid
                    break
                except ValueError:
                    continue
            if self.tid is None:
                return

            def cb(c, off):
                if c is code:
                    self.n += 1
            mon.register_callback(self.tid, mon.events.PY_START, cb)
            mon.set_local_events(self.tid, code, mon.events.PY_START)
            self.code = code
        except Exception:
            self.tid = None

    def stop(self):
        if self.tid is not None:
            try:
                mon = sys.monitoring
                mon.set_local_events(self.tid, self.code, 0)
                mon.register_callback(self.tid, mon.events.PY_START, None)
                mon.free_tool_id(self.tid)
            except Exception:
                pass


# --------------------------------------------------------------------------- entry points

def run_check(run, tier, seed, shard):
    p = PARAMS[tier]
    run.assume('a domain is gated at an edge iff its enable net reads 0 right before the edge (after the inputs were poked and '
               'the combinational logic settled); any non-zero value of a multi-bit enable is active')
    run.assume('a nested gated sub-hierarchy follows its own (nearest) driver only; the enable of an enclosing domain does not '
               'apply to it (the statement says blocks inherit the nearest ancestor\'s driver)')
    run.assume('a driver derived from another derived driver (ClockDriver(base=g1, enable=e2) with g1 itself gated by e1) is gated by its OWN '
               'enable only: base= supplies frequency / phase (and the clock input name in RTL), the enables of the bases do not stop it; an '
               'ungated driver derived from a gated one always runs (read from Simulator._clk_cycle on the unchanged tree: only drv.enable is '
               'looked at; the statement speaks of the enable of the driver the blocks are placed under)')
    run.assume('outputs of a block are compared with the reference only once the block was clocked at least once (power-up '
               'values of nets are not part of the statement); the frozen-state clause is checked from the first edge')
    run.assume('reference machines and input domains are those of C09 (vlib/seqcat.py)')
    run.assume('the simulator reads ClockDriver.enable at every edge: assigning another net (or None, or a first net) to the enable of '
               'a driver that is already in use takes effect at the next edge, with or without a new getSimulator() call')
    run.assume('ClockDriver.wire only names the clock net (RTL generation); its value, driven or not, does not decide when the domain '
               'advances: a gated domain advances exactly at the edges before which its enable read non-zero')
    run.assume('clk(n) is n edges: the enable of every domain is sampled before each of them (judged per edge from a Simulator '
               'listener, which the simulator notifies at the end of every cycle, also inside a clk(n) call)')
    run.assume('a ClockDriver with an enable gates its domain however it was built (with or without base=, with or without wire=, '
               'keyword or positional arguments): the statement speaks of "a clock driver that has an enable signal"')
    run.assume('the clock tree in force is the one present at the latest HWSystem.getSimulator() call: drivers may be attached after '
               'a probe / an early simulator / an RTL generation / a getObjectClockDriver query looked at the design, and may be '
               'detached, attached or replaced later followed by getSimulator() (which re-sorts the existing simulator)')
    skip = ()
    if not dualport_simulates():
        skip = ('DualPortSynchronousMemory',)
        run.extra['blocks_left_out'] = ['DualPortSynchronousMemory (cannot be clocked: C09 known finding dualport_clock_attrs)']
    pool = block_pool(skip)
    idxs = shard_slice(range(p['designs']), shard)
    deadline = time.time() + p['seconds']
    stats = {}
    reach = Reach()
    reach.start()
    try:
        for idx in idxs:
            if run.too_many:
                break
            if time.time() > deadline:
                run.count('designs_skipped_watchdog')
                continue
            rnd = rng(seed, 'C10', idx)
            plan = gen_plan(rnd, idx, pool, p['cycles'])
            stim = gen_stimulus(rnd, plan, p['cycles'])
            add_chains(rng(seed, 'C10', 'chain', idx), plan)
            status, info = run_design(run, plan, stim, stats)
            run.count('designs')
            if status == 'ok':
                run.count('edges', len(stim))
                if info['nontrivial']:
                    run.nt(stable_hash([plan, stim]))
                if idx % 37 == 0:
                    run.sample(dict(early_step=plan['early'], rephase=plan['rephase'], sources=plan['sources'], schedule=plan['schedule'] or 'clk(1) stepping',
                                    domains=[dict(kind=d['kind'], enw=d['enw'], depth=d['depth'], inside=d['inside'], on_block=d['on_block'],
                                                  driver_form=d['form'], attached=d['attach'], base=d.get('base'),
                                                  blocks=[(b['entry'], b['cfg'], b['role'], 'nest%d' % b['nest'], b['conn']) for b in d['blocks']])
                                             for d in plan['domains']],
                                    enable_edges_zero_nonzero=info['seen'], clockables_per_driver=info['drivers'], edges=len(stim)))
    finally:
        reach.stop()
    for k, v in stats.items():
        run.extra[k] = v
    run.extra['reach_clk_cycle'] = reach.n
    if run.counters.get('designs_skipped_watchdog'):
        run.inconclusive.append('watchdog: %d designs skipped' % run.counters['designs_skipped_watchdog'])
    if shard is None:
        post_merge(run, tier, seed)


def post_merge(run, tier, seed):
    if run.violations:
        return
    z = run.extra.get('edges_enable_zero', {})
    nz = run.extra.get('edges_enable_nonzero', {})
    for kind in KINDS:
        if z.get(kind, 0) == 0 or nz.get(kind, 0) == 0:
            run.inconclusive.append('domain kind %s: %d edges with enable 0, %d with enable != 0 (both must be observed)'
                                    % (kind, z.get(kind, 0), nz.get(kind, 0)))
    zf = run.extra.get('edges_enable_zero_by_form', {})
    nzf = run.extra.get('edges_enable_nonzero_by_form', {})
    for form in FORMS:
        if zf.get(form, 0) == 0 or nzf.get(form, 0) == 0:
            run.inconclusive.append('driver form %s: %d edges with enable 0, %d with enable != 0 (both must be observed)'
                                    % (form, zf.get(form, 0), nzf.get(form, 0)))
    if not run.extra.get('consecutive_enabled_edges_with_driven_clock_wire'):
        run.inconclusive.append('no two consecutive enabled edges on a driver whose wire= net is driven by the design')
    for how in EARLY:
        if not run.extra.get('designs_by_early_step', {}).get(how):
            run.inconclusive.append('no design with early resolution step %s' % how)
    for ch in ('attach', 'detach', 'replace'):
        if not run.extra.get('rephase_changes', {}).get(ch):
            run.inconclusive.append('no mid-run %s of a clock driver followed by a re-elaboration' % ch)
    for ch in ('enable_set', 'enable_remove'):
        if not run.extra.get('live_enable_changes_on_held_simulator', {}).get(ch):
            run.inconclusive.append('no mid-run %s on a live driver with the bench going on with the held simulator' % ch)
    ce = run.extra.get('chain_edges_by_enables_own_base_basebase', {})
    for depth in (2, 3):
        for m in range(1 << depth):
            combo = 'depth%d:%s' % (depth, '/'.join('1' if (m >> i) & 1 else '0' for i in range(depth)))
            if not ce.get(combo):
                run.inconclusive.append('chain of derived drivers: enable combination %s (own/base/...) never reached at an edge' % combo)
    if not any(k.startswith('depth') and k.split(':')[1].startswith('-') and '0' in k.split(':')[1] for k in ce):
        run.inconclusive.append('no edge with an ungated driver derived from a gated driver whose enable read 0')
    cb = run.extra.get('chain_block_checks', {})
    for depth in (2, 3):
        if not cb.get('depth%d:advances,a_base_is_closed' % depth):
            run.inconclusive.append('no block judged as advancing under a depth-%d chain while an enable of a base driver read 0' % depth)
    for m in ('all_named_as_system_driver', 'one_shared_label', 'distinct'):
        if not run.extra.get('designs_by_driver_names', {}).get(m):
            run.inconclusive.append('no design whose derived drivers are named: %s' % m)
    fl = run.extra.get('edges_inside_clk_call_with_flipped_enable', {})
    for d in ('now_on', 'now_off'):
        if not fl.get(d):
            run.inconclusive.append('no edge inside a clk(n>1) call at which the enable differed from its value at the start of the call (%s)' % d)
    for m in ('step', 'mixed', 'bursts', 'single'):
        if not run.extra.get('designs_by_schedule', {}).get(m):
            run.inconclusive.append('no design run with schedule mode %s' % m)
    if sum(run.extra.get('edges_enable_nonzero_even', {}).values()) == 0:
        run.inconclusive.append('no edge with a multi-bit enable that is non-zero with bit 0 clear')
    if sum(run.extra.get('frozen_checks', {}).values()) == 0:
        run.inconclusive.append('the frozen-state clause was never evaluated')
    if run.counters.get('driver_assignments_checked', 0) == 0:
        run.inconclusive.append('no leaf->driver assignment was checked')
    pl = run.extra.get('gated_blocks_by_placement', {})
    for need in ('direct', 'driver_on_leaf'):
        if not pl.get(need):
            run.inconclusive.append('no gated block with placement %s' % need)
    if not any(k.startswith('nested_') for k in pl):
        run.inconclusive.append('no gated block below an extra wrapper (inheritance never exercised)')


def replay(run, case):
    c = case['case']
    plan = _fix(c['plan'])
    stim = [{k: (int(v, 16) if isinstance(v, str) else v) for k, v in s.items()} for s in c.get('stimulus', [])]
    n0 = len(run.violations)
    status, info = run_design(run, plan, stim, {})
    print('replay: %d domains %s, %d edges -> %s %s' % (len(plan['domains']), [d['kind'] for d in plan['domains']], len(stim), status,
                                                       info if status != 'ok' else info['seen']))
    for v in run.violations[n0:]:
        print('  ', v['what'])
    bad = len(run.violations) > n0
    if bad:
        print('VIOLATION property=%s replay=%s' % (run.prop, 'replayed'))
    return 1 if bad else 0


def _fix(plan):
    for d in plan['domains']:
        for b in d['blocks'] + d['outside']:
            b['cfg'] = seqcat.cfg_from_json(b['cfg'])
    return plan
