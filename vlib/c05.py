"""C05 -- clock edges are atomic (DESIGN.md section 4 C05).

Monitor 1 trace specification over the E1 event list, per Simulator._clk_cycle:
   (a) no Wire.value change while phase = clocking (a put inside a clock() is the refuting event);
   (b) every prepare(w, v) is followed by a settle(w) in the same cycle that installs the LAST prepared v, before any
       propagate; exactly one settle when the wire was prepared once;
   (c) Wire.prepared is empty at cycle end, after construction and after every clk() call;
   (d) no settle of a wire that was not prepared in that cycle;
   (e) no clock()/clockAll after the first settle of the cycle (all drivers are clocked before anything becomes visible).
Monitor 2 schedule independence: same input history under every permutation of sim.clockDrivers[drv].clockables and of
   the driver dict order; all wire values and leaf state must equal the identity order after every edge.
Monitor 3 splitting: clk(n) pieces vs n x clk(1) vs random compositions with inputs changed only at shared call
   boundaries: equal states at the shared boundaries, total_clks advanced by n.
Monitor 5 run control: histories of clk() calls in which Simulator.stop() is requested by a listener after the first / a middle / the
   LAST cycle of a call, at a position the call never reaches, after every cycle, and while idle between calls, followed by
   stop-free clk(0)/clk(1)/clk(n): edges performed per call (listener notifications and total_clks) against the logical model
   "a stop ends the running call only", states against single-cycle calls on a simulator that never sees stop(), and the
   same history with every stop-free clk(n) replaced by n x clk(1).
"""
import itertools
import math
import time

from . import hooks, netgen
from .common import rng, shard_slice, stable_hash, muted

LEVEL = 'exploration'
RULE = ('random designs with 2-7 sequential leaves wired to each other (register rings with inverters, shift chains with XOR taps, '
        'counter feeding a memory address, UART / Vitis FSM blocks feeding registers, random Reg/Sequence/SynchronousMemory meshes, '
        'two clock domains feeding each other, 2-3 clock domains of equal frequency whose drivers differ in phaseOffset -- ungated and gated -- with a register ring crossing the domains at every hop and judged also against the same design with every phaseOffset 0), 10-24 cycles of random inputs; each design is run under every permutation of the '
        'clockables lists and of the driver dict order (all when <= 120 quick / 5040 thorough, sampled beyond), with the E1 trace '
        'specification evaluated on the recorded events, under runs in which the clockDriver of a wrapper/block is attached, replaced or removed between calls '
        '(followed by getSimulator()) with the set of clocked leaves judged per cycle, under several splittings of the run into clk() calls including clk(0), and under histories in which Simulator.stop() is requested by a listener at every position of a clk(n) call (first, middle, last cycle, never reached, every cycle) or while idle, followed by clk(n) calls compared with n x clk(1); '
        'non-trivial = a design for which an immediate-write twin of Reg (harness class PutReg) DOES give order-dependent results '
        'under the same permutations, i.e. atomicity is what makes the real design order independent; distinct by plan hash')
SHARDS = {'quick': 1, 'thorough': 16}
TIMEOUT = {'quick': 600, 'thorough': 3000}
MIN_NONTRIVIAL = {'quick': 60, 'thorough': 800}


def P():
    import py4hw
    return py4hw


# --------------------------------------------------------------------------- running a design

def apply_schedule(sim, sched):
    """sched = {'drivers': [driver names in visiting order], 'clockables': {driver name: [permutation of indices]}}"""
    if not sched:
        return
    byname = {d.name: d for d in sim.clockDrivers}
    for name, perm in (sched.get('clockables') or {}).items():
        ds = sim.clockDrivers[byname[name]]
        orig = list(ds.clockables)
        assert sorted(perm) == list(range(len(orig)))
        ds.clockables = [orig[i] for i in perm]
    if sched.get('drivers'):
        assert sorted(sched['drivers']) == sorted(byname)
        sim.clockDrivers = {byname[n]: sim.clockDrivers[byname[n]] for n in sched['drivers']}


def apply_driver_action(b, act):
    """act = dict(op='attach'|'replace'|'remove', target=['scope', path] | ['block', id], enable=wire id | None, name=str):
    assign / replace / remove the clockDriver of a wrapper or block of the live design (public attribute), then obtain the
    simulator again with getSimulator(), which is the documented way to make structural changes known."""
    py4hw = P()
    kind, ref = act['target']
    obj = b.boxes[ref] if kind == 'scope' else b.B[ref]
    if act['op'] == 'remove':
        obj.clockDriver = None
    else:
        en = b.W[act['enable']] if act.get('enable') else None
        if act.get('freq'):
            obj.clockDriver = py4hw.ClockDriver(act.get('name', 'ckX'), freq=act['freq'], enable=en)
        else:
            obj.clockDriver = py4hw.ClockDriver(act.get('name', 'ckX'), base=b.hw.clockDriver, enable=en)
    with muted():
        return b.hw.getSimulator()


def build(plan, **kw):
    """netgen.build + the clock phases of the plan: a scope whose clock dict carries 'phase' gets a ClockDriver of its own with that
    phaseOffset (same frequency as the system driver, same enable wire); plan['sysphase'] replaces the system driver by one with that
    phaseOffset.  Done with the public constructor / attribute before the simulator exists."""
    b = netgen.build(plan, **kw)
    py4hw = P()
    if plan.get('sysphase') is not None:
        old = b.hw.clockDriver
        b.hw.clockDriver = py4hw.ClockDriver(old.name, freq=old.freq, phaseOffset=plan['sysphase'])
    for sc in plan.get('scopes', []):
        ck = sc.get('clock')
        if ck and ck.get('phase') is not None:
            en = b.W[ck['enable']] if ck.get('enable') else None
            b.boxes[sc['path']].clockDriver = py4hw.ClockDriver(ck['name'], freq=b.hw.clockDriver.freq, phaseOffset=ck['phase'], enable=en)
    return b


PHASES = (0, 5, 12.5, 25, 33, 50, 66, 75, 90, 99)


def gen_phased(rnd, n_seq):
    """2-3 clock domains of EQUAL frequency whose drivers differ in phaseOffset (system driver included), ungated or gated (poked
    input, toggling register, registered input), with a register ring that crosses the domains at every hop (swap ring for two
    registers), optional inverters on the hops and an input XORed into the ring so that every register keeps changing."""
    g = netgen._Gen(rnd)
    plan = g.plan
    plan['shape'] = 'phased_domains'
    w = rnd.choice([2, 3, 4, 8])
    ndom = rnd.choice([2, 2, 3])
    n_seq = max(n_seq, ndom)

    def reg(d, q, scope=''):
        plan['blocks'].append(netgen.native_block(g.bid('r'), 'Reg', dict(d=d, q=q, enable=None, reset=None), dict(reset_value=None), scope))

    def cat(entry, cfg, conn, scope=''):
        plan['blocks'].append(netgen.cat_block(g.bid('c'), entry, cfg, conn, scope))

    ph = rnd.sample(PHASES, ndom)
    if rnd.random() < 0.3:
        ph[rnd.randrange(1, ndom)] = ph[0]            # some designs keep two drivers in phase (with 3 domains one still differs)
    if rnd.random() < 0.5:
        ph[0] = None                                  # system driver left as constructed (phaseOffset 0)
    plan['sysphase'] = ph[0]
    scopes = ['']
    plan['scopes'] = []
    for j in range(1, ndom):
        mode = rnd.choice(['none', 'none', 'input', 'toggle', 'delayed'])
        en = None
        if mode == 'input':
            en = g.input(1)
        elif mode == 'toggle':
            en = g.wire(1)
            nen = g.wire(1)
            cat('Not', (1, 1), [en, nen])
            reg(nen, en)
        elif mode == 'delayed':
            en = g.wire(1)
            reg(g.input(1), en)
        path = 'ph%d' % j
        scopes.append(path)
        plan['scopes'].append(dict(path=path, clock=dict(name='ckP%d' % j, enable=en, mode=mode, freq=None, phase=ph[j])))
    din = g.input(w)
    qs = [g.wire(w) for _ in range(n_seq)]
    off = rnd.randrange(ndom)
    for i in range(n_seq):
        sc = scopes[(i + off) % ndom]
        src = qs[i - 1]
        if i == 0:
            t = g.wire(w)
            cat('Xor2', (w,), [src, din, t], scope=rnd.choice(['', sc]))
            src = t
        elif rnd.random() < 0.3:
            t = g.wire(w)
            cat('Not', (w, w), [src, t], scope=rnd.choice(['', sc]))
            src = t
        reg(src, qs[i], scope=sc)
    if rnd.random() < 0.5:
        rnd.shuffle(plan['blocks'])
    return netgen.assign_wire_scopes(plan)


def strip_phases(plan):
    """the same design with every driver at the default phaseOffset"""
    import copy
    p = copy.deepcopy(plan)
    p['sysphase'] = None
    for sc in p.get('scopes', []):
        if sc.get('clock') and 'phase' in sc['clock']:
            sc['clock']['phase'] = None
    return p


def check_phases(run, plan, hist, ident, stats, meta):
    """Monitor 6: drivers that differ only in phaseOffset.  The edge is atomic over ALL domains of the simulated cycle: the post-edge
    state is a function of the pre-edge values only, so the trajectory equals that of the design with every phaseOffset at 0."""
    phs = [plan.get('sysphase') or 0] + [(sc['clock'].get('phase') or 0) for sc in plan.get('scopes', []) if sc.get('clock')]
    if len(set(phs)) < 2:
        stats['phased_designs_all_in_phase'] = stats.get('phased_designs_all_in_phase', 0) + 1
        return
    flat = simulate(strip_phases(plan), hist)
    case = dict(plan=plan, hist=hist, meta=meta, mode='phase')
    if flat['error']:
        run.violation('design_does_not_simulate', dict(shape=plan.get('shape'), mode='phase'), case, observed=flat['error'], what='in-phase twin raises: %s' % flat['error'])
        return
    gated = any(sc['clock'].get('enable') for sc in plan['scopes'] if sc.get('clock'))
    stats['phased_designs'] = stats.get('phased_designs', 0) + 1
    stats['phased_designs_%d_domains' % len(phs)] = stats.get('phased_designs_%d_domains' % len(phs), 0) + 1
    stats['phased_designs_gated' if gated else 'phased_designs_ungated'] = stats.get('phased_designs_gated' if gated else 'phased_designs_ungated', 0) + 1
    stats['phased_edges_compared'] = stats.get('phased_edges_compared', 0) + len(flat['traj'])
    prev = None
    for wv, _ in flat['traj']:
        if prev is not None and sum(1 for k in wv if wv[k] != prev.get(k)) >= 2:
            stats['phased_edges_with_several_wires_changing'] = stats.get('phased_edges_with_several_wires_changing', 0) + 1
        prev = wv
    run.ev(len(flat['traj']))
    d = first_diff(flat['traj'], ident['traj'])
    if d is not None:
        run.violation('phase_dependent', dict(differs=d[1], gated=gated, domains=len(phs)), case, expected=d[3], observed=d[4],
                      what='after edge %d %s %s = %r with every phaseOffset 0 but %r with phaseOffsets %s: the later-phase domain did not see pre-edge values'
                           % (d[0] + 1, d[1], d[2], d[3], d[4], phs))


def simulate(plan, hist, sched=None, subst=None, calls=None, trace=False, domains=False):
    """returns dict(traj=[(wires, state) after each clk() call], total=[total_clks after each call], prepared=[len(Wire.prepared) ...],
    events, rec).  calls: list of (n_cycles, input dict applied before the call[, driver action applied before the call]);
    default one clk(1) per hist entry.
    domains=True (needs trace): at the start of every cycle the set of sequential leaves that must be clocked is computed from
    the design as it is NOW (py4hw.getObjectClockDriver(leaf); enable wire None or != 0) and compared at the end of the cycle
    with the leaves whose clock() actually ran; mismatches are returned in out['domain_bad']."""
    Wire = P().Wire
    if calls is None:
        calls = [(1, h) for h in hist]
    out = dict(traj=[], total=[], prepared=[], events=None, rec=None, error=None, prepared_at_construction=None, domain_bad=[],
               domain_cycles=0, gated_leaf_cycles=0, driver_changes=0)

    def body():
        py4hw = P()
        b = build(plan, subst=subst)
        sim = b.simulator()
        out['prepared_at_construction'] = hooks.pending_count()
        apply_schedule(sim, sched)
        out['drivers'] = {d.name: len(ds.clockables) for d, ds in sim.clockDrivers.items()}
        rec = out.get('rec')
        if domains and rec is not None:
            seq = [l for l in netgen.my_leaves(b.hw) if netgen.is_clk(l)]
            cur = dict(expected=None, got=set(), changed=False)
            caps = {}
            out['caps'] = caps

            def on_event(ev):
                kind = ev[2]
                if kind == 'cycle':
                    # what every StreamCapture of an enabled domain must record at this edge: the PRE-edge value of its wire
                    for l in netgen.my_leaves(b.hw):
                        if type(l).__name__ in ('StreamCapture', 'StreamCaptureSigned'):
                            try:
                                d = py4hw.getObjectClockDriver(l)
                                if d.enable is None or d.enable.get() != 0:
                                    caps.setdefault(id(l), [l, []])[1].append(l.x.get())
                            except Exception:
                                pass
                    exp = set()
                    for l in seq:
                        try:
                            d = py4hw.getObjectClockDriver(l)
                            if d.enable is None or d.enable.get() != 0:
                                exp.add(id(l))
                        except Exception:
                            exp.add(id(l))
                    cur['expected'] = exp
                    cur['got'] = set()
                elif kind == 'clock':
                    cur['got'].add(id(ev[3]))
                elif kind == 'cycle_end' and cur['expected'] is not None:
                    out['domain_cycles'] += 1
                    if len(cur['expected']) < len(seq):
                        out['gated_leaf_cycles'] += 1
                    if cur['got'] != cur['expected'] and len(out['domain_bad']) < 5:
                        byid = {id(l): l for l in seq}
                        extra = sorted(byid[i].getFullPath() for i in cur['got'] - cur['expected'] if i in byid)
                        missing = sorted(byid[i].getFullPath() for i in cur['expected'] - cur['got'])
                        out['domain_bad'].append(dict(cycle=ev[0], clocked_although_gated=extra[:4], not_clocked_although_enabled=missing[:4],
                                                      after_driver_change=cur['changed']))
                    cur['expected'] = None
            rec.subscribers.append(on_event)
        for call in calls:
            n, vals = call[0], call[1]
            if len(call) > 2 and call[2] and call[2].get('op') == 'refetch':
                with muted():
                    sim = b.hw.getSimulator()       # the simulator is fetched again before the call, as testbenches do
                out['refetches'] = out.get('refetches', 0) + 1
            elif len(call) > 2 and call[2]:
                sim = apply_driver_action(b, call[2])
                out['driver_changes'] += 1
                if domains and rec is not None:
                    cur['changed'] = True
                    seq[:] = [l for l in netgen.my_leaves(b.hw) if netgen.is_clk(l)]
            b.poke(vals)
            with muted():
                sim.clk(n)
            out['traj'].append((netgen.wire_values(b.hw), netgen.leaf_state(b.hw)))
            out['total'].append(sim.total_clks)
            out['built'] = b
            out['prepared'].append(hooks.pending_count())
    try:
        if trace:
            with hooks.install() as rec:
                out['rec'] = rec
                body()
            out['events'] = rec.events
        else:
            body()
    except Exception as e:      # the design must simulate; reported by the caller
        out['error'] = repr(e)[:300]
    return out


# --------------------------------------------------------------------------- Monitor 1: trace specification

def check_trace(run, events, case, stats):
    """Judges the event list of one run. Returns the number of violations raised."""
    nviol = 0

    def viol(key, fields, what, expected=None, observed=None):
        nonlocal nviol
        nviol += 1
        if nviol <= 3:
            run.violation(key, fields, case, expected=expected, observed=observed, what=what)

    in_cycle = False
    prepared = {}
    settled = {}
    seen_settle = False
    seen_prop = False
    cyc = 0
    for ev in events:
        cycle, phase, kind, obj, old, new = ev
        if kind == 'constructed':
            run.ev()
            stats['construction_checks'] = stats.get('construction_checks', 0) + 1
            if new is None:
                stats['pending_unobservable'] = stats.get('pending_unobservable', 0) + 1
            elif new != 0:
                viol('prepared_not_empty', dict(when='construction'), 'Wire.prepared holds %d wires after Simulator construction' % new, 0, new)
            continue
        if kind == 'cycle':
            in_cycle = True
            cyc = cycle
            prepared = {}
            settled = {}
            seen_settle = False
            seen_prop = False
            continue
        if kind == 'put':
            if phase == 'clocking':
                stats['puts_while_clocking'] = stats.get('puts_while_clocking', 0) + 1
                if old != new:
                    viol('value_changed_while_clocking', dict(via='put'), 'cycle %d: %s changed %r -> %r by put() during the clocking phase' % (
                        cyc, hooks._path(obj), old, new), old, new)
            continue
        if not in_cycle:
            if kind == 'prepare':
                stats['prepare_outside_cycle'] = stats.get('prepare_outside_cycle', 0) + 1
            if kind == 'settle':
                viol('settle_outside_cycle', {}, 'settle of %s outside any clock cycle' % hooks._path(obj))
            continue
        if kind in ('clock', 'clockAll'):
            stats['clock_events'] = stats.get('clock_events', 0) + (kind == 'clock')
            if seen_settle:
                viol('clock_after_settle', dict(kind=kind), 'cycle %d: %s runs after updates of this edge were already settled' % (
                    cyc, type(obj).__name__ + ' ' + (hooks._lpath(obj) if kind == 'clock' else getattr(getattr(obj, 'driver', None), 'name', '?'))))
        elif kind == 'prepare':
            stats['prepare_events'] = stats.get('prepare_events', 0) + 1
            if phase != 'clocking':
                stats['prepare_not_in_clocking'] = stats.get('prepare_not_in_clocking', 0) + 1
            rec = prepared.setdefault(id(obj), [obj, 0, None, 0])
            rec[1] += 1
            rec[2] = new
            if seen_settle or seen_prop:
                viol('prepare_after_settle', {}, 'cycle %d: %s prepared after the settling of this edge started' % (cyc, hooks._path(obj)))
        elif kind == 'settle':
            stats['settle_events'] = stats.get('settle_events', 0) + 1
            seen_settle = True
            run.ev()
            if phase == 'clocking' and old != new:
                viol('value_changed_while_clocking', dict(via='settle'), 'cycle %d: %s settled during the clocking phase' % (cyc, hooks._path(obj)))
            rec = prepared.get(id(obj))
            if rec is None:
                viol('settle_without_prepare', {}, 'cycle %d: %s settled (-> %r) although it was not prepared in this cycle' % (cyc, hooks._path(obj), new), None, new)
                continue
            rec[3] += 1
            if new != rec[2]:
                viol('settle_wrong_value', dict(relation='older_value' if new == old else 'other'),
                     'cycle %d: settle of %s installed %r, last prepared value was %r' % (cyc, hooks._path(obj), new, rec[2]), rec[2], new)
            if seen_prop:
                viol('settle_after_propagate', {}, 'cycle %d: %s settled after propagation started' % (cyc, hooks._path(obj)))
        elif kind == 'settleAll':
            seen_settle = True
        elif kind == 'propagate':
            if not seen_prop:
                seen_prop = True
                for w, npre, v, nset in prepared.values():
                    if nset == 0:
                        viol('prepared_not_settled', dict(when='before_propagate'), 'cycle %d: %s was prepared (%r) but not settled before propagation' % (cyc, hooks._path(w), v))
        elif kind == 'cycle_end':
            in_cycle = False
            run.ev()
            stats['cycles_judged'] = stats.get('cycles_judged', 0) + 1
            if old is None:
                stats['pending_unobservable'] = stats.get('pending_unobservable', 0) + 1
            elif old != 0:
                viol('prepared_not_empty', dict(when='cycle_end'), 'cycle %d: Wire.prepared still holds %d wires at the end of the cycle' % (cyc, old), 0, old)
            for w, npre, v, nset in prepared.values():
                if nset == 0:
                    viol('prepared_not_settled', dict(when='cycle_end'), 'cycle %d: %s was prepared (%r) and never settled in this cycle' % (cyc, hooks._path(w), v))
                elif npre == 1 and nset != 1:
                    viol('settle_count', dict(settles=min(nset, 3)), 'cycle %d: %s prepared once, settled %d times' % (cyc, hooks._path(w), nset), 1, nset)
                if npre > 1:
                    stats['double_prepare'] = stats.get('double_prepare', 0) + 1
    return nviol


# --------------------------------------------------------------------------- Monitor 2: schedule independence

def schedules(drivers, rnd, cap):
    """all (or `cap` sampled) combinations of a permutation per clockables list and a permutation of the driver order;
    the first one is the identity."""
    names = list(drivers)
    total = math.factorial(len(names))
    for n in names:
        total *= math.factorial(drivers[n])
    ident = dict(drivers=names, clockables={n: list(range(drivers[n])) for n in names})
    if total <= cap:
        out = []
        per = [list(itertools.permutations(range(drivers[n]))) for n in names]
        for dorder in itertools.permutations(names):
            for combo in itertools.product(*per):
                out.append(dict(drivers=list(dorder), clockables={n: list(c) for n, c in zip(names, combo)}))
        return out, total
    out = [ident, dict(drivers=list(reversed(names)), clockables={n: list(reversed(range(drivers[n]))) for n in names})]
    seen = {stable_hash(x) for x in out}
    tries = 0
    while len(out) < cap and tries < 10 * cap:
        tries += 1
        d = list(names)
        rnd.shuffle(d)
        c = {}
        for n in names:
            p = list(range(drivers[n]))
            rnd.shuffle(p)
            c[n] = p
        s = dict(drivers=d, clockables=c)
        h = stable_hash(s)
        if h not in seen:
            seen.add(h)
            out.append(s)
    return out, total


def first_diff(a, b):
    """a, b: trajectories [(wires, state)]; returns (step, 'wires'|'state', key, va, vb) or None"""
    for t, ((wa, sa), (wb, sb)) in enumerate(zip(a, b)):
        if wa != wb:
            k = sorted(x for x in set(wa) | set(wb) if wa.get(x) != wb.get(x))[0]
            return (t, 'wires', k, wa.get(k), wb.get(k))
        if sa != sb:
            k = sorted(x for x in set(sa) | set(sb) if sa.get(x) != sb.get(x))[0]
            return (t, 'state', k, sa.get(k), sb.get(k))
    if len(a) != len(b):
        return (min(len(a), len(b)), 'length', None, len(a), len(b))
    return None


def make_hist(plan, rnd, T):
    ws = {w['id']: w['w'] for w in plan['wires']}
    hist = []
    cur = {i: rnd.getrandbits(ws[i]) for i in plan['inputs']}
    for _ in range(T):
        for i in plan['inputs']:
            # control-like 1-bit inputs toggle less often so that FSMs make progress
            if rnd.random() < (0.35 if ws[i] == 1 else 0.7):
                cur[i] = rnd.getrandbits(ws[i])
        hist.append(dict(cur))
    return hist


def check_design(run, plan, rnd, T, cap, stats, meta, trace_every=7):
    ph = netgen.plan_hash(plan)
    hist = make_hist(plan, rnd, T)
    base_case = dict(plan=plan, hist=hist, meta=meta)
    ident = simulate(plan, hist, trace=True)
    if ident['error']:
        run.violation('design_does_not_simulate', dict(shape=plan.get('shape')), dict(base_case, mode='trace', sched=None), observed=ident['error'],
                      what='design raises: %s' % ident['error'])
        return
    stats['designs'] = stats.get('designs', 0) + 1
    stats['events_seen'] = stats.get('events_seen', 0) + len(ident['events'])
    check_trace(run, ident['events'], dict(base_case, mode='trace', sched=None), stats)
    fs = stats.setdefault('fsm_states', {})
    for _, st in ident['traj']:
        for path, d in st.items():
            if 'state' in d and isinstance(d['state'], int):
                k = '%s:%d' % (path.rsplit('/', 1)[-1].split('[')[0], d['state'])
                fs[k] = fs.get(k, 0) + 1
    _after_call_checks(run, ident, len(hist), dict(base_case, mode='trace', sched=None), stats)
    drivers = ident['drivers']
    ncl = sum(drivers.values())
    if ncl > 12:
        cap = max(12, cap // 8)       # big designs: sampled schedules (identity, reverse, random)
    elif ncl > 6:
        cap = max(24, cap // 3)
    scheds, total = schedules(drivers, rnd, cap)
    stats['schedules_total_space'] = stats.get('schedules_total_space', 0) + total
    if len(drivers) > 1:
        stats['multi_driver_designs'] = stats.get('multi_driver_designs', 0) + 1
    if any((s.get('clock') or {}).get('freq') not in (None, 50E6) for s in plan.get('scopes', [])):
        stats['designs_with_different_freqs'] = stats.get('designs_with_different_freqs', 0) + 1
    # Monitor 2
    for k, s in enumerate(scheds[1:], 1):
        if run.too_many:
            break
        tr = (k % trace_every == 1)
        r = simulate(plan, hist, sched=s, trace=tr)
        case = dict(base_case, mode='schedule', sched=s)
        stats['schedules_run'] = stats.get('schedules_run', 0) + 1
        if r['error']:
            run.violation('design_does_not_simulate', dict(shape=plan.get('shape')), case, observed=r['error'], what='permuted design raises: %s' % r['error'])
            continue
        if tr:
            stats['events_seen'] = stats.get('events_seen', 0) + len(r['events'])
            check_trace(run, r['events'], dict(case, mode='trace'), stats)
        _after_call_checks(run, r, len(hist), case, stats)
        d = first_diff(ident['traj'], r['traj'])
        run.ev(len(r['traj']))
        stats['edges_compared'] = stats.get('edges_compared', 0) + len(r['traj'])
        if d is not None:
            perm = 'drivers' if s['drivers'] != scheds[0]['drivers'] and all(v == sorted(v) for v in s['clockables'].values()) else 'clockables'
            run.violation('schedule_dependent', dict(differs=d[1], perm=perm), case, expected=d[3], observed=d[4],
                          what='after edge %d %s %s = %r under the identity order but %r under schedule %s' % (d[0] + 1, d[1], d[2], d[3], d[4], s))
    # non-triviality: would an immediate-write register make this design order dependent?
    twin_scheds = scheds[:1] + scheds[1:][:11]
    twin_ref = None
    sensitive = False
    for s in twin_scheds:
        r = simulate(plan, hist, sched=s, subst={'Reg': netgen.classes()['PutReg']})
        if r['error']:
            break
        if twin_ref is None:
            twin_ref = r['traj']
        elif first_diff(twin_ref, r['traj']) is not None:
            sensitive = True
            break
    hooks.drop_pending()      # the twin never prepares registers; leave no residue whatever happened
    if sensitive:
        run.nt(ph)
        stats['order_sensitive_designs'] = stats.get('order_sensitive_designs', 0) + 1
    else:
        stats['order_insensitive_designs'] = stats.get('order_insensitive_designs', 0) + 1
    # Monitor 3
    check_splitting(run, plan, hist, rnd, ident, stats, meta)
    # Monitor 4
    check_domains(run, plan, hist, rnd, stats, meta)
    # Monitor 6
    if plan.get('shape') == 'phased_domains':
        check_phases(run, plan, hist, ident, stats, meta)
    # Monitor 5
    check_runctl(run, plan, stop_script(plan, rnd), stats, meta)
    if stats['designs'] in (1, 5, 20, 60):
        run.sample(dict(shape=plan.get('shape'), blocks=[(b['id'], b.get('entry', b['kind'])) for b in plan['blocks']], drivers=drivers,
                        schedules_run=len(scheds), schedule_space=total, cycles=len(hist), order_sensitive_with_PutReg=sensitive))


def _after_call_checks(run, r, n_expected, case, stats):
    run.ev()
    if r['prepared_at_construction']:
        run.violation('prepared_not_empty', dict(when='construction'), case, expected=0, observed=r['prepared_at_construction'],
                      what='Wire.prepared holds %d wires after getSimulator()' % r['prepared_at_construction'])
    bad = [k for k, n in enumerate(r['prepared']) if n]
    if bad:
        run.violation('prepared_not_empty', dict(when='after_clk'), case, expected=0, observed=r['prepared'][bad[0]],
                      what='Wire.prepared holds %d wires after clk() call %d' % (r['prepared'][bad[0]], bad[0]))
        hooks.drop_pending()
    if r['total'] and r['total'][-1] != n_expected:
        run.violation('total_clks', dict(relation='less' if r['total'][-1] < n_expected else 'more'), case, expected=n_expected, observed=r['total'][-1],
                      what='total_clks is %d after %d requested cycles' % (r['total'][-1], n_expected))


# --------------------------------------------------------------------------- Monitor 4: clock domains follow the design

def driver_actions(plan, rnd, n):
    """two or three clockDriver changes (attach / replace / remove) at call boundaries of an n-cycle run"""
    ws = {w['id']: w['w'] for w in plan['wires']}
    one = [i for i in plan['inputs'] if ws[i] == 1] or [w['id'] for w in plan['wires'] if w['w'] == 1 and not w.get('bidir')]
    targets = [['scope', s['path']] for s in plan.get('scopes', [])]
    targets += [['block', x['id']] for x in plan['blocks'] if x['seq']]
    if not targets or n < 4:
        return {}
    acts = {}
    times = sorted(rnd.sample(range(1, n), min(n - 1, rnd.randint(2, 3))))
    tgt = rnd.choice(targets)
    has = any(s['path'] == tgt[1] and s.get('clock') for s in plan.get('scopes', [])) if tgt[0] == 'scope' else False
    for k, t in enumerate(times):
        if not has:
            op = 'attach'
        else:
            op = rnd.choice(['replace', 'remove', 'replace'])
        en = rnd.choice(one) if one and rnd.random() < 0.85 else None
        acts[t] = dict(op=op, target=tgt, enable=en, name='ckX%d' % k, freq=rnd.choice([None, 25E6, 12.5E6, 1E6]))
        has = op != 'remove'
        if rnd.random() < 0.3:
            tgt = rnd.choice(targets)
            has = any(s['path'] == tgt[1] and s.get('clock') for s in plan.get('scopes', [])) if tgt[0] == 'scope' else False
    return acts


def judge_captures_and_purity(run, plan, r, case, stats):
    """StreamCapture.data = the pre-edge values of its wire, one per clocked edge of its domain (what a Reg on the same wire
    samples); lists the caller handed to Sequence blocks are the caller's: unchanged after the run."""
    for l, exp in (r.get('caps') or {}).values():
        stats['stream_captures_judged'] = stats.get('stream_captures_judged', 0) + 1
        run.ev(len(exp))
        got = list(l.data)
        if type(l).__name__ == 'StreamCapture' and got != exp:
            k = next((i for i, (a, b_) in enumerate(zip(got, exp)) if a != b_), min(len(got), len(exp)))
            run.violation('capture_differs_from_pre_edge_values', dict(relation='count' if len(got) != len(exp) else 'value'), case,
                          expected=exp[:12], observed=got[:12],
                          what='%s recorded %r, the pre-edge values of its wire at its %d clocked edges were %r (first difference at sample %d)' % (
                              l.getFullPath(), got[:8], len(exp), exp[:8], k))
    b = r.get('built')
    if b is not None:
        for x in plan['blocks']:
            if x['kind'] == 'Sequence' and x['id'] in b.B:
                stats['sequence_lists_checked'] = stats.get('sequence_lists_checked', 0) + 1
                run.ev()
                now = list(getattr(b.B[x['id']], 'values', []))
                if now != list(x['params']['values']):
                    run.violation('caller_list_modified', dict(shared=bool(x['params'].get('shared')), once=bool(x['params'].get('once'))), case,
                                  expected=x['params']['values'], observed=now,
                                  what='the list handed to Sequence %s was %r, after the run it is %r' % (x['id'], x['params']['values'], now))
                    break


def check_domains(run, plan, hist, rnd, stats, meta):
    n = len(hist)
    acts = driver_actions(plan, rnd, n)
    calls = [(1, hist[t], acts.get(t)) for t in range(n)]
    r = simulate(plan, hist, calls=calls, trace=True, domains=True)
    case = dict(plan=plan, hist=hist, meta=meta, mode='domains', calls=[[c[0], c[1], c[2]] for c in calls])
    if r['error']:
        run.violation('design_does_not_simulate', dict(shape=plan.get('shape'), mode='domains'), case, observed=r['error'], what='run with clockDriver changes raises: %s' % r['error'])
        return
    stats['driver_changes'] = stats.get('driver_changes', 0) + r['driver_changes']
    stats['domain_cycles_checked'] = stats.get('domain_cycles_checked', 0) + r['domain_cycles']
    stats['cycles_with_a_gated_sequential_leaf'] = stats.get('cycles_with_a_gated_sequential_leaf', 0) + r['gated_leaf_cycles']
    run.ev(r['domain_cycles'])
    check_trace(run, r['events'], dict(case, mode='domains'), stats)
    judge_captures_and_purity(run, plan, r, case, stats)
    for bad in r['domain_bad'][:2]:
        rel = 'clocked_although_gated' if bad['clocked_although_gated'] else 'not_clocked_although_enabled'
        run.violation('clocked_set_differs', dict(relation=rel, after_driver_change=bad['after_driver_change']), dict(case, observed=bad),
                      expected='exactly the sequential leaves whose clock driver is enabled', observed=bad,
                      what='cycle %d: %s %s%s' % (bad['cycle'], rel, (bad[rel] or [''])[0], ' (after a clockDriver change + getSimulator())' if bad['after_driver_change'] else ''))


# --------------------------------------------------------------------------- Monitor 5: run control (Simulator.stop) inside histories

STOP_CLASSES = ('first', 'middle', 'last', 'last_n1', 'beyond', 'every', 'idle', 'idle_twice', 'last_and_idle', 'none')


class _Stopper:
    """breakpoint-style listener: counts the edges it is told about and calls sim.stop() at the chosen positions of the
    running clk() call (1 = after the first cycle of the call)"""
    def __init__(self):
        self.sim = None
        self.k = 0
        self.stop_at = ()
        self.stops = 0

    def simulatorUpdated(self):
        self.k += 1
        if self.k in self.stop_at:
            self.stops += 1
            self.sim.stop()


def stop_script(plan, rnd):
    """a history of clk() calls in which sim.stop() is requested at every kind of position: by a listener after the first /
    a middle / the LAST cycle of a clk(n) call, at a position the call never reaches, after every cycle, and from outside while
    no call is running; every such call is followed by stop-free calls clk(0) / clk(1) / clk(2..5).
    call = dict(n, vals, stop_at=[positions], idle_stops=k (sim.stop() calls made just before this call), cls)"""
    ws = {w['id']: w['w'] for w in plan['wires']}

    def vals():
        return {i: rnd.getrandbits(ws[i]) for i in plan['inputs']}
    order = list(STOP_CLASSES)
    rnd.shuffle(order)
    calls = [dict(n=rnd.randint(1, 3), vals=vals(), stop_at=[], idle_stops=0, cls='none')]
    for cls in order:
        n = rnd.randint(3, 6)
        idle = 0
        if cls == 'first':
            st = [1]
        elif cls == 'middle':
            st = [rnd.randint(2, n - 1)]
        elif cls == 'last':
            st = [n]
        elif cls == 'last_n1':
            n, st = 1, [1]
        elif cls == 'beyond':
            st = [n + rnd.randint(1, 3)]
        elif cls == 'every':
            st = list(range(1, n + 1))
        elif cls == 'idle':
            st, idle = [], 1
        elif cls == 'idle_twice':
            st, idle = [], 2
        elif cls == 'last_and_idle':
            st, idle = [n], 1
        else:
            st = []
        calls.append(dict(n=n, vals=vals(), stop_at=st, idle_stops=idle, cls=cls))
        f = rnd.random()
        if f < 0.25:
            calls.append(dict(n=0, vals=vals(), stop_at=[], idle_stops=0, cls='none'))
        calls.append(dict(n=1 if 0.25 <= f < 0.45 else rnd.randint(2, 5), vals=vals(), stop_at=[], idle_stops=0, cls='none'))
        if f > 0.7:
            calls.append(dict(n=rnd.randint(1, 4), vals=vals(), stop_at=[], idle_stops=0, cls='none'))
    return calls


def model_edges(call):
    """the unchanged semantics of Simulator.stop(): it ends the RUNNING clk() call after the current cycle; a request made on
    the last cycle of a call or while no call is running has nothing left to end and never affects a later call"""
    hit = [p for p in call['stop_at'] if p <= call['n']]
    return min(hit) if hit else call['n']


def run_script(plan, calls):
    """-> dict(edges=[listener notifications per call], clks=[total_clks advance per call], traj=[(wires, state) after each call], stops, error)"""
    out = dict(edges=[], clks=[], traj=[], stops=0, idle_stops=0, error=None, prepared=[])
    try:
        b = build(plan)
        sim = b.simulator()
        lst = _Stopper()
        lst.sim = sim
        sim.addListener(lst)
        for c in calls:
            for _ in range(c.get('idle_stops', 0)):
                sim.stop()              # e.g. the stop button of a GUI while nothing runs
                out['idle_stops'] += 1
            b.poke(c['vals'])
            lst.k = 0
            lst.stop_at = tuple(c['stop_at'])
            t0 = sim.total_clks
            with muted():
                sim.clk(c['n'])
            lst.stop_at = ()
            out['edges'].append(lst.k)
            out['clks'].append(sim.total_clks - t0)
            out['traj'].append((netgen.wire_values(b.hw), netgen.leaf_state(b.hw)))
            out['prepared'].append(hooks.pending_count())
        out['stops'] = lst.stops
    except Exception as e:
        out['error'] = repr(e)[:300]
    return out


def pending_class(calls, j):
    """what kind of stop request (if any) was made since the last cycle that could honour it, before call j starts"""
    if calls[j].get('idle_stops'):
        return 'idle'
    if j > 0:
        p = calls[j - 1]
        if p['stop_at'] and model_edges(p) == p['n'] and p['n'] in p['stop_at']:
            return 'last_cycle'
        if p['stop_at'] and model_edges(p) < p['n']:
            return 'honoured_mid_call'
        if p.get('idle_stops') and p['n'] == 0:
            return 'idle'
    return 'none'


def check_runctl(run, plan, calls, stats, meta):
    case = dict(plan=plan, hist=[], meta=meta, mode='runctl', calls=calls)
    r = run_script(plan, calls)
    if r['error']:
        run.violation('design_does_not_simulate', dict(shape=plan.get('shape'), mode='runctl'), case, observed=r['error'], what='run with stop() requests raises: %s' % r['error'])
        return
    exp = [model_edges(c) for c in calls]
    # reference: the same edges as single-cycle calls on a simulator that has no listener and never sees stop()
    hist_ref = []
    for c, e in zip(calls, exp):
        hist_ref += [c['vals']] * e
    ref = simulate(plan, hist_ref)
    if ref['error']:
        run.violation('design_does_not_simulate', dict(shape=plan.get('shape'), mode='runctl_ref'), case, observed=ref['error'], what=ref['error'])
        return
    stats['runctl_scripts'] = stats.get('runctl_scripts', 0) + 1
    stats['stop_requests_by_listener'] = stats.get('stop_requests_by_listener', 0) + r['stops']
    stats['stop_requests_while_idle'] = stats.get('stop_requests_while_idle', 0) + r['idle_stops']
    by = stats.setdefault('runctl_calls_by_class', {})
    pend = stats.setdefault('runctl_calls_by_pending_stop', {})
    if any(r['prepared']):
        run.violation('prepared_not_empty', dict(when='after_stopped_clk'), case, expected=0, observed=max(r['prepared']), what='Wire.prepared not empty after a clk() call ended by stop()')
        hooks.drop_pending()
    E = 0
    for j, c in enumerate(calls):
        by[c['cls']] = by.get(c['cls'], 0) + 1
        pc = pending_class(calls, j)
        pend[pc] = pend.get(pc, 0) + 1
        if pc != 'none' and c['n'] > 0:
            stats['runctl_calls_after_unhonoured_stop' if pc in ('idle', 'last_cycle') else 'runctl_calls_after_honoured_stop'] = stats.get(
                'runctl_calls_after_unhonoured_stop' if pc in ('idle', 'last_cycle') else 'runctl_calls_after_honoured_stop', 0) + 1
        run.ev()
        stats['runctl_edge_counts_compared'] = stats.get('runctl_edge_counts_compared', 0) + 1
        got = r['edges'][j]
        if got != exp[j] or r['clks'][j] != exp[j]:
            obs = got if got != exp[j] else r['clks'][j]
            run.violation('edges_performed', dict(relation='less' if obs < exp[j] else 'more', pending_stop=pc, stop_in_call=c['cls'],
                                                  counter='listener' if got != exp[j] else 'total_clks'), dict(case, call=j),
                          expected=exp[j], observed=obs,
                          what='call %d = clk(%d) with stop() requested at cycles %s of the call (pending request before the call: %s) performed %d edges '
                               '(total_clks advanced by %d), expected %d' % (j, c['n'], c['stop_at'], pc, got, r['clks'][j], exp[j]))
            return
        E += exp[j]
        if exp[j] >= 1:
            run.ev()
            stats['runctl_states_compared'] = stats.get('runctl_states_compared', 0) + 1
            d = first_diff([ref['traj'][E - 1]], [r['traj'][j]])
            if d is not None:
                run.violation('split_dependent', dict(composition='with_stop_requests', differs=d[1], pending_stop=pc), dict(case, call=j), expected=d[3], observed=d[4],
                              what='after call %d (%d edges so far) %s %s = %r with single-cycle calls and no stop(), %r in the history with stop() requests' % (
                                  j, E, d[1], d[2], d[3], d[4]))
                return
    # the literal clause: the same history with every stop-free clk(n) replaced by n x clk(1)
    singles, owner = [], []
    for j, c in enumerate(calls):
        if not c['stop_at'] and c['n'] > 1:
            for k in range(c['n']):
                singles.append(dict(c, n=1, idle_stops=c.get('idle_stops', 0) if k == 0 else 0))
                owner.append(j)
        else:
            singles.append(c)
            owner.append(j)
    r1 = run_script(plan, singles)
    case1 = dict(case, singles=True)
    if r1['error']:
        run.violation('design_does_not_simulate', dict(shape=plan.get('shape'), mode='runctl_singles'), case1, observed=r1['error'], what=r1['error'])
        return
    for j, c in enumerate(calls):
        ks = [k for k, o in enumerate(owner) if o == j]
        run.ev()
        stats['runctl_n_vs_singles_compared'] = stats.get('runctl_n_vs_singles_compared', 0) + 1
        e1 = sum(r1['edges'][k] for k in ks)
        pc = pending_class(calls, j)
        d = first_diff([r['traj'][j]], [r1['traj'][ks[-1]]])
        if e1 != r['edges'][j] or d is not None:
            run.violation('split_dependent', dict(composition='n_vs_singles_after_stop', differs='edges' if e1 != r['edges'][j] else d[1], pending_stop=pc), dict(case1, call=j),
                          expected=e1 if e1 != r['edges'][j] else d[3], observed=r['edges'][j] if e1 != r['edges'][j] else d[4],
                          what='call %d: clk(%d) performed %d edges, %d x clk(1) performed %d (pending stop request before the call: %s)%s' % (
                              j, c['n'], r['edges'][j], len(ks), e1, pc, '' if d is None else '; %s %s = %r vs %r' % (d[1], d[2], d[4], d[3])))
            return


# --------------------------------------------------------------------------- Monitor 3: splitting

def compositions(n, bounds, rnd):
    """bounds: sorted shared boundaries 0 = b0 < b1 < ... < bk = n.  Returns {name: [call boundaries]}"""
    single = list(range(n + 1))
    coarse = list(bounds)
    rand = set(bounds)
    for t in range(1, n):
        if rnd.random() < 0.3:
            rand.add(t)
    # clk(0) is a legal call that advances nothing: zero-length calls are repeated boundaries
    zeros = []
    for t in coarse:
        zeros += [t] * rnd.randint(1, 3)
    rz = sorted(rand)
    for _ in range(rnd.randint(1, 3)):
        rz.append(rnd.choice(rz))
    return dict(single=single, coarse=coarse, random=sorted(rz), zeros=zeros, refetch=sorted(rand))


def check_splitting(run, plan, hist, rnd, ident, stats, meta):
    n = len(hist)
    # inputs only change at the shared boundaries
    inner = sorted(rnd.sample(range(1, n), min(n - 1, rnd.randint(0, 3)))) if n > 1 else []
    bounds = [0] + inner + [n]
    held = {}
    hist2 = []
    for t in range(n):
        if t in bounds:
            held = hist[t]
        hist2.append(dict(held))
    comps = compositions(n, bounds, rnd)
    res = {}
    for name, bl in comps.items():
        calls = [(bl[k + 1] - bl[k], hist2[min(bl[k], n - 1)]) + ((dict(op='refetch'),) if name == 'refetch' else ()) for k in range(len(bl) - 1)]
        stats['zero_length_calls'] = stats.get('zero_length_calls', 0) + sum(1 for c in calls if c[0] == 0)
        r = simulate(plan, hist2, calls=calls)
        case = dict(plan=plan, hist=hist2, meta=meta, mode='split', bounds=bounds, calls=[list(c) for c in calls], composition=name)
        stats['refetch_calls'] = stats.get('refetch_calls', 0) + sum(1 for c in calls if len(c) > 2)
        stats['split_runs'] = stats.get('split_runs', 0) + 1
        if r['error']:
            run.violation('design_does_not_simulate', dict(shape=plan.get('shape')), case, observed=r['error'], what='split run raises: %s' % r['error'])
            return
        _after_call_checks(run, r, n, case, stats)
        at = {}
        for k in range(len(bl) - 1):
            if bl[k + 1] > bl[k]:
                # state reached by a call that advanced time; a zero-length call at a shared boundary runs after the NEW
                # inputs were poked, which the single-cycle reference has not seen yet at that boundary
                at[bl[k + 1]] = r['traj'][k]
        res[name] = (at, r['total'][-1] if r['total'] else None, case)
    ref = res['single']
    for name in ('coarse', 'random', 'zeros', 'refetch'):
        at, total, case = res[name]
        for t in bounds[1:]:
            run.ev()
            stats['split_points_compared'] = stats.get('split_points_compared', 0) + 1
            d = first_diff([ref[0][t]], [at[t]])
            if d is not None:
                run.violation('split_dependent', dict(composition=name, differs=d[1]), case, expected=d[3], observed=d[4],
                              what='after %d cycles %s %s = %r with single-cycle calls but %r with calls %s' % (t, d[1], d[2], d[3], d[4], [c[0] for c in case['calls']]))
                break


# --------------------------------------------------------------------------- workload

def run_check(run, tier, seed, shard):
    run.assume('"exactly one settle" is required when a wire was prepared once in the cycle; a wire prepared twice (the library prints a warning and '
               'queues it twice) must end with the LAST prepared value and at least one settle')
    run.assume('leaf state = integer / string / list-of-scalar attributes of every leaf object (Reg.value, memory contents, FSM state and counters)')
    run.assume('inputs are harness-poked undriven wires; within one clk(n) call they are constant, so splittings are compared with inputs changing only at shared call boundaries')
    run.assume('Simulator.stop() ends the RUNNING clk() call after the cycle in which it is requested (the listener is notified at the end of a cycle); a request made '
               'on the last cycle of a call, or while no call is running, has nothing left to end and is not carried over: every clk(n) call starts afresh '
               '(the unchanged clk() re-arms its run flag on entry). So clk(n) after any history containing stop() requests performs n edges, like n x clk(1)')
    run.assume('ClockDriver.phaseOffset does not split the simulated cycle: clock drivers of equal frequency that differ in phaseOffset are all clocked on the '
               'one edge of clk(1), every block sees pre-edge values (the unchanged Simulator._clk_cycle never reads phaseOffset; the property speaks of "each simulated clock edge" '
               'with all prepared updates visible together). Checked per design: the trajectory equals that of the same design with every phaseOffset 0')
    quick = tier == 'quick'
    stats = {}
    n_designs = 286 if quick else 9900
    cap = 120 if quick else 500
    budget = 400 if quick else 2400
    t0 = time.time()
    shapes = netgen.SEQ_SHAPES + ('phased_domains',)
    for i in shard_slice(range(n_designs), shard):
        if time.time() - t0 > budget or run.too_many:
            stats['designs_skipped_time'] = stats.get('designs_skipped_time', 0) + 1
            continue
        rnd = rng(seed, 'C05', i)
        shape = shapes[i % len(shapes)]
        n_seq = 2 + (i // len(shapes)) % 6
        if quick and n_seq > 5 and i % 3:
            n_seq = rnd.randint(2, 5)
        plan = gen_phased(rnd, n_seq) if shape == 'phased_domains' else netgen.gen_seq(rnd, n_seq, shape)
        T = rnd.randint(10, 18) if quick else rnd.randint(12, 32)
        by = stats.setdefault('by_shape', {})
        by[shape] = by.get(shape, 0) + 1
        check_design(run, plan, rnd, T, cap if n_seq <= 5 or not quick else 40, stats, dict(index=i, shape=shape, n_seq=n_seq))
    by = stats.pop('by_shape', {})
    run.extra['designs_by_shape'] = by
    run.extra['fsm_states_visited'] = stats.pop('fsm_states', {})
    run.extra['runctl_calls_by_stop_class'] = stats.pop('runctl_calls_by_class', {})
    run.extra['runctl_calls_by_pending_stop'] = stats.pop('runctl_calls_by_pending_stop', {})
    for k, v in stats.items():
        run.count(k, v)
    if shard is None:
        post_merge(run, tier, seed)


def post_merge(run, tier, seed):
    c = run.counters
    for k, why in (('cycles_judged', 'trace monitor judged no clock cycle'), ('settle_events', 'no settle event was observed'),
                   ('prepare_events', 'no prepare event was observed'), ('edges_compared', 'schedule monitor compared no edge'),
                   ('split_points_compared', 'splitting monitor compared nothing'), ('zero_length_calls', 'no clk(0) call in the splittings'), ('refetch_calls', 'no splitting fetched the simulator again between calls'), ('stream_captures_judged', 'no StreamCapture was judged'),
                   ('sequence_lists_checked', 'no Sequence data list was checked after a run'),
                   ('designs_with_different_freqs', 'no design with clock drivers of different frequencies'),
                   ('driver_changes', 'no clockDriver was changed on a live design'), ('cycles_with_a_gated_sequential_leaf', 'no cycle with a gated-off sequential leaf was judged'), ('multi_driver_designs', 'no design with two clock drivers was run'),
                   ('phased_designs_ungated', 'no ungated design with clock drivers of different phaseOffset'), ('phased_designs_gated', 'no gated design with clock drivers of different phaseOffset'),
                   ('phased_designs_3_domains', 'no design with three clock domains of different phaseOffset'), ('phased_edges_with_several_wires_changing', 'no edge at which registers of differently phased domains exchanged changing data'),
                   ('stop_requests_by_listener', 'no listener requested stop() during a clk() call'), ('stop_requests_while_idle', 'stop() was never requested between calls'),
                   ('runctl_calls_after_unhonoured_stop', 'no clk(n>0) call followed a stop() request made on the last cycle of a call or while idle'),
                   ('runctl_calls_after_honoured_stop', 'no clk(n>0) call followed a call that was ended early by stop()'),
                   ('runctl_states_compared', 'run-control monitor compared no state'), ('runctl_n_vs_singles_compared', 'run-control monitor compared no clk(n) with n x clk(1)')):
        if not c.get(k):
            run.inconclusive.append(why)
    if c.get('designs_skipped_time'):
        run.inconclusive.append('watchdog: %d designs skipped' % c['designs_skipped_time'])


def replay(run, case):
    c = netgen.dehex(case['case'])
    plan = c['plan']
    hist = c['hist']
    stats = {}
    mode = c.get('mode', 'schedule')
    n0 = len(run.violations)
    if mode == 'domains':
        calls = [(x[0], x[1], x[2]) for x in c['calls']]
        r = simulate(plan, hist, calls=calls, trace=True, domains=True)
        check_trace(run, r['events'] or [], c, stats)
        for bad in r['domain_bad'][:2]:
            rel = 'clocked_although_gated' if bad['clocked_although_gated'] else 'not_clocked_although_enabled'
            run.violation('clocked_set_differs', dict(relation=rel, after_driver_change=bad['after_driver_change']), c, observed=bad,
                          what='cycle %d: %s %s' % (bad['cycle'], rel, (bad[rel] or [''])[0]))
        if r['error']:
            run.violation('design_does_not_simulate', dict(mode='domains'), c, observed=r['error'], what=r['error'])
    elif mode == 'phase':
        ident = simulate(plan, hist, trace=True)
        check_trace(run, ident['events'] or [], c, stats)
        check_phases(run, plan, hist, ident, stats, c.get('meta', {}))
    elif mode == 'runctl':
        check_runctl(run, plan, c['calls'], stats, c.get('meta', {}))
    elif mode == 'split':
        calls = [tuple(x) for x in c['calls']]
        n = sum(x[0] for x in calls)
        single = simulate(plan, hist, calls=[(1, hist[t]) for t in range(n)])
        r = simulate(plan, hist, calls=calls)
        _after_call_checks(run, r, n, c, stats)
        _after_call_checks(run, single, n, c, stats)
        t = 0
        for k, (m, *_) in enumerate(calls):
            t += m
            if not r['error'] and not single['error'] and len(single['traj']) >= t:
                d = first_diff([single['traj'][t - 1]], [r['traj'][k]])
                if d is not None:
                    run.violation('split_dependent', dict(composition=c.get('composition'), differs=d[1]), c, expected=d[3], observed=d[4],
                                  what='after %d cycles %s %s differs: %r vs %r' % (t, d[1], d[2], d[3], d[4]))
                    break
    else:
        ident = simulate(plan, hist, trace=True)
        check_trace(run, ident['events'] or [], c, stats)
        _after_call_checks(run, ident, len(hist), c, stats)
        if c.get('sched'):
            r = simulate(plan, hist, sched=c['sched'], trace=True)
            check_trace(run, r['events'] or [], c, stats)
            _after_call_checks(run, r, len(hist), c, stats)
            d = first_diff(ident['traj'], r['traj'])
            if d is not None:
                run.violation('schedule_dependent', dict(differs=d[1]), c, expected=d[3], observed=d[4],
                              what='after edge %d %s %s = %r (identity) vs %r (schedule)' % (d[0] + 1, d[1], d[2], d[3], d[4]))
    for v in run.violations:
        print('replay:', v['key'], v['what'][:300])
    print('replay: counters', stats)
    bad = len(run.violations) > n0
    if bad:
        print('VIOLATION property=C05 replay=replayed')
    return 1 if bad else 0
