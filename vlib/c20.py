"""C20 -- the HIL UART command codec decodes and encodes exactly (DESIGN.md section C20).

Two real blocks from py4hw/emulation/HILWrapperUART.py, each under its own recorded environment:

CMDRequest   a producer feeds generated well-formed command streams character by character over ready/valid with
             random valid gaps (garbage on c while valid is low).  Every cycle (after settling, before the edge) the
             harness records valid ready c, the five strobes and the three number wires.  The oracle cuts the recording
             at the cycles where characters were consumed (valid & ready):
               body of command j  = (first character consumed, terminator consumed]   -> every strobe low
               window of command j = (terminator consumed, first character of command j+1 consumed]  (or end of trace)
                   'I<hex>='  set_index_in: exactly one contiguous pulse, index_in == n mod 2**w on every cycle of it
                   '<hex>!'   set_v_in / v_in likewise
                   'O<hex>?'  set_index_out / index_out likewise, then (strictly after it fell) one start_resp pulse
                   'K<hex>;'  clk_pulse: exactly n rising edges
                   every other strobe stays low in the window, and all five are low again at its last cycle.
CMDResponse  wired as in the wrapper (vin 32 bits, size 8 bits = number of hex digits, start_resp, ready, valid, v).
             For (value, digit count, oblivious ready schedule) a one-cycle start_resp is given; the characters seen at
             valid & ready cycles must be exactly '=', the value as `count` upper-case hex digits MSB first, '!', nothing
             else is handshaken before the next start, and the '!' is taken within (count+2)*2*(G+1)+4 cycles (G = longest
             not-ready run; each character needs ready to be seen twice by the block).
"""
import time

from .common import muted, rng, shard_slice, mask

LEVEL = 'exploration'
RULE = ('request: generated streams of well-formed commands (I<hex>=, <hex>!, O<hex>?, K<hex>; with 1-8 upper-case digits incl. '
        'leading zeros, K counts 0-40, optional newline separators as the library\'s own proxy sends) x number-wire widths x '
        'oblivious producer valid gaps (short gaps everywhere, plus one pause of 2**8 .. 2**17 (thorough 2**20) cycles at every '
        'position of a command, in quick also 2**18 and 2**19 at the positions inside a command); response: (value, digit count, ready schedule) triples run back to back on one instance, plus '
        'one not-ready run of the same lengths before every character of a response. '
        'An evaluation is one command judged over its window or one response judged over its handshakes; a non-trivial '
        'distinct case is (command kind, digit count, number, wire widths, preceding command kind) resp. (value, count, ready '
        'mode, max gap) -- all are non-trivial (each moves a strobe or emits characters); distinct by content')
SHARDS = {'quick': 1, 'thorough': 16}
TIMEOUT = {'quick': 600, 'thorough': 3000}
MIN_NONTRIVIAL = {'quick': 20000, 'thorough': 1000000}

STROBES = ('set_index_in', 'set_v_in', 'set_index_out', 'start_resp', 'clk_pulse')
VALUE_OF = {'set_index_in': 'index_in', 'set_v_in': 'v_in', 'set_index_out': 'index_out'}
KMAX = 40
WIDTHS = [(8, 32, 8), (1, 32, 1), (3, 32, 2), (4, 16, 5), (2, 8, 3), (8, 32, 8)]   # (index_in, v_in, index_out); the wrapper
                                                                                    # uses ceil(log2(#ports)), 32
REQ_STALL = 2 * 64 + 40          # cycles a character may be offered without being consumed before the run gives up


def garbage(t):
    return (t * 0x6B + 0x2F) & 0xFF


# --------------------------------------------------------------------------------------------- CMDRequest

_SRC = []


def source_class():
    """A clocked ready/valid character source (a py4hw Logic block, so the port is driven from inside the simulated design and
    the simulator decides in which order it and the decoder are clocked).  A character is transferred on an edge where the
    valid it drives and the ready it reads are both 1.  gaps[i] = idle cycles before character i is offered."""
    if _SRC:
        return _SRC[0]
    import py4hw

    class CharSource(py4hw.Logic):
        def __init__(self, parent, name, text, gaps, ready, valid, c):
            super().__init__(parent, name)
            self.ready = self.addIn('ready', ready)
            self.valid = self.addOut('valid', valid)
            self.c = self.addOut('c', c)
            self.text, self.gaps = text, gaps
            self.pos = 0
            self.offering = False
            self.wait = gaps[0] if gaps else 0
            self.t = 0

        def clock(self):
            self.t += 1
            if self.offering and self.ready.get():
                self.offering = False
                self.pos += 1
                self.wait = self.gaps[self.pos] if self.pos < len(self.gaps) else 0
            if self.offering:
                self.valid.prepare(1)
            elif self.pos < len(self.text) and self.wait == 0:
                self.valid.prepare(1)
                self.c.prepare(ord(self.text[self.pos]))
                self.offering = True
            else:
                self.valid.prepare(0)
                self.c.prepare(garbage(self.t))
                if self.wait > 0:
                    self.wait -= 1

    _SRC.append(CharSource)
    return CharSource


def build_req(widths, producer='python', text='', gaps=()):
    import py4hw
    from py4hw.emulation.HILWrapperUART import CMDRequest
    wi, wv, wo = widths
    hw = py4hw.HWSystem()
    s = dict(ready=hw.wire('ready_req'), valid=hw.wire('valid_req'), c=hw.wire('c_req', 8), index_in=hw.wire('index_in', wi),
             v_in=hw.wire('v_in', wv), index_out=hw.wire('index_out', wo), set_index_in=hw.wire('set_index_in'),
             set_v_in=hw.wire('set_v_in'), set_index_out=hw.wire('set_index_out'), clk_pulse=hw.wire('clk_pulse'),
             start_resp=hw.wire('start_resp'))
    src = None
    with muted():
        if producer == 'block_before':
            src = source_class()(hw, 'src', text, list(gaps), s['ready'], s['valid'], s['c'])
        CMDRequest(hw, 'cmd_req', s['ready'], s['valid'], s['c'], s['index_in'], s['v_in'], s['index_out'], s['set_index_in'],
                   s['set_v_in'], s['set_index_out'], s['clk_pulse'], s['start_resp'])
        if producer == 'block_after':        # the order createHILUART itself uses: cmd_req before the block that feeds it
            src = source_class()(hw, 'src', text, list(gaps), s['ready'], s['valid'], s['c'])
        sim = hw.getSimulator()
    s['src'] = src
    return hw, sim, s


def cmd_text(cmd):
    kind, nd, val = cmd[0], cmd[1], cmd[2]
    digits = '%0*X' % (nd, val)
    assert len(digits) == nd
    return {'I': 'I' + digits + '=', 'V': digits + '!', 'O': 'O' + digits + '?', 'K': 'K' + digits + ';'}[kind]


def gen_number(rnd, nd):
    top = 16 ** nd
    r = rnd.random()
    if r < 0.15:
        return rnd.choice([0, 1, top - 1, top // 2, top // 16 if nd > 1 else 1, (0xABCDEF09 >> (32 - 4 * nd))])
    if r < 0.3:       # only letters / only decimal digits
        pool = 'ABCDEF' if rnd.random() < 0.5 else '0123456789'
        return int(''.join(rnd.choice(pool) for _ in range(nd)), 16)
    return rnd.randrange(top)


def gen_stream(rnd, ncmd):
    cmds = []
    for _ in range(ncmd):
        kind = rnd.choice('IVOKIVO')
        nd = rnd.choice([1, 1, 2, 2, 3, 4, 5, 6, 7, 8, 8])
        if kind == 'K':
            n = rnd.choice([0, 1, 2, 3, 9, 10, 15, 16, 17, 31, 32, 39, KMAX, rnd.randrange(0, KMAX + 1), rnd.randrange(0, KMAX + 1)])
            if n >= 16:
                nd = max(nd, 2)
            cmds.append(['K', nd, n])
        else:
            cmds.append([kind, nd, gen_number(rnd, nd)])
    return cmds


def stream_text(cmds, sep):
    """the characters, and for each character (command index, role) with role in first/body/term/sep."""
    text, roles = '', []
    for j, c in enumerate(cmds):
        t = cmd_text(c)
        for k, ch in enumerate(t):
            roles.append((j, 'term' if k == len(t) - 1 else ('first' if k == 0 else 'body')))
        text += t
        if sep[j]:
            text += '\n'
            roles.append((j, 'sep'))
    return text, roles


def simulate_req(case):
    widths = tuple(case['widths'])
    cmds = case['cmds']
    text, roles = stream_text(cmds, case['sep'])
    gaps = case['gaps']
    producer = case.get('producer', 'python')
    hw, sim, s = build_req(widths, producer, text, gaps)
    if producer != 'python':
        return _simulate_req_block(case, sim, s, text, roles)
    names = ('valid', 'ready', 'c') + STROBES + ('index_in', 'v_in', 'index_out')
    wires = [s[k] for k in names]
    tr = {k: [] for k in names}
    cols = [tr[k] for k in names]
    valid, c, ready = s['valid'], s['c'], s['ready']
    pos = 0
    gap = gaps[0] if gaps else 0
    offered = None
    tail = 2 * (KMAX + 8) + 16
    stall = None
    t = 0
    last = 0
    with muted():
        while True:
            if pos < len(text) and gap == 0:
                valid.put(1)
                c.put(ord(text[pos]))
                if offered is None:
                    offered = t
            else:
                valid.put(0)
                c.put(garbage(t))
                if gap > 0:
                    gap -= 1
            took = valid.get() & ready.get()
            for col, w in zip(cols, wires):
                col.append(w.get())
            sim.clk(1)
            if took:
                pos += 1
                offered = None
                last = t
                gap = gaps[pos] if pos < len(gaps) else 0
            elif offered is not None and t - offered > REQ_STALL:
                stall = dict(char_index=pos, offered_at=offered, gave_up_at=t)
                break
            t += 1
            if pos >= len(text) and t > last + tail:
                break
    tr['stall'] = stall
    tr['cycles'] = len(tr['valid'])
    tr['text'] = text
    tr['roles'] = roles
    tr['producer_transfers'] = pos
    return tr


def _simulate_req_block(case, sim, s, text, roles):
    """same recording, the port driven by the clocked CharSource inside the design."""
    names = ('valid', 'ready', 'c') + STROBES + ('index_in', 'v_in', 'index_out')
    wires = [s[k] for k in names]
    tr = {k: [] for k in names}
    cols = [tr[k] for k in names]
    src = s['src']
    tail = 2 * (KMAX + 8) + 16
    stall = None
    t = 0
    last, lastpos = 0, 0
    with muted():
        while True:
            for col, w in zip(cols, wires):
                col.append(w.get())
            sim.clk(1)
            if src.pos != lastpos:
                lastpos, last = src.pos, t
            elif src.pos < len(text) and t - last > REQ_STALL + max(case['gaps'] or [0]):
                stall = dict(char_index=src.pos, offered_at=last, gave_up_at=t)
                break
            t += 1
            if src.pos >= len(text) and t > last + tail:
                break
    tr['stall'] = stall
    tr['cycles'] = len(tr['valid'])
    tr['text'] = text
    tr['roles'] = roles
    tr['producer_transfers'] = src.pos
    return tr


def value_relation(exp, got, full, w):
    if got == exp:
        return 'equal'
    if got == (full & 0xF):
        return 'last_digit_only'
    if got == mask(full >> 4, w):
        return 'last_digit_missing'
    return 'other'


def judge_req(tr, case):
    widths = dict(zip(('index_in', 'v_in', 'index_out'), case['widths']))
    cmds = case['cmds']
    text, roles = tr['text'], tr['roles']
    n = tr['cycles']
    valid, ready, cc = tr['valid'], tr['ready'], tr['c']
    findings = []
    obs = dict(commands_judged=0, pulses={k: 0 for k in STROBES}, pulse_len={}, kinds={})
    cons = [t for t in range(n) if valid[t] and ready[t]]
    # ---- both sides of the character port agree on what was transferred: the handshakes visible at the cycle boundaries
    #      (valid & ready before the edge) are the characters of the stream in order, and as many as the producer counted
    seen = ''.join(chr(cc[t]) for t in cons)
    if seen != text[:len(seen)] or len(cons) != tr.get('producer_transfers', len(cons)):
        k = next((i for i in range(min(len(seen), len(text))) if seen[i] != text[i]), min(len(seen), len(text)))
        j = roles[k][0] if k < len(roles) else len(cmds) - 1
        rel = 'characters_skipped' if len(cons) < tr.get('producer_transfers', len(cons)) else 'other'
        findings.append(dict(clause='handshake', kind='port_sides_disagree', relation=rel, index=j, signal='ready', cmd_kind=cmds[j][0],
                             expected=text[max(0, k - 3):k + 3], observed=seen[max(0, k - 3):k + 3],
                             what='the producer transferred %d characters, %d handshakes are visible at the cycle boundaries; first difference '
                                  'at character %d: stream %r, taken by the decoder %r' % (tr.get('producer_transfers', len(cons)), len(cons), k,
                                                                                         text[max(0, k - 3):k + 3], seen[max(0, k - 3):k + 3])))
        return findings, obs
    first, term = {}, {}
    for k, t in enumerate(cons):
        j, role = roles[k]
        if role == 'first':
            first[j] = t
        if role == 'term':
            term[j] = t
    # ---- quiet regions: before the first command and inside bodies
    quiet = [(0, first[0] if 0 in first else n - 1, -1)]
    for j in first:
        quiet.append((first[j] + 1, term[j] if j in term else n - 1, j))
    for a, b, j in quiet:
        for sname in STROBES:
            col = tr[sname]
            hit = next((t for t in range(a, b + 1) if col[t]), None)
            if hit is not None:
                findings.append(dict(clause='quiet', kind='strobe_outside_window', relation='none', index=max(j, 0), signal=sname,
                                     cmd_kind=cmds[max(j, 0)][0], expected=0, observed=1,
                                     what='%s is high at cycle %d, %s' % (sname, hit, 'before the first command' if j < 0 else
                                                                          'inside the body of command %d %r' % (j, cmd_text(cmds[j])))))
                return findings, obs
    # ---- windows
    for j in sorted(term):
        a = term[j] + 1
        b = first[j + 1] if (j + 1) in first else n - 1
        if b < a:
            continue
        kind, nd, val = cmds[j]
        expect = {'I': {'set_index_in': 1}, 'V': {'set_v_in': 1}, 'O': {'set_index_out': 1, 'start_resp': 1}, 'K': {'clk_pulse': val}}[kind]
        obs['commands_judged'] += 1
        obs['kinds'][kind] = obs['kinds'].get(kind, 0) + 1
        spans = {}
        bad = None
        for sname in STROBES:
            col = tr[sname]
            sp = []
            prev = 0           # low at the terminator cycle (quiet check above)
            for t in range(a, b + 1):
                v = col[t]
                if v and not prev:
                    sp.append([t, t])
                elif v:
                    sp[-1][1] = t
                prev = v
            spans[sname] = sp
            want = expect.get(sname, 0)
            obs['pulses'][sname] += len(sp)
            for x, y in sp:
                L = str(y - x + 1)
                obs['pulse_len'][sname + ':' + L] = obs['pulse_len'].get(sname + ':' + L, 0) + 1
            if len(sp) != want and bad is None:
                d = len(sp) - want
                rel = ('missing' if len(sp) == 0 else 'unexpected' if want == 0 else 'plus_1' if d == 1 else 'minus_1' if d == -1 else
                       'more' if d > 0 else 'fewer')
                bad = dict(clause='pulse_count', kind='wrong_number_of_pulses', relation=rel, index=j, signal=sname, cmd_kind=kind,
                           expected=want, observed=len(sp),
                           what='command %d %r: %s shows %d rising edges in its window (cycles %d..%d), expected %d' % (
                               j, cmd_text(cmds[j]), sname, len(sp), a, b, want))
            if col[b] and bad is None and tr['stall'] is None:
                bad = dict(clause='pulse_count', kind='strobe_still_high', relation='stuck', index=j, signal=sname, cmd_kind=kind,
                           expected=0, observed=1, what='command %d %r: %s is still high at the last cycle %d of its window' % (
                               j, cmd_text(cmds[j]), sname, b))
        if bad is None:
            for sname, wname in VALUE_OF.items():
                if not expect.get(sname):
                    continue
                w = widths[wname]
                exp = mask(val, w)
                x, y = spans[sname][0]
                for t in range(x, y + 1):
                    got = tr[wname][t]
                    if got != exp:
                        bad = dict(clause='number', kind='wrong_number', relation=value_relation(exp, got, val, w), index=j, signal=wname,
                                   cmd_kind=kind, expected=exp, observed=got,
                                   what='command %d %r: %s = 0x%X during the %s pulse (cycle %d), expected 0x%X (%d-bit wire)' % (
                                       j, cmd_text(cmds[j]), wname, got, sname, t, exp, w))
                        break
                if bad:
                    break
        if bad is None and kind == 'O':
            if spans['start_resp'][0][0] <= spans['set_index_out'][0][1]:
                bad = dict(clause='order', kind='start_resp_not_after_set_index_out', relation='none', index=j, signal='start_resp',
                           cmd_kind=kind, expected='> %d' % spans['set_index_out'][0][1], observed=spans['start_resp'][0][0],
                           what='command %d %r: start_resp rises at %d, set_index_out high until %d' % (
                               j, cmd_text(cmds[j]), spans['start_resp'][0][0], spans['set_index_out'][0][1]))
        if bad is not None:
            findings.append(bad)
            break
    return findings, obs


def expand_req(k, seed, tier):
    rnd = rng(seed, 'C20', 'req', k)
    ncmd = 12
    cmds = gen_stream(rnd, ncmd)
    sepmode = k % 4 == 3
    sep = [1 if (sepmode and rnd.random() < 0.6) else 0 for _ in cmds]
    text, _ = stream_text(cmds, sep)
    gm = k % 3
    if gm == 0:
        gaps = [0] * len(text)
    elif gm == 1:
        gaps = [rnd.choice([0, 0, 1, 3]) for _ in text]
    else:
        gaps = [rnd.choice([0, 1, 2, 5, rnd.randrange(0, 12)]) for _ in text]
    producer = ['python', 'block_after', 'block_before', 'python', 'block_after', 'block_before', 'python'][k % 7]
    return dict(part='request', widths=list(WIDTHS[k % len(WIDTHS)]), cmds=cmds, sep=sep, gaps=gaps, gap_mode=['none', 'short', 'long'][gm],
                producer=producer)


# long pauses: a geometric family of pause lengths at every position of a command (producer side) / of a response (consumer side)
# (just past a power of two, with slack for the few cycles the blocks spend outside their waiting state per character)
PAUSES = {'quick': [2 ** 8 + 16, 2 ** 10 + 16, 2 ** 12 + 16, 2 ** 14 + 16, 2 ** 16 + 16, 2 ** 17 + 16],
          'thorough': [2 ** 8 + 16, 2 ** 10 + 16, 2 ** 12 + 16, 2 ** 14 + 16, 2 ** 16 - 16, 2 ** 16 + 16, 2 ** 17 + 16, 2 ** 18 + 16, 2 ** 20 + 16]}
PAUSE_POSITIONS = ('after_letter', 'between_digits', 'before_terminator', 'between_commands', 'after_newline')
# deep producer pauses (quick only; thorough has them in the full family above): the next two powers of two, at the positions INSIDE a
# command (where the parser holds a partial command), with the block producers only (the pure-Python producer idles 3-4x slower)
DEEP_PAUSES = {'quick': [2 ** 18 + 16, 2 ** 19 + 16], 'thorough': []}
DEEP_POSITIONS = ('after_letter', 'between_digits', 'before_terminator')


def plan_req_pauses(tier):
    """(pause length, position, command kind hit, variant): short pauses for every kind x position, the expensive ones (> 2**14)
    once per position with the kind rotating (quick) / for every kind (thorough)."""
    out = []
    j = 0
    for L in PAUSES[tier]:
        for pi, pos in enumerate(PAUSE_POSITIONS):
            kinds = 'IVOK' if (L <= 2 ** 13 or tier != 'quick') and L < 2 ** 20 else 'IVOK'[(pi + j) % 4]
            for kind in kinds:
                out.append((L, pos, kind, j))
                j += 1
    for L in DEEP_PAUSES[tier]:
        for pi, pos in enumerate(DEEP_POSITIONS):
            j += 1 if j % 3 else 2              # producer = one of the two block producers (see expand_req_pause)
            out.append((L, pos, 'IVOK'[(pi + j) % 4], j))
    return out


def expand_req_pause(spec, seed):
    """a stream of three commands; the middle one (3-8 digits, of the given kind) is hit by ONE pause of L valid-less cycles at the
    given position; every other character follows with the short gaps of the ordinary classes."""
    L, pos, kind, j = spec
    rnd = rng(seed, 'C20', 'req_pause', L, pos, kind, j)
    cmds = gen_stream(rnd, 3)
    nd = rnd.choice([3, 4, 5, 8])
    cmds[1] = ['K', nd, rnd.choice([17, 18, 33, KMAX, rnd.randrange(16, KMAX + 1)])] if kind == 'K' else [kind, nd, gen_number(rnd, nd) | (rnd.randrange(1, 16) << (4 * nd - 4)) | rnd.randrange(1, 16)]     # first and last digit non-zero
    sep = [0, 1 if pos == 'after_newline' else 0, 0]
    text, roles = stream_text(cmds, sep)
    gaps = [rnd.choice([0, 0, 1, 3]) for _ in text]
    mine = [i for i, (c, r) in enumerate(roles) if c == 1]
    body = [i for i in mine if roles[i][1] in ('first', 'body')]
    if kind != 'V':
        digits = body[1:]
        letter_next = body[1]
    else:
        digits = body
        letter_next = body[1]                 # no letter: the pause follows the first digit
    term = next(i for i in mine if roles[i][1] == 'term')
    at = dict(after_letter=letter_next, between_digits=digits[1 + rnd.randrange(len(digits) - 1)], before_terminator=term,
              between_commands=mine[0], after_newline=term + 2)[pos]     # gaps[i] = idle cycles BEFORE character i is offered
    gaps[at] = L
    producer = ['python', 'block_after', 'block_before'][j % 3]
    return dict(part='request', widths=list(WIDTHS[j % len(WIDTHS)]), cmds=cmds, sep=sep, gaps=gaps, gap_mode='pause', producer=producer,
                pause=dict(cycles=L, position=pos, kind=kind, before_char=at))


def plan_resp_pauses(tier):
    out = []
    j = 0
    for L in PAUSES[tier]:
        for count in ([2, 5] if L <= 2 ** 15 or tier != 'quick' else [3]):
            if L >= 2 ** 20 and count != 2:
                continue
            for p in range(count + 2):
                out.append((L, count, p, j))
                j += 1
    return out


def expand_resp_pause(spec, seed):
    """one response of `count` digits; the consumer is ready except for ONE run of L not-ready cycles that begins 1 + 2p cycles after
    start_resp, i.e. (the encoder offers a character every other cycle) before character p = 0 ('=') .. count+1 ('!') is taken.
    The schedule is a function of time only."""
    L, count, p, j = spec
    rnd = rng(seed, 'C20', 'resp_pause', L, count, p, j)
    value = gen_value(rnd, count) | (rnd.randrange(1, 16) << (4 * count - 4))
    idle = rnd.randrange(0, 4)
    hm = [None, ['pulse_only'], None][j % 3]
    a = idle + 1 + 2 * p
    bits = [1] * a + [0] * L + [1] * (4 * (count + 4))
    return dict(part='response', items=[[value, count, idle, hm]], mode='pause', maxgap=L, hold='held' if hm is None else 'pulse_only',
                vin_width=32, ready_bits=bits, pause=dict(cycles=L, position=p))


def run_req(run, case, agg):
    try:
        tr = simulate_req(case)
    except Exception as e:
        run.violation('c20_request_raises', dict(part='request', clause='raises'), case, observed=repr(e)[:300],
                      what='CMDRequest raises %r on %r' % (e, stream_text(case['cmds'], case['sep'])[0][:60]))
        return
    run.count('request_cycles', tr['cycles'])
    run.count('request_streams')
    findings, obs = judge_req(tr, case)
    run.ev(obs['commands_judged'])
    run.count('commands_judged', obs['commands_judged'])
    prevk = '-'
    for c in case['cmds']:
        run.nt(hash(('req', c[0], c[1], c[2], tuple(case['widths']), prevk)))
        prevk = c[0]
        agg['digits'][str(c[1])] = agg['digits'].get(str(c[1]), 0) + 1
    for k, v in obs['pulses'].items():
        agg['pulses'][k] = agg['pulses'].get(k, 0) + v
    for k, v in obs['pulse_len'].items():
        agg['pulse_len'][k] = agg['pulse_len'].get(k, 0) + v
    for k, v in obs['kinds'].items():
        agg['kinds'][k] = agg['kinds'].get(k, 0) + v
    agg['chars'] += len(tr['text'])
    pk = case.get('producer', 'python') + '/' + case['gap_mode']
    agg['producers'][pk] = agg['producers'].get(pk, 0) + obs['commands_judged']
    agg['valid_low_cycles'] += tr['valid'].count(0)
    if case.get('pause'):
        # what the monitor saw: the longest run of valid-less cycles between two handshakes of the hit command / around it
        cons = [t for t in range(tr['cycles']) if tr['valid'][t] and tr['ready'][t]]
        at = case['pause']['before_char']
        seen = cons[at] - cons[at - 1] - 1 if 0 < at < len(cons) else 0
        if seen >= case['pause']['cycles'] and not tr['stall']:
            k = '%s: pause >= %d cycles' % (case['pause']['position'], case['pause']['cycles'])
            agg['req_pauses'][k] = agg['req_pauses'].get(k, 0) + (1 if obs['commands_judged'] >= 2 else 0)
            agg['req_pause_kinds'][case['pause']['kind']] = agg['req_pause_kinds'].get(case['pause']['kind'], 0) + 1
    if tr['stall'] is not None:
        agg['stalls'].append(dict(stream=tr['text'][:40], **tr['stall']))
    for f in findings[:1]:
        key = 'c20_request_%s' % f['kind']
        fields = dict(part='request', clause=f['clause'], kind=f['kind'], relation=f['relation'], signal=f['signal'],
                      cmd_kind=f.get('cmd_kind'), producer=case.get('producer', 'python'))
        j = f['index']
        rc = dict(case)
        rc['cmds'] = case['cmds'][:j + 2]
        rc['sep'] = case['sep'][:j + 2]
        rc['gaps'] = case['gaps'][:len(stream_text(rc['cmds'], rc['sep'])[0])]
        rc['stream'] = stream_text(rc['cmds'], rc['sep'])[0]
        run.violation(key, fields, rc, expected=f['expected'], observed=f['observed'],
                      what='widths=%s gaps=%s producer=%s: %s' % (case['widths'], case['gap_mode'], case.get('producer', 'python'), f['what']))
    return tr, findings, obs


# --------------------------------------------------------------------------------------------- CMDResponse

def build_resp(vin_width=32):
    import py4hw
    from py4hw.emulation.HILWrapperUART import CMDResponse
    hw = py4hw.HWSystem()
    s = dict(vin=hw.wire('resp_v', vin_width), size=hw.wire('resp_size', 8), start=hw.wire('start_resp'), ready=hw.wire('ser_ready'),
             valid=hw.wire('ser_valid'), v=hw.wire('ser_v', 8))
    with muted():
        CMDResponse(hw, 'cmd_resp', s['vin'], s['size'], s['start'], s['ready'], s['valid'], s['v'])
        sim = hw.getSimulator()
    return hw, sim, s


def ready_bits(mode, G, rnd, n):
    """oblivious ready schedule of n cycles whose not-ready runs are <= G."""
    out = []
    if mode == 'always' or G == 0:
        return [1] * n
    if mode == 'worst':          # one cycle ready, G cycles not
        k = 0
        while len(out) < n:
            out.append(1 if k == 0 else 0)
            k = (k + 1) % (G + 1)
        return out
    if mode == 'alternate':
        return [(t + 1) & 1 for t in range(n)]
    while len(out) < n:
        out += [1] * rnd.randrange(1, 4)
        out += [0] * rnd.randrange(0, G + 1)
    return out[:n]


def _int(v):
    return int(v, 16) if isinstance(v, str) else v      # replay files carry very wide values as hex strings


def resp_bound(count, G):
    return (count + 2) * 2 * (G + 1) + 4


def expected_chars(value, count):
    return '=' + '%0*X' % (count, value & ((1 << (4 * count)) - 1)) + '!'


def simulate_resp(case):
    items = case['items']
    G = case['maxgap']
    rb = case['ready_bits']
    hw, sim, s = build_resp(case.get('vin_width', 32))
    tr = dict(start=[], ready=[], valid=[], v=[], restarts=[])
    starts = []
    t = 0
    with muted():
        for item in items:
            value, count, idle = item[:3]
            value = _int(value)
            hold = item[3] if len(item) > 3 and item[3] else ['held']
            for _ in range(idle):           # idle cycles with the previous value/size still on the wires
                s['start'].put(0)
                s['ready'].put(rb[t] if t < len(rb) else 1)
                for k in ('start', 'ready', 'valid', 'v'):
                    tr[k].append(s[k].get())
                sim.clk(1)
                t += 1
            s['vin'].put(value)
            s['size'].put(count)
            starts.append(t)
            need = count + 2
            seen = 0
            t0 = t
            while True:
                s['start'].put(1 if t == t0 else 0)
                if hold[0] == 'pulse_only' and t > t0:       # value and size are only there during the start pulse
                    s['vin'].put((t * 0x9E3779B1 + 0x7F4A7C15) & 0xFFFFFFFF)
                    s['size'].put(1 + (t * 7 + 3) % 32)
                elif hold[0] == 'restart' and t == t0 + hold[1]:   # another request while this response is in progress
                    s['start'].put(1)
                    s['vin'].put(_int(hold[2]))
                    s['size'].put(hold[3])
                    tr['restarts'].append(t)
                s['ready'].put(rb[t] if t < len(rb) else 1)
                hs = s['valid'].get() & s['ready'].get()
                for k in ('start', 'ready', 'valid', 'v'):
                    tr[k].append(s[k].get())
                sim.clk(1)
                t += 1
                if hs:
                    seen += 1
                    if seen >= need:
                        break
                if t - t0 > resp_bound(count, G) + 8:
                    break
    for _ in range(6):      # quiet tail
        s['start'].put(0)
        s['ready'].put(1)
        for k in ('start', 'ready', 'valid', 'v'):
            tr[k].append(s[k].get())
        sim.clk(1)
    tr['starts'] = starts
    tr['cycles'] = len(tr['valid'])
    return tr


def chars_relation(exp, got, value, count):
    body = exp[1:-1]
    if got == exp:
        return 'equal'
    if got == '=' + body[::-1] + '!':
        return 'digits_reversed'
    if got == '!' + body + '=':
        return 'delimiters_swapped'
    if got.upper() == exp:
        return 'lower_case'
    if exp.startswith(got):
        return 'truncated'
    if got.startswith(exp):
        return 'extra_characters'
    if len(got) == len(exp) + 1 or len(got) == len(exp) - 1:
        return 'digit_count_off_by_one'
    if len(got) == len(exp) and got[0] == '=' and got[-1] == '!':
        return 'wrong_digits'
    return 'other'


def judge_resp(tr, case):
    items = case['items']
    G = case['maxgap']
    n = tr['cycles']
    findings = []
    obs = dict(responses_judged=0, handshakes=0, max_cycles_over_bound=0.0)
    hs = [t for t in range(n) if tr['valid'][t] and tr['ready'][t]]
    obs['handshakes'] = len(hs)
    starts = tr['starts']
    if hs and starts and hs[0] <= starts[0]:
        findings.append(dict(clause='quiet', kind='handshake_without_start', relation='none', index=0, expected='none', observed=hs[0],
                             what='a character is handshaken at cycle %d, before the first start_resp (%d)' % (hs[0], starts[0])))
        return findings, obs
    for r, item in enumerate(items):
        value, count, idle = item[:3]
        value = _int(value)
        if r >= len(starts):
            break
        a = starts[r]
        b = starts[r + 1] if r + 1 < len(starts) else n
        mine = [t for t in hs if a < t and (t <= b if r + 1 < len(starts) else True)]
        got = ''.join(chr(tr['v'][t]) if 32 <= tr['v'][t] < 127 else '\\x%02x' % tr['v'][t] for t in mine)
        exp = expected_chars(value, count)
        obs['responses_judged'] += 1
        if got != exp:
            rel = chars_relation(exp, got, value, count)
            late = rel == 'truncated'
            findings.append(dict(clause='characters', kind='not_completed_in_bound' if late else 'wrong_characters', relation=rel, index=r,
                                 expected=exp, observed=got,
                                 what='response %d (value 0x%X, %d digits, not-ready runs <= %d): handshaken characters %r, expected %r%s' % (
                                     r, value, count, G, got, exp, ' within %d cycles' % resp_bound(count, G) if late else '')))
            break
        dt = mine[-1] - a
        obs['max_cycles_over_bound'] = max(obs['max_cycles_over_bound'], dt / resp_bound(count, G))
        if dt > resp_bound(count, G):
            findings.append(dict(clause='progress', kind='not_completed_in_bound', relation='late', index=r, expected='<= %d' % resp_bound(count, G),
                                 observed=dt, what='response %d: "!" taken %d cycles after start_resp, bound %d' % (r, dt, resp_bound(count, G))))
            break
    return findings, obs


def gen_value(rnd, count):
    r = rnd.random()
    bits = 4 * min(count, 8)
    if r < 0.2:
        v = rnd.choice([0, 1, (1 << bits) - 1, 1 << (bits - 1), 0x9ABCDEF0 >> (32 - bits), 0x01234567 & ((1 << bits) - 1)])
    elif r < 0.35:
        v = int(''.join(rnd.choice('ABCDEF') for _ in range(min(count, 8))), 16)
    elif r < 0.45:
        v = int(''.join(rnd.choice('09A') for _ in range(min(count, 8))), 16)
    else:
        v = rnd.getrandbits(bits)
    return v


def expand_resp(k, seed, tier):
    rnd = rng(seed, 'C20', 'resp', k)
    mode = ['always', 'rand', 'worst', 'alternate', 'rand'][k % 5]
    G = [0, 1, 2, 3, 5, 9][(k // 5) % 6] if mode != 'alternate' else 1
    if mode == 'always':
        G = 0
    holdmode = ['held', 'pulse_only', 'restart', 'mixed'][(k // 3) % 4]
    vin_width = [32, 32, 64, 128, 32, 96, 68][k % 7]      # the block takes any vin width; sizes up to the full width are requested
    items = []
    total = 0
    for _ in range(8):
        cls = rnd.random()
        if cls < 0.8:
            count = rnd.randrange(1, 9)
            value = gen_value(rnd, count)
            if rnd.random() < 0.25:                     # bits above the requested digits: only the low digits are sent
                value |= rnd.getrandbits(32) << (4 * count)
                value &= 0xFFFFFFFF
        elif vin_width > 32 and cls < 0.95:             # wide values: as many digits as the wire holds, all of them significant
            count = rnd.randrange(9, vin_width // 4 + 1)
            value = rnd.getrandbits(4 * count) | (rnd.randrange(1, 16) << (4 * count - 4))
            if rnd.random() < 0.2:
                value = int(''.join(rnd.choice('0F9A') for _ in range(count)), 16)
        else:                                           # what the wrapper really requests: size = port width (up to 32)
            count = rnd.randrange(9, 33)
            value = gen_value(rnd, 8)
        idle = rnd.choice([0, 0, 1, 2, rnd.randrange(0, 8)])
        hm = holdmode if holdmode != 'mixed' else rnd.choice(['held', 'pulse_only', 'restart'])
        if hm == 'pulse_only':
            extra = ['pulse_only']
        elif hm == 'restart':
            c2 = rnd.randrange(1, 9)
            extra = ['restart', rnd.randrange(1, 2 * count + 2), gen_value(rnd, c2), c2]
        else:
            extra = None
        items.append([value, count, idle, extra])
        total += idle + resp_bound(count, G) + 12
    return dict(part='response', items=items, mode=mode, maxgap=G, hold=holdmode, vin_width=vin_width, ready_bits=ready_bits(mode, G, rnd, total))


def run_resp(run, case, agg):
    try:
        tr = simulate_resp(case)
    except Exception as e:
        run.violation('c20_response_raises', dict(part='response', clause='raises'), _resp_case(case, len(case['items'])), observed=repr(e)[:300],
                      what='CMDResponse raises %r' % (e,))
        return
    run.count('response_cycles', tr['cycles'])
    run.count('response_runs')
    findings, obs = judge_resp(tr, case)
    run.ev(obs['responses_judged'])
    run.count('responses_judged', obs['responses_judged'])
    run.count('response_handshakes', obs['handshakes'])
    agg['resp_max_frac_of_bound'] = max(agg['resp_max_frac_of_bound'], obs['max_cycles_over_bound'])
    agg['ready_low_cycles'] += tr['ready'].count(0)
    agg['restarts'] += len(tr['restarts'])
    for item in case['items']:
        value, count, idle = item[:3]
        agg['vin_widths'][str(case.get('vin_width', 32))] = agg['vin_widths'].get(str(case.get('vin_width', 32)), 0) + 1
        hname = item[3][0] if len(item) > 3 and item[3] else 'held'
        agg['holds'][hname] = agg['holds'].get(hname, 0) + 1
        run.nt(hash(('resp', value, count, case['mode'], case['maxgap'], hname)))
        agg['counts'][str(count)] = agg['counts'].get(str(count), 0) + 1
    agg['resp_modes'][case['mode']] = agg['resp_modes'].get(case['mode'], 0) + obs['responses_judged']
    if case.get('pause'):
        # position actually hit: characters taken before the long not-ready run, and the run really kept a character waiting
        rdy, vld = tr['ready'], tr['valid']
        lo = next((t for t in range(tr['cycles']) if not rdy[t]), None)
        if lo is not None and obs['responses_judged']:
            before = sum(1 for t in range(lo) if rdy[t] and vld[t])
            hs = [t for t in range(tr['cycles']) if rdy[t] and vld[t]]
            if before < case['items'][0][1] + 2 and hs and hs[-1] >= lo + case['pause']['cycles']:      # the response spans the whole pause
                k = 'before character %d: not ready >= %d cycles' % (before, case['pause']['cycles'])
                agg['resp_pauses'][k] = agg['resp_pauses'].get(k, 0) + 1
    for f in findings[:1]:
        it = case['items'][f['index']]
        value, count, idle = it[:3]
        value = _int(value)
        key = 'c20_response_%s' % f['kind']
        fields = dict(part='response', clause=f['clause'], kind=f['kind'], relation=f['relation'],
                      count_class='1-8' if count <= 8 else '9-32', vin_width=case.get('vin_width', 32), value_fits=value < (1 << (4 * count)), ready_mode=case['mode'],
                      input_hold=it[3][0] if len(it) > 3 and it[3] else 'held')
        run.violation(key, fields, _resp_case(case, f['index'] + 1), expected=f['expected'], observed=f['observed'],
                      what='ready=%s inputs=%s: %s' % (case['mode'], it[3][0] if len(it) > 3 and it[3] else 'held', f['what']))
    return tr, findings, obs


def _resp_case(case, nitems):
    from .c17 import rle
    c = dict(case)
    c['items'] = case['items'][:nitems]
    c['ready_rle'] = rle(case['ready_bits'])
    del c['ready_bits']
    return c


# --------------------------------------------------------------------------------------------- decoder + encoder wired as createHILUART does

SYS_IN_W = [16, 8]            # DUT inputs
SYS_OUT_W = [16, 16, 8]       # DUT outputs: counter of clk_pulse, counter + in0, in1


def build_system(size_mode):
    """The wiring of createHILUART between the two UART blocks, block for block (index registers, decoders, delayed
    set_index_out, input registers, output capture registers, size constants, the two muxes, padding for the unused decoder
    outputs), around a small DUT whose outputs change with K and I commands.  createHILUART itself cannot be simulated: it
    replaces the DUT by a black-box placeholder and needs an FPGA platform object.  size_mode 'bits' feeds CMDResponse.size
    the port width exactly as the wrapper does, 'digits' feeds ceil(width/4)."""
    import math
    import py4hw
    from py4hw.emulation.HILWrapperUART import CMDRequest, CMDResponse
    hw = py4hw.HWSystem()
    with muted():
        hlp = py4hw.LogicHelper(hw)
        ready_req, valid_req, c_req = hw.wire('ready_req'), hw.wire('valid_req'), hw.wire('c_req', 8)
        ser_ready, ser_valid, ser_v = hw.wire('ser_ready'), hw.wire('ser_valid'), hw.wire('ser_v', 8)
        num_ins, num_outs = len(SYS_IN_W), len(SYS_OUT_W)
        index_in_w = int(math.ceil(math.log2(num_ins)))
        num_ins_up = 1 << index_in_w
        index_out_w = int(math.ceil(math.log2(num_outs)))
        num_outs_up = 1 << index_out_w
        ena_in_list = hw.wires('ena_in', num_ins_up, 1)
        ena_out_list = hw.wires('ena_out', num_outs_up, 1)
        index_in, index_in_r = hw.wire('index_in', index_in_w), hw.wire('index_in_r', index_in_w)
        v_in = hw.wire('v_in', 32)
        index_out, index_out_r = hw.wire('index_out', index_out_w), hw.wire('index_out_r', index_out_w)
        set_index_in, set_v_in, set_index_out = hw.wire('set_index_in'), hw.wire('set_v_in'), hw.wire('set_index_out')
        set_index_out_r, clk_pulse, start_resp = hw.wire('set_index_out_r'), hw.wire('clk_pulse'), hw.wire('start_resp')
        py4hw.Reg(hw, 'index_in_r', d=index_in, enable=set_index_in, q=index_in_r)
        py4hw.Reg(hw, 'index_out_r', d=index_out, enable=set_index_out, q=index_out_r)
        py4hw.Reg(hw, 'set_index_out_r', d=set_index_out, q=set_index_out_r)
        py4hw.Decoder(hw, 'decode_ena_in', index_in_r, ena_in_list)
        py4hw.Decoder(hw, 'decode_ena_out', index_out_r, ena_out_list)
        ins = []
        for i, iw in enumerate(SYS_IN_W):
            w = hw.wire('in%d' % i, iw)
            ins.append(w)
            py4hw.Reg(hw, 'in%d' % i, d=v_in, q=w, enable=hlp.hw_and2(ena_in_list[i], set_v_in))
        # the DUT
        outs = [hw.wire('out%d' % i, ow) for i, ow in enumerate(SYS_OUT_W)]
        py4hw.Counter(hw, 'dut_count', reset=hlp.hw_constant(1, 0), inc=clk_pulse, q=outs[0])
        py4hw.Add(hw, 'dut_sum', outs[0], ins[0], outs[1])
        py4hw.Buf(hw, 'dut_copy', ins[1], outs[2])
        resp_v, resp_size = hw.wire('resp_v', 32), hw.wire('resp_size', 8)
        reg_out = hw.wires('reg_out', num_outs_up, 32)
        size_out = hw.wires('size_out', num_outs_up, 8)
        for i in range(num_outs_up):
            if i < num_outs:
                ow = SYS_OUT_W[i]
                py4hw.Reg(hw, 'out%d' % i, d=outs[i], q=reg_out[i], enable=hlp.hw_and2(ena_out_list[i], set_index_out_r))
                py4hw.Constant(hw, 'out_size%d' % i, ow if size_mode == 'bits' else (ow + 3) // 4, size_out[i])
            else:
                py4hw.Constant(hw, 'out_%d' % i, 0, reg_out[i])
                py4hw.Constant(hw, 'out_size%d' % i, 0, size_out[i])
        py4hw.Mux(hw, 'resp_v', index_out_r, reg_out, resp_v)
        py4hw.Mux(hw, 'resp_size', index_out_r, size_out, resp_size)
        CMDRequest(hw, 'cmd_req', ready_req, valid_req, c_req, index_in, v_in, index_out, set_index_in, set_v_in, set_index_out,
                   clk_pulse, start_resp)
        CMDResponse(hw, 'cmd_resp', resp_v, resp_size, start_resp, ser_ready, ser_valid, ser_v)
        sim = hw.getSimulator()
    return hw, sim, dict(ready=ready_req, valid=valid_req, c=c_req, r_ready=ser_ready, r_valid=ser_valid, r_v=ser_v)


def sys_digits(i, size_mode):
    return SYS_OUT_W[i] if size_mode == 'bits' else (SYS_OUT_W[i] + 3) // 4


def sys_reference(ops, size_mode):
    """host-side model: what every 'O' has to be answered with, and what the capture register held from the previous 'O' of
    the same output (classifier only)."""
    count, ins = 0, [0] * len(SYS_IN_W)
    exp, stale = [], []
    last = {}
    for op in ops:
        if op[0] == 'K':
            count = (count + op[1]) & 0xFFFF
        elif op[0] == 'I':
            ins[op[1]] = op[2] & ((1 << SYS_IN_W[op[1]]) - 1)
        else:
            i = op[1]
            val = [count, (count + ins[0]) & 0xFFFF, ins[1]][i]
            exp.append('=' + '%0*X' % (sys_digits(i, size_mode), val) + '!')
            stale.append('=' + '%0*X' % (sys_digits(i, size_mode), last.get(i, 0)) + '!')
            last[i] = val
    return exp, stale


def sys_text(op, nl):
    if op[0] == 'K':
        return 'K%X;' % op[1] + nl
    if op[0] == 'I':
        return 'I%X=' % op[1] + '%0*X!' % (op[3], op[2]) + nl
    return 'O%X?' % op[1] + nl


def simulate_system(case):
    """plays a host session: characters over ready/valid with gaps; after an 'O<n>?' the host waits for the '!' of the answer
    before it sends anything else (what DUTProxy does).  The consumer's ready is an oblivious schedule."""
    hw, sim, s = build_system(case['size_mode'])
    ops, gaps, rb = case['ops'], case['gaps'], case['ready_bits']
    nl = '\n' if case.get('newline') else ''
    got = []              # responses, split at '!'
    cur = ''
    t = 0
    gi = 0
    problem = None
    maxd = max(sys_digits(i, case['size_mode']) for i in range(len(SYS_OUT_W)))
    wait_bound = resp_bound(maxd, case['maxgap']) + 40

    def step(valid, ch):
        nonlocal t, cur
        s['valid'].put(valid)
        s['c'].put(ch)
        s['r_ready'].put(rb[t % len(rb)])
        took = s['valid'].get() & s['ready'].get()
        if s['r_valid'].get() & s['r_ready'].get():
            cur += chr(s['r_v'].get()) if 32 <= s['r_v'].get() < 127 else '?'
            if cur.endswith('!'):
                got.append(cur)
                cur = ''
        sim.clk(1)
        t += 1
        return took

    with muted():
        for op in ops:
            for ch in sys_text(op, nl):
                for _ in range(gaps[gi % len(gaps)]):
                    step(0, garbage(t))
                gi += 1
                n = 0
                while not step(1, ord(ch)):
                    n += 1
                    if n > REQ_STALL:
                        problem = 'character %r of %r not consumed within %d cycles' % (ch, sys_text(op, ''), REQ_STALL)
                        break
                if problem:
                    break
            if problem:
                break
            if op[0] == 'O':
                have = len(got)
                n = 0
                while len(got) == have and n < wait_bound:
                    step(0, garbage(t))
                    n += 1
        for _ in range(12):
            step(0, garbage(t))
    if cur:
        got.append(cur)
    return dict(responses=got, cycles=t, problem=problem)


def expand_system(k, seed):
    rnd = rng(seed, 'C20', 'sys', k)
    ops = []
    for _ in range(14):
        r = rnd.random()
        if r < 0.25:
            ops.append(['K', rnd.choice([0, 1, 1, 2, 3, 5, 8, 17])])
        elif r < 0.5:
            i = rnd.randrange(len(SYS_IN_W))
            nd = rnd.choice([1, 2, 4, 4, 8])
            ops.append(['I', i, rnd.randrange(16 ** nd), nd])
        else:
            ops.append(['O', rnd.randrange(len(SYS_OUT_W))])
    mode = ['always', 'alternate', 'rand', 'worst'][k % 4]
    G = [0, 1, 2, 3][k % 4]
    return dict(part='system', ops=ops, size_mode=['bits', 'digits'][(k // 2) % 2], newline=(k // 4) % 2,
                gaps=[rnd.choice([0, 0, 1, 3, rnd.randrange(0, 9)]) for _ in range(31)], mode=mode, maxgap=G,
                ready_bits=ready_bits(mode, G, rnd, 257))


def run_system(run, case, agg):
    try:
        tr = simulate_system(case)
    except Exception as e:
        run.violation('c20_system_raises', dict(part='system', clause='raises'), case, observed=repr(e)[:300],
                      what='the decoder/encoder composition raises %r' % (e,))
        return
    exp, stale = sys_reference(case['ops'], case['size_mode'])
    got = tr['responses']
    agg['sys_sessions'] += 1
    agg['sys_cycles'] += tr['cycles']
    run.count('system_cycles', tr['cycles'])
    n = 0
    for j, e in enumerate(exp):
        if j < len(got) and got[j] == e:
            n += 1
            run.nt(hash(('sys', e, case['size_mode'], case['mode'])))
            if e != stale[j]:
                agg['sys_changed'] += 1
        else:
            break
    run.ev(n)
    agg['sys_responses'] += n
    run.count('system_responses_judged', n)
    if got != exp:
        j = next((i for i in range(min(len(got), len(exp))) if got[i] != exp[i]), min(len(got), len(exp)))
        g = got[j] if j < len(got) else None
        e = exp[j] if j < len(exp) else None
        rel = ('answers_previous_capture' if e is not None and g == stale[j] and g != e else 'no_answer' if g is None else
               'unrequested_answer' if e is None else 'other')
        otext = [sys_text(o, '') for o in case['ops']]
        run.violation('c20_system_wrong_response', dict(part='system', clause='end_to_end', relation=rel, size_mode=case['size_mode']),
                      case, expected=e, observed=g,
                      what='session %s (consumer %s): answer %d is %r, the selected output holds %r%s' % (
                          ''.join(otext)[:80], case['mode'], j, g, e, '; ' + tr['problem'] if tr['problem'] else ''))
    return tr


# --------------------------------------------------------------------------------------------- driver

def run_check(run, tier, seed, shard):
    run.assume('a strobe "pulses exactly once" = exactly one contiguous high run (any length) after the terminator is consumed and '
               'before the first character of the next command is consumed, low again by then; the numbers are compared modulo '
               'the width of the wire they are put on')
    run.assume('well-formed streams: commands in any order, 1-8 upper-case hex digits with leading zeros, K counts 0-40, and '
               'optionally the newline the library\'s own DUTProxy sends after each command; lower-case digits are never sent')
    run.assume('CMDResponse.size is the number of hex digits (the code comment; the wrapper feeds it the port width); counts 1-8 are '
               'the property\'s domain, 9-32 (what the wrapper can request) are checked as zero-padded; a value wider than the requested '
               'digits is sent as its low digits')
    run.assume('the value and digit count of a response are the ones on vin/size in the start_resp cycle (the code documents "sample '
               'value / sample size" there): input-hold classes held (stable for the whole response), pulse_only (garbage from the next '
               'cycle on) and restart (a second start_resp with other inputs while the response is in progress must not alter it; '
               'whether that second request is served afterwards is not judged -- the unchanged block ignores it)')
    run.assume('system class: decoder and encoder wired block for block as createHILUART wires them (createHILUART itself replaces the '
               'DUT by a black box and cannot be simulated), around a DUT whose outputs change between O commands; judged end to end: '
               'every O<n>? is answered with the value output n has at that moment, in the number of digits the size constant '
               'requests; the host waits for the "!" of an answer before it sends on, as the library\'s DUTProxy does')
    run.assume('the character port of the decoder is driven three ways: from Python between clock edges, and by a clocked ready/valid '
               'source block instantiated before resp. after the decoder (the simulator states that clocked blocks need no order); '
               'both sides of the port must agree on which characters were transferred')
    run.assume('long-pause classes: "whatever the pacing" includes a producer that goes silent for up to 2**19+16 (thorough 2**20+16) cycles '
               'after the command letter, between two digits, before the terminator, between commands and after the optional newline, '
               'and a consumer that is not ready for as long before any character of a response; the decoder has no notion of time in '
               'the property, so the same pulses and numbers are required')
    run.assume('"whatever the consumer\'s pacing" is judged as bounded progress: ready schedules are oblivious with not-ready runs <= G '
               'and the "!" must be taken within (count+2)*2*(G+1)+4 cycles of start_resp (the block looks at ready twice per '
               'character, so the design-time bound (count+2)*(G+3) is too tight for G >= 2 and is not used)')
    nreq, nresp = (8000, 10000) if tier == 'quick' else (300000, 400000)
    nsys = 400 if tier == 'quick' else 16000
    deadline = time.time() + (420 if tier == 'quick' else 2400)
    agg = dict(digits={}, pulses={}, pulse_len={}, kinds={}, producers={}, holds={}, restarts=0, vin_widths={}, sys_sessions=0, sys_responses=0, sys_changed=0, sys_cycles=0, chars=0, valid_low_cycles=0, stalls=[], counts={}, resp_modes={},
               resp_max_frac_of_bound=0.0, ready_low_cycles=0, req_pauses={}, req_pause_kinds={}, resp_pauses={})
    skipped = 0
    for k in shard_slice(range(nreq), shard):
        if time.time() > deadline:
            skipped += 1
            continue
        case = expand_req(k, seed, tier)
        res = run_req(run, case, agg)
        if res is not None and k % 97 == 0 and len(run.samples) < 4:
            tr, findings, obs = res
            run.sample(dict(part='request', widths=case['widths'], stream=tr['text'][:70], gap_mode=case['gap_mode'],
                            commands_judged=obs['commands_judged'], pulses_seen=obs['pulses'], cycles=tr['cycles']))
        if run.too_many:
            break
    for spec in shard_slice(plan_req_pauses(tier), shard):      # long producer pauses at every position of a command
        if time.time() > deadline:
            skipped += 1
            continue
        if run.too_many:
            break
        run_req(run, expand_req_pause(spec, seed), agg)
    for spec in shard_slice(plan_resp_pauses(tier), shard):     # long consumer pauses before every character of a response
        if time.time() > deadline:
            skipped += 1
            continue
        if run.too_many:
            break
        run_resp(run, expand_resp_pause(spec, seed), agg)
    for k in shard_slice(range(nresp), shard):
        if time.time() > deadline:
            skipped += 1
            continue
        if run.too_many:
            break
        case = expand_resp(k, seed, tier)
        res = run_resp(run, case, agg)
        if res is not None and k % 131 == 0 and len(run.samples) < 8:
            tr, findings, obs = res
            v, c = case['items'][0][:2]
            run.sample(dict(part='response', ready_mode=case['mode'], max_not_ready_run=case['maxgap'], first_item=dict(value=hex(v), digits=c,
                            expected=expected_chars(v, c)), responses_judged=obs['responses_judged'], handshakes=obs['handshakes'],
                            cycles=tr['cycles']))
    for k in shard_slice(range(nsys), shard):
        if time.time() > deadline:
            skipped += 1
            continue
        if run.too_many:
            break
        case = expand_system(k, seed)
        tr = run_system(run, case, agg)
        if tr is not None and k % 53 == 0 and len(run.samples) < 10:
            run.sample(dict(part='system', session=''.join(sys_text(o, '') for o in case['ops'])[:90], size_mode=case['size_mode'],
                            consumer=case['mode'], answers=tr['responses'][:4], cycles=tr['cycles']))
    if skipped:
        run.inconclusive.append('watchdog: %d cases skipped' % skipped)
    if agg['stalls']:
        run.inconclusive.append('CMDRequest did not consume an offered character within %d cycles in %d streams (first: %s)' % (
            REQ_STALL, len(agg['stalls']), agg['stalls'][0]))
    run.extra['request_pulses_seen'] = agg['pulses']
    run.extra['request_pulse_length_hist'] = agg['pulse_len']
    run.extra['request_commands_by_kind'] = agg['kinds']
    run.extra['request_digit_count_hist'] = agg['digits']
    run.extra['request_characters_sent'] = agg['chars']
    run.extra['request_commands_by_producer_and_gap'] = agg['producers']
    run.extra['response_by_input_hold'] = agg['holds']
    run.extra['response_restart_pulses'] = agg['restarts']
    run.extra['response_by_vin_width'] = agg['vin_widths']
    run.extra['system_sessions'] = agg['sys_sessions']
    run.extra['system_responses_judged'] = agg['sys_responses']
    run.extra['system_responses_differing_from_previous_capture'] = agg['sys_changed']
    run.extra['request_valid_low_cycles'] = agg['valid_low_cycles']
    run.extra['request_long_pause_streams_judged_by_position_and_length'] = agg['req_pauses']
    run.extra['request_long_pause_by_command_kind'] = agg['req_pause_kinds']
    run.extra['response_long_pause_responses_judged_by_position_and_length'] = agg['resp_pauses']
    run.extra['response_digit_count_hist'] = agg['counts']
    run.extra['response_by_ready_mode'] = agg['resp_modes']
    run.extra['response_ready_low_cycles'] = agg['ready_low_cycles']
    run.extra['response_worst_fraction_of_bound_by_shard'] = [round(agg['resp_max_frac_of_bound'], 3)]
    if shard is None:
        post_merge(run, tier, seed)


def post_merge(run, tier, seed):
    p = run.extra.get('request_pulses_seen', {})
    missing = [k for k in STROBES if not p.get(k)]
    if missing:
        run.inconclusive.append('no pulse was ever observed on %s' % missing)
    if not run.counters.get('commands_judged') or not run.counters.get('responses_judged') or not run.counters.get('response_handshakes'):
        run.inconclusive.append('a deciding monitor saw no event: commands=%s responses=%s handshakes=%s' % (
            run.counters.get('commands_judged'), run.counters.get('responses_judged'), run.counters.get('response_handshakes')))
    if not run.extra.get('system_responses_differing_from_previous_capture'):
        run.inconclusive.append('no end-to-end answer was observed whose value differed from the previous capture of that output')
    rp = run.extra.get('request_long_pause_streams_judged_by_position_and_length', {})
    missing = ['%s/%d' % (pos, L) for L in PAUSES[tier] for pos in PAUSE_POSITIONS if not rp.get('%s: pause >= %d cycles' % (pos, L))]
    missing += ['%s/%d' % (pos, L) for L in DEEP_PAUSES[tier] for pos in DEEP_POSITIONS if not rp.get('%s: pause >= %d cycles' % (pos, L))]
    if missing:
        run.inconclusive.append('long producer pauses not observed (pause seen on the port and the commands judged) for %s' % missing[:6])
    sp = run.extra.get('response_long_pause_responses_judged_by_position_and_length', {})
    for L in PAUSES[tier]:
        got = [k for k in sp if k.endswith('>= %d cycles' % L)]
        if len(got) < 4:
            run.inconclusive.append('long consumer pauses of %d cycles were observed at %d character positions only' % (L, len(got)))
    if not run.extra.get('request_valid_low_cycles') or not run.extra.get('response_ready_low_cycles'):
        run.inconclusive.append('the environments never stalled (no valid gap / no not-ready cycle)')


def replay(run, case):
    c = case['case']
    if c.get('part') == 'system':
        tr = simulate_system(c)
        exp, _ = sys_reference(c['ops'], c['size_mode'])
        print('replay C20 system session %r: answers %s expected %s' % (''.join(sys_text(o, '') for o in c['ops']), tr['responses'], exp))
        if tr['responses'] != exp:
            print('VIOLATION property=C20 replay=replayed')
        return 1 if tr['responses'] != exp else 0
    if c.get('part') == 'request':
        tr = simulate_req(c)
        findings, obs = judge_req(tr, c)
        print('replay C20 request widths=%s stream=%r: %d commands judged, pulses %s' % (c['widths'], tr['text'], obs['commands_judged'], obs['pulses']))
    else:
        bits = []
        v = 1
        for n in c['ready_rle']:
            bits += [v] * n
            v ^= 1
        c = dict(c, ready_bits=bits)
        tr = simulate_resp(c)
        findings, obs = judge_resp(tr, c)
        print('replay C20 response items=%s ready=%s: %d responses judged, %d handshakes' % (c['items'], c['mode'], obs['responses_judged'], obs['handshakes']))
    for f in findings:
        print('  ', f['clause'], f['kind'], f['what'])
    if findings:
        print('VIOLATION property=C20 replay=replayed')
    return 1 if findings else 0
