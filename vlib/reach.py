"""Reach evidence: sys.monitoring PY_START counters on the code objects of anchored functions.
Evidence only -- no verdict depends on it (except "never reached => inconclusive" floors)."""
import sys

_TOOL = 4


class Reach:
    def __init__(self, funcs):
        """funcs: dict label -> function (or unbound method)"""
        self.counts = {k: 0 for k in funcs}
        self._codes = {}
        for k, f in funcs.items():
            code = getattr(f, '__code__', None)
            if code is not None:
                self._codes[code] = k
        self.active = False

    def __enter__(self):
        mon = getattr(sys, 'monitoring', None)
        if mon is None:
            return self
        try:
            mon.use_tool_id(_TOOL, 'verif-reach')
        except ValueError:
            return self
        self.active = True
        mon.register_callback(_TOOL, mon.events.PY_START, self._cb)
        for code in self._codes:
            mon.set_local_events(_TOOL, code, mon.events.PY_START)
        return self

    def _cb(self, code, offset):
        k = self._codes.get(code)
        if k is not None:
            self.counts[k] += 1

    def __exit__(self, *a):
        if self.active:
            mon = sys.monitoring
            for code in self._codes:
                mon.set_local_events(_TOOL, code, 0)
            mon.register_callback(_TOOL, mon.events.PY_START, None)
            mon.free_tool_id(_TOOL)
            self.active = False
        return False


def rtl_emitters():
    """All Inline*/Body* emitters of py4hw.rtl_generation plus verilogBody methods."""
    import py4hw
    import py4hw.rtl_generation as rg
    funcs = {}
    for name in dir(rg):
        if name.startswith(('Inline', 'Body')) and callable(getattr(rg, name)):
            funcs[name] = getattr(rg, name)
    for cname in dir(py4hw):
        c = getattr(py4hw, cname)
        if isinstance(c, type) and 'verilogBody' in c.__dict__:
            funcs[cname + '.verilogBody'] = c.__dict__['verilogBody']
    for m in ('createModuleHeader', 'instantiateStructural', 'createModuleInstances', 'generateCodeFromClock', 'generateCodeFromPropagate'):
        funcs['VerilogGenerator.' + m] = getattr(rg.VerilogGenerator, m)
    return funcs
