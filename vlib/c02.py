"""C02 -- Python-to-Verilog transpilation preserves the behaviour of behavioural blocks (DESIGN.md section 4 C02).

Translation validation by co-execution: every behavioural class (library corpus + generated from a grammar over the
supported subset + the same grammar with one unsupported construct injected) is instantiated in the real simulator and
its transpiled always-block module is interpreted by the E4 engine in lockstep; outputs and integer state are compared
after every step that stays inside the domain the statement gives (non-negative, <= 32 bits, no truncated
sub-expression).  A refusal (exception) is always acceptable; text that is accepted must be valid and equivalent.
"""
import importlib.util
import os
import sys
import time

from . import vlog
from .common import muted, rng, shard_slice, stable_hash, run_dir

LEVEL = 'translation_validation'
RULE = ('programs = (a) library behavioural classes the transpiler is pointed at, (b) classes generated from a grammar over the supported '
        'subset (if/elif/else nests, match/case, and/or/not on truth values, comparisons, + - * // % & | ^ << >>, augmented assignment, '
        'locals, integer state, constructor constants, get/put/prepare), clock and propagate kinds, port widths 1..32, (c) the same with one '
        'unsupported or suspect construct injected (ternaries, value-position and/or, for/while, subscripts, tuples, chained comparison, **, '
        '/, float/str constants, helper calls, attribute name != port name), (f) a systematic construct corpus: every pattern kind of match '
        '(capture, capture+guard, as, or, wildcard-as, sequence, class, singleton, mapping, negative/duplicate/attribute values, nested, no '
        'default) with the subject steered to listed and unlisted values, and the remaining statement/expression forms (walrus, chained '
        'comparisons, all augmented operators, for/while/break/else, tuple/starred/swap, slices, assert/print/try/del, docstrings, annotated '
        'assignment, comprehensions, ...), mostly as the last statement of the body; each accepted program is co-executed for 32-64 cycles and '
        'its text must not read an integer it never assigns; '
        'non-trivial = accepted, compared in-domain on >= 8 steps and >= 2 distinct output or state values seen; distinct by source hash')
SHARDS = {'quick': 1, 'thorough': 16}
TIMEOUT = {'quick': 900, 'thorough': 3300}
MIN_NONTRIVIAL = {'quick': 60, 'thorough': 1000}

WIDTHS_IN = [1, 1, 2, 4, 8, 8, 16]
WIDTHS_OUT = [1, 4, 8, 8, 16, 32]


# --------------------------------------------------------------------------- program generator

class Prog:
    def __init__(self):
        self.name = None
        self.kind = 'clock'
        self.ins = []        # (name, width)
        self.outs = []       # (name, width)
        self.states = []     # (name, init)
        self.consts = []     # (name, value)
        self.locals = []
        self.body = []
        self.features = set()
        self.cls = 'main'    # main | boolop_value | ternary_rhs | ternary_nested | ternary_call | attr_name | unsupported:<c>
        self.out_attr = {}   # port name -> attribute name (attr_name class)
        self.ctor = None     # constructor-shape family: (lines before the ports, lines between in- and out-ports, lines in place of the state section)

    def source(self):
        args = [n for n, _ in self.ins] + [n for n, _ in self.outs] + [n for n, _ in self.consts]
        L = ['import py4hw', '', '', 'class %s(py4hw.Logic):' % self.name,
             '    def __init__(self, parent, name, %s):' % ', '.join(args),
             '        super().__init__(parent, name)']
        pre, mid, post = self.ctor if self.ctor is not None else ([], [], ['self.%s = %d' % (n, v) for n, v in self.states])
        L += ['        ' + x for x in pre]
        for n, w in self.ins:
            L.append("        self.%s = self.addIn('%s', %s)" % (n, n, n))
        L += ['        ' + x for x in mid]
        for n, w in self.outs:
            L.append("        self.%s = self.addOut('%s', %s)" % (self.out_attr.get(n, n), n, n))
        L += ['        ' + x for x in post]
        for n, v in self.consts:
            L.append('        self.%s = %s' % (n, n))
        L.append('')
        L.append('    def %s(self):' % self.kind)
        for line in self.body:
            L.append('        ' + line)
        L.append('')
        return '\n'.join(L)


FOLDED_CALLS = ["ord('A')", "ord('z')", 'max(3, 9)', 'min(4, 2)', 'max(2, 8, 5)', 'pow(3, 2)', 'pow(7, 2, mod=10)', 'pow(7, 2, 10)', 'pow(base=2, exp=5)',
                "int('1010', base=2)", "int('17')", "int('ff', 16)", "int('21', base=8)", "len('abcd')", 'abs(7)', 'int(5)', 'bool(3)',
                'max(0, 6)', 'min(9, 4, 6)', "int('0x1f', base=16)", 'pow(2, 10, mod=1000)']


class PGen:
    def __init__(self, rnd, kind, cls='main', inject=None, tail=False):
        self.rnd = rnd
        self.tail = tail          # the injected construct is the last statement of the body (its effect is never overwritten)
        self.match_info = None    # (input name, listed case values) of an injected match on an input
        self.p = Prog()
        self.p.kind = kind
        self.p.cls = cls
        self.inject = inject
        self.injected = False
        self.min_states = 0
        self.small = rnd.random() < 0.6      # small constants keep more steps inside the domain
        self.big_consts = cls == 'main' and rnd.random() < 0.15
        # 64-bit ports with constants that need more than 53 bits (no state variables: those are limited to 32 bits)
        self.wide = cls == 'main' and not self.big_consts and rnd.random() < 0.1

    def build(self, name):
        rnd, p = self.rnd, self.p
        p.name = name
        for i in range(rnd.randint(1, 3)):
            p.ins.append(('i%d' % i, 64 if self.wide and i == 0 else 32 if self.big_consts and i == 0 else rnd.choice(WIDTHS_IN)))
        for i in range(rnd.randint(1, 2)):
            p.outs.append(('o%d' % i, 64 if self.wide else 32 if self.big_consts else rnd.choice(WIDTHS_OUT)))
        self.aug_only = set()
        if p.kind == 'clock' and not self.wide:
            for i in range(rnd.randint(self.min_states, 2)):
                p.states.append(('s%d' % i, rnd.choice([0, 0, 1, 3, rnd.randint(0, 9)])))
                if rnd.random() < 0.3:
                    self.aug_only.add('s%d' % i)       # a state only ever changed by augmented assignment (a counter, a flag set)
                    self.p.features.add('aug_only_state')
        for i in range(rnd.randint(0, 2)):
            p.consts.append(('k%d' % i, rnd.choice([0, 1, 2, 3, 5, 7, rnd.randint(0, 40)])))
        p.locals = [] if self.wide else ['t%d' % i for i in range(rnd.randint(0, 2))]     # locals are 32-bit integers in Verilog
        if p.cls == 'attr_name':
            n = p.outs[0][0]
            p.out_attr[n] = n + '_w'
        body = []
        locs, p.locals = p.locals, []
        for t in locs:
            # locals are assigned before any use (Python locals do not persist, Verilog integers do)
            body.append('%s = %s' % (t, self.expr(1)))
            p.locals.append(t)
        if p.kind == 'propagate':
            for n, w in p.outs:
                body.append('self.%s.put(%s)' % (p.out_attr.get(n, n), self.expr(1)))
        body += self.block(rnd.randint(2, 5), rnd.randint(1, 3))
        if self.inject and not self.injected:
            body += self.injection()
        p.body = body
        return p

    # -- expressions
    def leaf(self):
        rnd, p = self.rnd, self.p
        r = rnd.random()
        if self.big_consts and r < 0.12:
            # constants at and around 2**31 / 2**32 - 1 (still 32-bit patterns)
            self.p.features.add('big_const')
            return str(rnd.choice([0x80000000, 0x80000001, 0x7FFFFFFF, 0xFFFFFFFF, 0xC0000000, 0x80000000 + rnd.getrandbits(8), 1 << 30]))
        if self.wide and r < 0.15:
            self.p.features.add('wide_const')
            return str(rnd.choice([(1 << 53) + 1, 0x9E3779B97F4A7C15, (1 << 64) - 1, (1 << 63) + 12345, (1 << 40) + 7, 0xFFFFFFFFFFFFFFFE,
                                   (1 << 62) + (1 << 9) + 1, rnd.getrandbits(64) | (1 << 63) | 1]))
        if r < 0.3:
            if rnd.random() < 0.12:
                # a builtin called on literals only is folded to a constant at generation time: the constant must be the value Python computes,
                # whichever way (positionally or by keyword) the literals are passed
                self.p.features.add('folded_call')
                return rnd.choice(FOLDED_CALLS)
            return str(rnd.randint(0, 9 if self.small else 255))
        if r < 0.6 or not (p.states or p.locals or p.consts):
            return 'self.%s.get()' % rnd.choice(p.ins)[0]
        pool = ['self.' + n for n, _ in p.states] + list(p.locals) + ['self.' + n for n, _ in p.consts]
        return rnd.choice(pool)

    def expr(self, depth):
        rnd = self.rnd
        if depth <= 0 or rnd.random() < 0.3:
            return self.leaf()
        r = rnd.random()
        a = self.expr(depth - 1)
        b = self.expr(depth - 1)
        if r < 0.45:
            op = rnd.choice(['+', '+', '-', '*', '&', '|', '^'])
            self.p.features.add(op)
            return '(%s %s %s)' % (a, op, b)
        if r < 0.55:
            k = rnd.choice([1, 2, 3, 5, 7, 10])
            op = rnd.choice(['//', '%'])
            self.p.features.add(op)
            return '(%s %s %d)' % (a, op, k)
        if r < 0.65:
            self.p.features.add('<<')
            return '(%s << (%s & 3))' % (a, b)
        if r < 0.75:
            self.p.features.add('>>')
            return '(%s >> (%s & 7))' % (a, b)
        if r < 0.9:
            return self.cond(depth - 1)
        if r < 0.94:
            self.p.features.add('~')
            return '(~%s)' % a
        if r < 0.97:
            self.p.features.add('not')
            return '(not %s)' % a
        self.p.features.add('neg')
        return '(-%s)' % a

    def cmp(self, depth):
        op = self.rnd.choice(['==', '!=', '<', '<=', '>', '>='])
        self.p.features.add('cmp')
        return '(%s %s %s)' % (self.expr(depth), op, self.expr(depth))

    def cond(self, depth):
        rnd = self.rnd
        r = rnd.random()
        if r < 0.55:
            return self.cmp(max(depth, 0))
        if r < 0.8:
            op = rnd.choice(['and', 'or'])
            self.p.features.add(op)
            n = rnd.choice([2, 2, 3])
            return '(' + (' %s ' % op).join(self.cmp(0) for _ in range(n)) + ')'
        if r < 0.9:
            self.p.features.add('not')
            return '(not %s)' % self.cmp(0)
        return self.expr(max(depth, 0))    # bare value as a condition

    # -- statements
    def stmt(self, depth):
        rnd, p = self.rnd, self.p
        r = rnd.random()
        if self.inject and not self.injected and not self.tail and rnd.random() < 0.35:
            return self.injection()
        if depth > 0 and r < 0.3:
            return self.if_stmt(depth)
        if depth > 0 and r < 0.38 and p.kind == 'clock' and (p.states or p.ins):
            return self.match_stmt(depth)
        targets = []
        if p.states:
            targets += ['state'] * 3
        if p.locals:
            targets += ['local'] * 2
        targets += ['out'] * 3
        t = rnd.choice(targets)
        if t == 'state':
            n = rnd.choice(p.states)[0]
            if n in self.aug_only or rnd.random() < 0.25:
                op = rnd.choice(['+=', '-=', '&=', '|=', '^=', '*='])
                self.p.features.add('aug')
                return ['self.%s %s %s' % (n, op, self.expr(1))]
            return ['self.%s = %s' % (n, self.expr(2))]
        if t == 'local':
            n = rnd.choice(p.locals)
            if rnd.random() < 0.2:
                self.p.features.add('aug')
                return ['%s %s %s' % (n, rnd.choice(['+=', '|=', '^=']), self.expr(1))]
            return ['%s = %s' % (n, self.expr(2))]
        n = rnd.choice(p.outs)[0]
        call = 'prepare' if p.kind == 'clock' else 'put'
        return ['self.%s.%s(%s)' % (p.out_attr.get(n, n), call, self.expr(2))]

    def block(self, n, depth):
        out = []
        for _ in range(n):
            out += self.stmt(depth)
        return out or ['pass']

    def if_stmt(self, depth):
        rnd = self.rnd
        self.p.features.add('if')
        L = ['if %s:' % self.cond(1)]
        L += ['    ' + s for s in self.block(rnd.randint(1, 3), depth - 1)]
        for _ in range(rnd.choice([0, 0, 1, 2])):
            self.p.features.add('elif')
            L.append('elif %s:' % self.cond(1))
            L += ['    ' + s for s in self.block(rnd.randint(1, 2), depth - 1)]
        if rnd.random() < 0.6:
            self.p.features.add('else')
            L.append('else:')
            L += ['    ' + s for s in self.block(rnd.randint(1, 2), depth - 1)]
        return L

    def match_stmt(self, depth):
        rnd, p = self.rnd, self.p
        self.p.features.add('match')
        subj = 'self.%s' % rnd.choice(p.states)[0] if p.states and rnd.random() < 0.7 else 'self.%s.get()' % rnd.choice(p.ins)[0]
        L = ['match %s:' % subj]
        vals = rnd.sample(range(0, 8), rnd.randint(1, 4))
        for v in vals:
            L.append('    case %d:' % v)
            L += ['        ' + s for s in self.block(rnd.randint(1, 2), depth - 1)]
        if rnd.random() < 0.75:
            L.append('    case _:')
            L += ['        ' + s for s in self.block(rnd.randint(1, 2), depth - 1)]
        return L

    # -- injected constructs (class c)
    def injection(self):
        self.injected = True
        rnd, p = self.rnd, self.p
        c = self.inject
        o = p.outs[0][0]
        oa = p.out_attr.get(o, o)
        call = 'prepare' if p.kind == 'clock' else 'put'
        a, b = self.expr(1), self.expr(1)
        tgt = ('self.' + p.states[0][0]) if p.states else (p.locals[0] if p.locals else None)
        if c == 'boolop_value':
            # and/or in value position with operands that are not truth values
            return ['self.%s.%s(%s %s %s)' % (oa, call, 'self.%s.get()' % p.ins[0][0], rnd.choice(['and', 'or']), rnd.choice(['3', '5', 'self.%s.get()' % p.ins[-1][0]]))]
        if c == 'ternary_rhs':
            if tgt is None:
                return ['tq = (%s if %s else %s)' % (a, self.cmp(0), b), 'self.%s.%s(tq)' % (oa, call)]
            return ['%s = (%s if %s else %s)' % (tgt, a, self.cmp(0), b)]
        if c == 'ternary_nested':
            return ['tq = 1 + (%s if %s else %s)' % (a, self.cmp(0), b), 'self.%s.%s(tq)' % (oa, call)]
        if c == 'ternary_call':
            return ['self.%s.%s(%s if %s else %s)' % (oa, call, a, self.cmp(0), b)]
        if c == 'for':
            return ['acc = 0', 'for j in range(3):', '    acc = acc + %s' % a, 'self.%s.%s(acc)' % (oa, call)]
        if c == 'while':
            return ['wv = %s & 3' % a, 'while wv > 0:', '    wv = wv - 1', 'self.%s.%s(wv)' % (oa, call)]
        if c == 'subscript':
            return ['tb = [1, 2, 3, 4]', 'self.%s.%s(tb[%s & 3])' % (oa, call, a)]
        if c == 'tuple':
            return ['ta, tb = %s, %s' % (a, b), 'self.%s.%s(ta + tb)' % (oa, call)]
        if c == 'chained_cmp':
            return ['if 1 < %s < 9:' % a, '    self.%s.%s(1)' % (oa, call), 'else:', '    self.%s.%s(0)' % (oa, call)]
        if c == 'pow':
            return ['self.%s.%s(%s ** 2)' % (oa, call, a)]
        if c == 'truediv':
            return ['self.%s.%s(%s / 2)' % (oa, call, a)]
        if c == 'float':
            return ['self.%s.%s(%s + 1.5)' % (oa, call, a)]
        if c == 'str':
            return ["ts = 'abc'", 'self.%s.%s(%s)' % (oa, call, a)]
        if c == 'helper_call':
            return ['self.%s.%s(max(%s, %s))' % (oa, call, a, b)]
        if c == 'abs_call':
            return ['self.%s.%s(abs(%s - %s))' % (oa, call, a, b)]
        if c == 'is':
            return ['if %s is 0:' % ('self.%s.get()' % p.ins[0][0]), '    self.%s.%s(1)' % (oa, call)]
        if c == 'in':
            return ['if %s in (1, 2):' % ('self.%s.get()' % p.ins[0][0]), '    self.%s.%s(1)' % (oa, call)]
        if c == 'lambda':
            return ['fn = lambda x: x + 1', 'self.%s.%s(fn(%s))' % (oa, call, a)]
        if c == 'walrus':
            return ['if (wq := %s) > 2:' % a, '    self.%s.%s(wq)' % (oa, call)]
        if c == 'multi_target':
            return ['ma = mb = %s' % a, 'self.%s.%s(ma + mb)' % (oa, call)]
        if c == 'nested_func':
            return ['def hf(x):', '    return x + 1', 'self.%s.%s(hf(%s))' % (oa, call, a)]
        if c == 'int_call':
            return ['self.%s.%s(int(%s))' % (oa, call, a)]
        if c == 'bool_const':
            return ['self.%s.%s(True)' % (oa, call)] + (['%s = False' % tgt] if tgt else [])
        if c == 'neg_const':
            return (['%s = -1' % tgt] if tgt else []) + ['self.%s.%s(%s)' % (oa, call, a)]
        if c == 'big_const':
            return ['self.%s.%s(%s + 4294967296)' % (oa, call, a)]
        if c == 'match_guard':
            return ['match %s:' % ('self.%s.get()' % p.ins[0][0]), '    case 1 if %s:' % self.cmp(0), '        self.%s.%s(1)' % (oa, call), '    case _:', '        self.%s.%s(0)' % (oa, call)]
        if c == 'match_or':
            return ['match %s:' % ('self.%s.get()' % p.ins[0][0]), '    case 1 | 2:', '        self.%s.%s(1)' % (oa, call), '    case _:', '        self.%s.%s(0)' % (oa, call)]
        if c == 'return':
            return ['if %s:' % self.cmp(0), '    return', 'self.%s.%s(%s)' % (oa, call, a)]
        if c == 'get_twice_aug_port':
            return ['self.%s.%s(self.%s.get() + 1)' % (oa, call, oa)]
        out = lambda x: 'self.%s.%s(%s)' % (oa, call, x)
        i0 = 'self.%s.get()' % p.ins[0][0]
        if c.startswith('match_'):
            # the match family: every pattern kind of the language around literal cases on an input; the listed values are drawn,
            # the input vectors are steered to listed and unlisted values (default / capture branch reached)
            w0 = p.ins[0][1]
            listed = sorted(rnd.sample(range(0, min(8, 1 << w0)), min(rnd.randint(1, 3), 1 << w0)))
            self.match_info = (p.ins[0][0], listed)
            L = ['match %s:' % i0]
            for v in listed[:-1]:
                L += ['    case %d:' % v, '        ' + out(str(rnd.randint(0, 9)))]
            v = listed[-1]
            k1, k2 = rnd.randint(1, 9), rnd.randint(10, 19)
            tail = {
                'match_capture': ['    case %d:' % v, '        ' + out(k1), '    case other:', '        ' + out('other + %d' % k2)],
                'match_capture_only': ['    case other:', '        ' + out('other + %d' % k2)],
                'match_capture_unused': ['    case %d:' % v, '        ' + out(k1), '    case other:', '        ' + out(k2)],
                'match_capture_state': ['    case %d:' % v, '        ' + out(k1), '    case other:', '        %s = other + %d' % (tgt or 'tq', k2), '        ' + out(tgt or 'tq')],
                'match_capture_guard': ['    case other if other > %d:' % v, '        ' + out('other + %d' % k2), '    case _:', '        ' + out(k1)],
                'match_as': ['    case %d as mv:' % v, '        ' + out('mv + %d' % k2), '    case _:', '        ' + out(k1)],
                'match_or_as': ['    case (%d | %d) as mv:' % (v, v + 1), '        ' + out('mv + %d' % k2), '    case _:', '        ' + out(k1)],
                'match_wild_as': ['    case %d:' % v, '        ' + out(k1), '    case _ as mv:', '        ' + out('mv + %d' % k2)],
                'match_seq': ['    case [x, y]:', '        ' + out('x + y'), '    case %d:' % v, '        ' + out(k1), '    case _:', '        ' + out(k2)],
                'match_class': ['    case %d:' % v, '        ' + out(k1), '    case int():', '        ' + out(k2)],
                'match_class_capture': ['    case %d:' % v, '        ' + out(k1), '    case int(mv):', '        ' + out('mv + %d' % k2)],
                'match_singleton': ['    case True:', '        ' + out(k2), '    case %d:' % v, '        ' + out(k1), '    case _:', '        ' + out(k1 + 1)],
                'match_mapping': ['    case {}:', '        ' + out(k2), '    case %d:' % v, '        ' + out(k1), '    case _:', '        ' + out(k1 + 1)],
                'match_neg_value': ['    case -1:', '        ' + out(k2), '    case %d:' % v, '        ' + out(k1), '    case _:', '        ' + out(k1 + 1)],
                'match_dup_value': ['    case %d:' % v, '        ' + out(k1), '    case %d:' % v, '        ' + out(k2), '    case _:', '        ' + out(k1 + 1)],
                'match_attr_value': ['    case %s:' % (('self.%s' % p.consts[0][0]) if p.consts else str(v + 8)), '        ' + out(k2), '    case %d:' % v, '        ' + out(k1), '    case _:', '        ' + out(k1 + 1)],
                'match_no_default': ['    case %d:' % v, '        ' + out(k1)],
                'match_default_pass': ['    case %d:' % v, '        ' + out(k1), '    case _:', '        pass'],
                'match_nested': ['    case %d:' % v, '        match %s:' % ('self.%s.get()' % p.ins[-1][0]), '            case 0:', '                ' + out(k1),
                                 '            case _:', '                ' + out(k2), '    case _:', '        ' + out(k1 + 1)],
                'match_expr_subject': None,
            }[c]
            if c == 'match_expr_subject':
                L = ['match (%s + 1) & 3:' % i0, '    case 0:', '        ' + out(k1), '    case 1:', '        ' + out(k2), '    case _:', '        ' + out(k1 + 1)]
                tail = []
            pre = ['tq = 0'] if (c == 'match_capture_state' and not tgt) else []
            return pre + L + tail
        if c == 'aug_other':
            op = rnd.choice(['<<=', '>>=', '//=', '%='])
            return ['tq = %s' % a, 'tq %s %d' % (op, rnd.randint(1, 3)), out('tq')]
        if c == 'ternary_cond':
            return ['if (%s if %s else %s):' % (a, self.cmp(0), b), '    ' + out('1'), 'else:', '    ' + out('2')]
        if c == 'not_in':
            return ['if %s not in (1, 2):' % i0, '    ' + out('1'), 'else:', '    ' + out('2')]
        if c == 'is_not':
            return ['if %s is not None:' % i0, '    ' + out('1'), 'else:', '    ' + out('2')]
        if c == 'assert':
            return ['assert %s >= 0' % i0, out(a)]
        if c == 'print':
            return ['print(%s)' % a, out(a)]
        if c == 'try':
            return ['try:', '    ' + out(a), 'except Exception:', '    ' + out(b)]
        if c == 'del':
            return ['tq = %s' % a, out('tq'), 'del tq']
        if c == 'for_break':
            return ['acc = 0', 'for j in range(4):', '    if j == 2:', '        break', '    acc = acc + %s' % a, out('acc')]
        if c == 'for_else':
            return ['acc = 0', 'for j in range(2):', '    acc = acc + 1', 'else:', '    acc = acc + %s' % a, out('acc')]
        if c == 'while_false':
            return ['tq = %s' % a, 'while False:', '    tq = tq + 1', out('tq')]
        if c == 'if_const':
            return ['if True:', '    ' + out(a), 'else:', '    ' + out(b)]
        if c == 'starred':
            return ['ta, *tb = %s, 2, 3' % a, out('ta')]
        if c == 'swap':
            return ['ta = %s' % a, 'tb = %s' % b, 'ta, tb = tb, ta', out('ta')]
        if c == 'slice':
            return ['tb = [1, 2, 3][0:2]', out(a)]
        if c == 'chained_cmp3':
            return ['if %s <= %s < %s:' % (a, i0, b), '    ' + out('1'), 'else:', '    ' + out('2')]
        if c == 'chained_eq':
            return ['if %s == %s == 1:' % (i0, 'self.%s.get()' % p.ins[-1][0]), '    ' + out('1'), 'else:', '    ' + out('2')]
        if c == 'docstring':
            return ["'''sets the output'''", out(a)]
        if c == 'ann_assign':
            return ['tq: int = %s' % a, out('tq')]
        if c == 'unary_plus':
            return [out('+%s' % a)]
        if c == 'comprehension':
            return ['tq = sum([x for x in range(3)])', out('tq + %s' % a)]
        if c == 'width_call':
            return [out('self.%s.getWidth()' % p.ins[0][0])]
        if c == 'local_branch_only':
            # a local assigned in one branch and read in the same branch of a later statement (never read unassigned in Python)
            cnd = self.cmp(0)
            return ['if %s:' % cnd, '    tz = %s' % a, 'else:', '    ' + out(b), 'if %s:' % cnd, '    ' + out('tz')]
        if c == 'divmod':
            return ['tq, tr = divmod(%s, 3)' % a, out('tq + tr')]
        if c == 'fstring':
            return ["ts = f'{1}'", out(a)]
        if c == 'bit_length':
            return [out('(%s).bit_length()' % i0)]
        raise ValueError(c)


INJECTIONS = ['boolop_value', 'ternary_rhs', 'ternary_nested', 'ternary_call', 'for', 'while', 'subscript', 'tuple', 'chained_cmp', 'pow',
              'truediv', 'float', 'str', 'helper_call', 'abs_call', 'is', 'in', 'lambda', 'walrus', 'multi_target', 'nested_func',
              'int_call', 'bool_const', 'neg_const', 'big_const', 'match_guard', 'match_or', 'return', 'get_twice_aug_port']

# the systematic construct corpus (own workload, see run_check): every pattern kind of `match`, and the statement/expression forms of
# the language that the grammar of the supported subset does not produce; each is either refused or judged like any accepted program
MATCH_FAMILY = ['match_capture', 'match_capture_only', 'match_capture_unused', 'match_capture_state', 'match_capture_guard', 'match_as',
                'match_or_as', 'match_wild_as', 'match_seq', 'match_class', 'match_class_capture', 'match_singleton', 'match_mapping',
                'match_neg_value', 'match_dup_value', 'match_attr_value', 'match_no_default', 'match_default_pass', 'match_nested',
                'match_expr_subject', 'match_guard', 'match_or']
CONSTRUCTS = MATCH_FAMILY + ['aug_other', 'ternary_cond', 'not_in', 'is_not', 'assert', 'print', 'try', 'del', 'for_break', 'for_else',
                             'while_false', 'if_const', 'starred', 'swap', 'slice', 'chained_cmp3', 'chained_eq', 'docstring', 'ann_assign',
                             'unary_plus', 'comprehension', 'width_call', 'local_branch_only', 'divmod', 'fstring', 'bit_length',
                             'walrus', 'tuple', 'chained_cmp', 'for', 'while', 'multi_target', 'lambda', 'in', 'is', 'return']


# the constructor-shape family (own workload, see run_check): every statement shape a constructor may use to give a state attribute its
# power-up value -- one literal, the same attribute assigned again (same value, other value, several times, interleaved with ports and
# with other states, a defaults section followed by an override section), bool literals, mixed bool/int, other literal spellings, and
# the shapes outside the literal form (refused or judged like any accepted program). Python keeps the LAST value assigned; the oracle is
# the co-simulation from power-up (state trajectory starts with the constructor's values).
CTOR_REASSIGN = ['reassign_same', 'reassign_diff', 'reassign_thrice', 'reassign_interleaved', 'reassign_to_zero', 'reassign_from_zero',
                 'reassign_all', 'bool_then_int', 'int_then_bool', 'bool_then_bool']
CTOR_SHAPES = CTOR_REASSIGN + ['bool_true', 'bool_false', 'states_before_ports', 'states_between_ports', 'hex_literal', 'underscore_literal',
                               'multi_target', 'neg_literal', 'expr_literal', 'aug_in_ctor', 'tuple_assign', 'local_name', 'ann_assign',
                               'ternary_literal', 'call_literal']


def apply_ctor(prog, shape, rnd):
    """Sets prog.ctor for the shape. Returns True when the first and the last literal given to some state differ (deciding case)."""
    st = [n for n, _ in prog.states]
    s0, s1 = 'self.' + st[0], 'self.' + st[-1]
    default = ['self.%s = %d' % (n, v) for n, v in prog.states]
    rest = default[1:]
    a = rnd.randint(0, 9)
    b = rnd.choice([x for x in range(10) if x != a])
    c = rnd.choice([x for x in range(10) if x != b])
    nz = rnd.randint(1, 9)
    pre, mid, post = [], [], default
    differ = False
    if shape == 'reassign_same':
        post = default + [default[0]]
    elif shape == 'reassign_diff':
        post, differ = ['%s = %d' % (s0, a)] + rest + ['%s = %d' % (s0, b)], True
    elif shape == 'reassign_thrice':
        post, differ = ['%s = %d' % (s0, a)] + rest + ['%s = %d' % (s0, b), '%s = %d' % (s0, c)], a != c
    elif shape == 'reassign_interleaved':
        pre, mid, post, differ = ['%s = %d' % (s0, a)], rest + ['%s = %d' % (s0, c)], ['%s = %d' % (s0, b)], a != b
    elif shape == 'reassign_to_zero':
        post, differ = ['%s = %d' % (s0, nz)] + rest + ['%s = 0' % s0], True
    elif shape == 'reassign_from_zero':
        post, differ = ['%s = 0' % s0] + rest + ['%s = %d' % (s0, nz)], True
    elif shape == 'reassign_all':
        post, differ = ['self.%s = 0' % n for n in st] + ['self.%s = %d' % (n, v + 1 + i) for i, (n, v) in enumerate(prog.states)], True
    elif shape == 'bool_then_int':
        post, differ = ['%s = True' % s0] + rest + ['%s = %d' % (s0, nz + 1)], True
    elif shape == 'int_then_bool':
        post, differ = ['%s = %d' % (s0, nz + 1)] + rest + ['%s = %s' % (s0, rnd.choice(['True', 'False']))], True
    elif shape == 'bool_then_bool':
        x = rnd.choice(['True', 'False'])
        post, differ = ['%s = %s' % (s0, x)] + rest + ['%s = %s' % (s0, 'False' if x == 'True' else 'True')], True
    elif shape == 'bool_true':
        post = ['%s = True' % s0] + rest
    elif shape == 'bool_false':
        post = ['%s = False' % s0] + rest
    elif shape == 'states_before_ports':
        pre, post = default, []
    elif shape == 'states_between_ports':
        mid, post = default, []
    elif shape == 'hex_literal':
        post = ['%s = %s' % (s0, rnd.choice(['0x1F', '0b101', '0o17', '0xff']))] + rest
    elif shape == 'underscore_literal':
        post = ['%s = %s' % (s0, rnd.choice(['1_000', '6_5', '0x1_0']))] + rest
    elif shape == 'multi_target':
        post = ['%s = %s = %d' % (s0, s1 if s1 != s0 else 'self.sx', nz)]
    elif shape == 'neg_literal':
        post = ['%s = -%d' % (s0, nz)] + rest
    elif shape == 'expr_literal':
        post = ['%s = %d + %d' % (s0, a, nz)] + rest
    elif shape == 'aug_in_ctor':
        post = default + ['%s += %d' % (s0, nz)]
    elif shape == 'tuple_assign':
        post = ['%s, self.sx = %d, %d' % (s0, a, b)] + rest
    elif shape == 'local_name':
        post = ['nloc = %d' % nz, '%s = nloc' % s0] + rest
    elif shape == 'ann_assign':
        post = ['%s: int = %d' % (s0, nz)] + rest
    elif shape == 'ternary_literal':
        post = ['%s = %d if True else %d' % (s0, a, b)] + rest
    elif shape == 'call_literal':
        post = ['%s = int(%d)' % (s0, nz)] + rest
    else:
        raise ValueError(shape)
    prog.ctor = (pre, mid, post)
    return differ


# --------------------------------------------------------------------------- loading and running

def load_class(src, name, d):
    path = os.path.join(d, name + '.py')
    with open(path, 'w') as f:
        f.write(src)
    spec = importlib.util.spec_from_file_location(name, path)
    mod = importlib.util.module_from_spec(spec)
    sys.modules[name] = mod
    try:
        spec.loader.exec_module(mod)
    finally:
        sys.modules.pop(name, None)
    return getattr(mod, name)


class Result:
    def __init__(self):
        self.status = None   # refused | invalid_text | indeterminate | compared | python_error
        self.detail = None
        self.mismatch = None
        self.steps = 0
        self.in_domain = 0
        self.skipped = 0
        self.values = set()
        self.text = None
        self.diags = []
        self.unassigned = []


def transpile(obj):
    import py4hw
    with muted():
        return py4hw.VerilogGenerator(obj).getVerilogForHierarchy()


def never_assigned_reads(text):
    """Static clause on accepted text: an `integer` the module declares and uses but never assigns anywhere (initial block included)
    can only be read -- its value is not something the Python method computes. Returns the list of such names."""
    import re
    bad = []
    for seg in text.split('endmodule'):
        for x in re.findall(r'^\s*integer\s+(\w+)\s*;', seg, re.M):
            body = re.sub(r'^\s*integer\s+%s\s*;' % re.escape(x), '', seg, flags=re.M)
            if not re.search(r'(?<![\w.$])%s(?![\w$])' % re.escape(x), body):
                continue        # declared, never used
            if re.search(r'(?<![\w.$])%s\s*=(?!=)' % re.escape(x), body):
                continue        # blocking assignment somewhere
            if re.search(r'(^|;|:|\bbegin\b|\belse\b)\s*%s\s*<=' % re.escape(x), body, re.M):
                continue        # non-blocking assignment in statement position
            bad.append(x)
    return bad


def cosim_behavioural(obj, hw, ins, outs, state_names, vectors, sequential, text=None, as_instance=False, watch=(), power_up=False):
    """ins/outs: lists of wires. Returns Result."""
    res = Result()
    if text is None:
        try:
            text = transpile(obj)
        except BaseException as e:
            res.status = 'refused'
            res.detail = '%s: %s' % (type(e).__name__, str(e)[:160])
            return res
    res.text = text
    d = vlog.check_design(text)
    res.diags = d.diags
    bad = [x for x in d.diags if x.code.startswith('parse:') or x.code in (
        'undeclared_identifier', 'duplicate_declaration', 'module_defined_twice', 'wire_assigned_procedurally', 'reg_driven_continuously',
        'multiple_drivers', 'param_no_default', 'assign_to_non_net')]
    import py4hw.rtl_generation as rg
    top = rg.getVerilogModuleName(obj, noInstanceNumber=not as_instance)
    if bad or top not in d.mods:
        res.status = 'invalid_text'
        res.detail = repr(bad[0]) if bad else 'module %s not emitted' % top
        return res
    res.unassigned = never_assigned_reads(text)
    if res.unassigned:
        res.status = 'invalid_text'
        res.detail = 'integer %s is read in the emitted module but never assigned (no Python value corresponds to it)' % ', '.join(res.unassigned)
        return res
    # unsized decimal literals beyond 32 bits: judged only where the two extreme readings of the standard agree (see cosim.cosim)
    import re
    big = any(int(m) >= (1 << 31) for m in re.findall(r"(?<![\w'.])\d{10,}(?![\w'.])", text))
    it2 = None
    try:
        it = vlog.Interp(d, top, track=True, big_literal='extend' if big else 'x')
        if big:
            it2 = vlog.Interp(d, top, track=True, big_literal='wrap32')
    except vlog.Indeterminate as e:
        res.status = 'indeterminate'
        res.detail = str(e)
        return res
    mi = d.mods[top]
    pname = {}
    for prt in list(obj.inPorts) + list(obj.outPorts):
        n = prt.name if prt.name in mi.syms else 'reserved_' + prt.name
        pname[id(prt.wire)] = n
        if n not in mi.syms or mi.syms[n].dir is None:
            res.status = 'invalid_text'
            res.detail = 'port %s missing in header' % prt.name
            return res
    try:
        with muted():
            sim = hw.getSimulator()
    except Exception as e:    # the Python method itself fails on the all-zero power-up inputs
        res.status = 'python_error'
        res.detail = repr(e)[:200]
        return res
    vstates = [s for s in state_names if s in mi.syms and mi.syms[s].kind == 'integer']
    res.status = 'compared'

    def compare(step, vec, when):
        for w in outs:
            a, b = w.get(), it.get(pname[id(w)])
            res.values.add((w.name, a))
            if a != b and (it2 is None or a != it2.get(pname[id(w)])):
                res.mismatch = dict(kind='output', name=w.name, width=w.getWidth(), step=step, when=when, python=a, verilog=b, inputs=vec)
                return False
        for s in vstates:
            a = getattr(obj, s)
            b = it.top.vals[s]
            if isinstance(a, bool):
                a = int(a)
            res.values.add((s, a))
            if not isinstance(a, int) or a < 0 or a >= (1 << 31):
                return None          # the Python state left the domain: stop
            if a != b and (it2 is None or a != it2.top.vals[s]):
                res.mismatch = dict(kind='state', name=s, step=step, when=when, python=a, verilog=b, inputs=vec)
                return False
        return True

    if power_up and sequential:
        # the state trajectory starts at power-up: the constructor's values against the module's initial values
        for s in vstates:
            a = getattr(obj, s)
            if isinstance(a, bool):
                a = int(a)
            if isinstance(a, int) and 0 <= a < (1 << 31) and a != it.top.vals[s]:
                res.mismatch = dict(kind='state', name=s, step=-1, when='power-up', python=a, verilog=it.top.vals[s], inputs={})
                return res
    try:
        for step, vec in enumerate(vectors):
            for w in ins:
                v = vec.get(w.name, 0)
                w.put(v)
                it.set_input(pname[id(w)], v)
                if it2 is not None:
                    it2.set_input(pname[id(w)], v)
            d0, x0 = it.domain_exits, it.x_events
            try:
                with muted():
                    if sequential:
                        sim.clk(1)
                    else:
                        sim.propagateAll()
            except (ZeroDivisionError, ValueError, OverflowError, TypeError) as e:
                res.skipped += 1
                res.detail = 'python left the domain: %r' % (e,)
                break
            for itx in (it, it2):
                if itx is not None:
                    itx.settle()
                    if sequential:
                        itx.posedge()
            res.steps += 1
            # unbounded Python integers can grow without limit (s *= s every cycle): stop before arithmetic becomes the workload
            if any(isinstance(v, int) and abs(v) >= (1 << 63) for o in (obj,) + tuple(watch) for v in vars(o).values()):
                res.skipped += 1
                res.detail = 'python state left the domain (>= 2**63)'
                break
            if it.domain_exits != d0 or it.x_events != x0:
                res.skipped += 1
                if sequential:
                    # the two sides may have diverged legitimately: re-synchronise the Verilog state to the Python state
                    # (only possible while the Python state itself is inside the domain), then go on
                    ok_sync = True
                    for s in vstates:
                        a = getattr(obj, s)
                        if isinstance(a, bool):
                            a = int(a)
                        if not isinstance(a, int) or a < 0 or a >= (1 << 31):
                            ok_sync = False
                            break
                        it.top.vals[s] = a
                        if it2 is not None:
                            it2.top.vals[s] = a
                    if not ok_sync:
                        break
                    for itx in (it, it2):
                        if itx is not None:
                            for w in outs:
                                itx.top.vals[pname[id(w)]] = w.get()
                            # Verilog integers that are Python locals do not carry state: nothing to copy
                            itx.settle()
                    res.resyncs = getattr(res, 'resyncs', 0) + 1
                continue
            ok = compare(step, vec, 'after-edge' if sequential else 'settled')
            if ok is None:
                res.skipped += 1
                break
            res.in_domain += 1
            if not ok:
                break
    except vlog.Indeterminate as e:
        res.status = 'indeterminate'
        res.detail = str(e)
    return res


def vectors_for(ins, rnd, n, small):
    vecs = []
    for _ in range(n):
        v = {}
        for w in ins:
            ww = w.getWidth()
            r = rnd.random()
            if small and r < 0.7:
                v[w.name] = rnd.randint(0, min(7, (1 << ww) - 1))
            elif r < 0.85:
                v[w.name] = rnd.getrandbits(ww)
            else:
                v[w.name] = rnd.choice([0, 1, (1 << ww) - 1, 1 << (ww - 1)])
        vecs.append(v)
    return vecs


# --------------------------------------------------------------------------- corpus

def corpus():
    """(label, builder(hw) -> (obj, ins, outs), sequential)"""
    import py4hw
    out = []

    def W(hw, n, w=1):
        return hw.wire(n, w)

    def ser(hw):
        from py4hw.logic.protocol.uart.serdes import UARTSerializer
        w = dict(ready=W(hw, 'ready'), valid=W(hw, 'valid'), v=W(hw, 'v', 8), p=W(hw, 'uart_clock_posedge'), tx=W(hw, 'tx'))
        o = UARTSerializer(hw, 'ser', w['ready'], w['valid'], w['v'], w['p'], w['tx'])
        return o, None, None
    out.append(('UARTSerializer', ser, True))

    def des(hw):
        from py4hw.logic.protocol.uart.serdes import UARTDeserializer
        o = UARTDeserializer(hw, 'des', W(hw, 'rx'), W(hw, 'sample'), W(hw, 'ready'), W(hw, 'valid'), W(hw, 'v', 8), W(hw, 'desync'))
        return o, None, None
    out.append(('UARTDeserializer', des, True))

    def csf(hw):
        from py4hw.logic.protocol.uart.clock import ClockSyncFSM
        return ClockSyncFSM(hw, 'f', W(hw, 'start'), W(hw, 'stop'), W(hw, 'sync'), W(hw, 'active')), None, None
    out.append(('ClockSyncFSM', csf, True))

    def req(hw):
        from py4hw.emulation.HILWrapperUART import CMDRequest
        return CMDRequest(hw, 'req', W(hw, 'ready'), W(hw, 'valid'), W(hw, 'c', 8), W(hw, 'index_in', 8), W(hw, 'v_in', 32), W(hw, 'index_out', 8),
                          W(hw, 'set_index_in'), W(hw, 'set_v_in'), W(hw, 'set_index_out'), W(hw, 'clk_pulse'), W(hw, 'start_resp')), None, None
    out.append(('CMDRequest', req, True))

    def resp(hw):
        from py4hw.emulation.HILWrapperUART import CMDResponse
        return CMDResponse(hw, 'resp', W(hw, 'vin', 32), W(hw, 'size', 8), W(hw, 'start_resp'), W(hw, 'ready'), W(hw, 'valid'), W(hw, 'v', 8)), None, None
    out.append(('CMDResponse', resp, True))

    def a2c(hw):
        from py4hw.emulation.vitiswrapping import Axi2ClkFSM
        return Axi2ClkFSM(hw, 'f', W(hw, 'active_handshake'), W(hw, 'clk_target', 8), W(hw, 'reset_clk_count'), W(hw, 'clk_count', 8), W(hw, 'clk_out'), W(hw, 'load_outs')), None, None
    out.append(('Axi2ClkFSM', a2c, True))

    def vk(hw):
        from py4hw.emulation.vitiswrapping import VitisKernelFSM
        return VitisKernelFSM(hw, 'f', W(hw, 'ap_start'), W(hw, 'ap_reset'), W(hw, 'ap_done'), W(hw, 'ap_idle'), W(hw, 'ap_ready'), W(hw, 'load_outs'), W(hw, 'all_sent')), None, None
    out.append(('VitisKernelFSM', vk, True))
    out.append(('AutoReset', lambda hw: (py4hw.AutoReset(hw, 'ar', W(hw, 'reset')), None, None), True))
    out.append(('Latch', lambda hw: (py4hw.Latch(hw, 'l', W(hw, 'd', 4), W(hw, 'q', 4), W(hw, 'e')), None, None), False))
    out.append(('RotateLeftConstant', lambda hw: (py4hw.RotateLeftConstant(hw, 'r', W(hw, 'a', 8), 3, W(hw, 'r', 8)), None, None), False))
    out.append(('RotateRightConstant', lambda hw: (py4hw.RotateRightConstant(hw, 'r', W(hw, 'a', 8), 3, W(hw, 'r', 8)), None, None), False))
    out.append(('Sequence', lambda hw: (py4hw.Sequence(hw, 's', [1, 2, 3], W(hw, 'r', 8)), None, None), True))
    return out


TEST_CLASSES = '''import py4hw


class CounterBehavioural(py4hw.Logic):
    def __init__(self, parent, name, inc, q):
        super().__init__(parent, name)
        self.inc = self.addIn('inc', inc)
        self.q = self.addOut('q', q)

    def clock(self):
        if (self.inc.get()):
            self.q.prepare(self.q.get()+1)
'''


def ports_of(obj):
    ins = [p.wire for p in obj.inPorts]
    outs = [p.wire for p in obj.outPorts]
    return ins, outs


def state_names_of(obj):
    out = []
    for k, v in vars(obj).items():
        if isinstance(v, int) and not isinstance(v, bool) and k not in ('name',):
            out.append(k)
    return out


def corpus_texts(run=None):
    """(label, text) of every corpus class the transpiler accepts -- consumed by C03."""
    import py4hw
    out = []
    for label, build, seq in corpus():
        hw = py4hw.HWSystem()
        try:
            with muted():
                obj, _, _ = build(hw)
                # force the transpiler even for classes that have an inline/body provider? no: as a user would get it
                text = py4hw.VerilogGenerator(obj).getVerilogForHierarchy()
        except BaseException:
            continue
        out.append((label, text))
    return out


# --------------------------------------------------------------------------- judging

def classify(prog_cls, kind, res):
    if res.status == 'invalid_text' and res.unassigned and prog_cls.startswith('ctor:') and prog_cls[5:] not in CTOR_REASSIGN:
        # same mechanism seen statically: the state whose constructor statement was left out is only ever read by the method
        return 'ctor_statement_dropped', dict(program_class=prog_cls, when='power-up', what='state')
    if res.status == 'invalid_text' and res.unassigned:
        return 'reads_never_assigned_variable', dict(program_class=prog_cls, kind=kind)
    if res.status == 'invalid_text':
        d = res.diags[0] if res.diags else None
        code = d.code if d is not None else 'missing_module'
        for x in res.diags:
            if x.code.startswith('parse:') or x.code == 'undeclared_identifier':
                code = x.code
                break
        mech = {('attr_name', 'undeclared_identifier'): 'attr_vs_port_name',
                ('inject:ternary_rhs', 'parse:reserved_word'): 'ternary_emitted_as_statement',
                ('inject:ternary_nested', 'parse:reserved_word'): 'ternary_emitted_as_statement',
                ('inject:str', 'undeclared_identifier'): 'string_constant_accepted',
                ('inject:docstring', 'parse:syntax'): 'string_constant_accepted',
                ('inject:ternary_cond', 'parse:reserved_word'): 'ternary_emitted_as_statement',
                ('inject:float', 'parse:unsupported'): 'float_constant_accepted'}.get((prog_cls, code))
        if mech:
            return mech, dict(program_class=prog_cls, code=code)
        return 'emits_invalid_text', dict(program_class=prog_cls, kind=kind, code=code)
    m = res.mismatch
    if prog_cls == 'inject:boolop_value':
        # Python and/or return one of the operands, Verilog &&/|| a truth value
        return 'boolop_value_semantics', dict(program_class=prog_cls, verilog_is_truth_value=m['verilog'] in (0, 1), python_is_truth_value=m['python'] in (0, 1))
    if prog_cls.startswith('ctor:') and prog_cls[5:] not in CTOR_REASSIGN and m.get('when') == 'power-up':
        # a constructor statement outside the form `self.x = <literal>` was accepted and left out of the initial block
        return 'ctor_statement_dropped', dict(program_class=prog_cls, when='power-up', what=m['kind'])
    return 'behaviour_differs', dict(program_class=prog_cls, kind=kind, what=m['kind'])


def judge(run, label, prog_cls, kind, res, case, src_hash):
    run.ev()
    run.count('programs_generated')
    run.count('status_' + res.status)
    run.count('class_%s_%s' % (prog_cls.split(':')[0], res.status))
    run.count('steps', res.steps)
    run.count('steps_in_domain', res.in_domain)
    run.count('steps_skipped_out_of_domain', res.skipped)
    if res.status == 'compared':
        run.count('programs_compared')
        for f in case.get('features', ()):
            run.count('compared_with_' + f)
            if f == 'wide_const':
                run.count('steps_in_domain_with_wide_const', res.in_domain)
        if res.in_domain >= 8 and len(res.values) >= len(set(n for n, _ in res.values)) + 1:
            run.nt(src_hash)
    if res.status == 'invalid_text' or res.mismatch is not None:
        key, fields = classify(prog_cls, kind, res)
        what = res.detail if res.status == 'invalid_text' else '%s %s step %d: python %s, verilog %s' % (
            res.mismatch['kind'], res.mismatch['name'], res.mismatch['step'], res.mismatch['python'], res.mismatch['verilog'])
        run.violation(key, fields, dict(case, mismatch=res.mismatch, detail=res.detail, text=(res.text or '')[:5000]),
                      what='%s [%s]: %s' % (label, prog_cls, what))
    if run.evaluations % 61 == 1:
        run.sample(dict(program=label, program_class=prog_cls, kind=kind, status=res.status, steps=res.steps, in_domain=res.in_domain,
                        detail=res.detail, source=case.get('source', '')[:700]))


def run_generated(run, d, idx, seed, n_cycles, forced=None, ctor=None):
    import py4hw
    rnd = rng(seed, 'c02-ctor', idx) if ctor is not None else rng(seed, 'c02-gen', idx) if forced is None else rng(seed, 'c02-construct', idx)
    kind = 'clock' if rnd.random() < 0.7 else 'propagate'
    r = rnd.random()
    if ctor is not None:
        inject, cls, kind = None, 'ctor:' + ctor, 'clock'
    elif forced is not None:
        inject, cls = forced, 'inject:' + forced
        if inject.startswith('match_'):
            kind = 'clock'
    elif r < 0.6:
        cls, inject = 'main', None
    elif r < 0.66:
        cls, inject = 'attr_name', None
    else:
        inject = INJECTIONS[idx % len(INJECTIONS)] if rnd.random() < 0.8 else rnd.choice(INJECTIONS)
        cls = 'inject:' + inject
        if inject in ('match_guard', 'match_or'):
            kind = 'clock'
    g = PGen(rnd, kind, cls, inject, tail=(forced is not None and idx % 4 != 3))
    name = ('T%d_%d' if ctor is not None else 'G%d_%d' if forced is None else 'K%d_%d') % (os.getpid(), idx)
    differ = False
    if ctor is not None:
        g.min_states, g.wide, g.big_consts = 1 + idx % 2, False, False
    try:
        prog = g.build(name)
        if ctor is not None:
            differ = apply_ctor(prog, ctor, rnd)
        src = prog.source()
    except Exception as e:
        run.count('generator_error')
        return
    case = dict(workload='generated', index=idx, program_class=cls, source=src, features=sorted(prog.features))
    try:
        C = load_class(src, name, d)
    except SyntaxError:
        run.count('generated_source_invalid_python')
        return
    hw = py4hw.HWSystem()
    try:
        with muted():
            ins = [hw.wire(n, w) for n, w in prog.ins]
            outs = [hw.wire(n, w) for n, w in prog.outs]
            obj = C(hw, 'g', *ins, *outs, *[v for _, v in prog.consts])
    except Exception as e:
        run.count('construct_error')
        return
    vecs = vectors_for(ins, rnd, n_cycles, g.small)
    if g.match_info is not None:
        # steer the subject of the injected match to every listed value and to values outside the list (default / capture branch)
        mi_name, listed = g.match_info
        mw = dict(prog.ins)[mi_name]
        pool = list(listed) + [v for v in (0, 3, 5, 6, 7, 9, (1 << mw) - 1) if v not in listed and v < (1 << mw)]
        for v in vecs:
            if rnd.random() < 0.6:
                v[mi_name] = rnd.choice(pool)
    if cls == 'main' and prog.consts and idx % 3 == 0:
        # two instances of one class with different constructor constants, transpiled by one generator inside one parent:
        # each instance must get the text (and behaviour) of its own constants
        try:
            hw = py4hw.HWSystem()
            with muted():
                holder = type('Holder', (py4hw.Logic,), {})(hw, 'holder')
                objs, wires = [], []
                for k in range(2):
                    i2 = [hw.wire('%s_%d' % (n, k), w) for n, w in prog.ins]
                    o2 = [hw.wire('%s_%d' % (n, k), w) for n, w in prog.outs]
                    consts = [v if k == 0 else v + 1 + (idx % 5) for _, v in prog.consts]
                    objs.append(C(holder, 'g%d' % k, *i2, *o2, *consts))
                    wires.append((i2, o2))
                    for w_ in i2:
                        holder.addIn(w_.name, w_)
                    for w_ in o2:
                        holder.addOut(w_.name, w_)
                text = py4hw.VerilogGenerator(holder).getVerilogForHierarchy()
            which = 1 if rnd.random() < 0.7 else 0
            i2, o2 = wires[which]
            v2 = [{w_.name: v.get(n, 0) for (n, _), w_ in zip(prog.ins, i2)} for v in vecs]
            res = cosim_behavioural(objs[which], hw, i2, o2, [n for n, _ in prog.states], v2, kind == 'clock', text=text, as_instance=True,
                                    watch=(objs[1 - which],))
            run.count('pair_instances')
            judge(run, name + '/pair', 'main_pair', kind, res, dict(case, pair=True, which=which), stable_hash([src.replace(name, 'G'), 'pair']))
            return
        except Exception as e:
            run.count('pair_build_failed')
            hw = py4hw.HWSystem()
            with muted():
                ins = [hw.wire(n, w) for n, w in prog.ins]
                outs = [hw.wire(n, w) for n, w in prog.outs]
                obj = C(hw, 'g', *ins, *outs, *[v for _, v in prog.consts])
    text = None
    if cls == 'main' and kind == 'clock' and prog.states and idx % 3 == 1:
        # the text is asked of an object that has already been simulated for a while: it must still describe the block from power-up,
        # so it is compared against a fresh twin
        try:
            hw_u = py4hw.HWSystem()
            with muted():
                i_u = [hw_u.wire(n, w) for n, w in prog.ins]
                o_u = [hw_u.wire(n, w) for n, w in prog.outs]
                used = C(hw_u, 'g', *i_u, *o_u, *[v for _, v in prog.consts])
                sim_u = hw_u.getSimulator()
                for vec in vecs[:1 + idx % 7]:
                    for w_ in i_u:
                        w_.put(vec.get(w_.name, 0))
                    sim_u.clk(1)
                    if any(isinstance(v, int) and abs(v) >= (1 << 63) for v in vars(used).values()):
                        break
                text = py4hw.VerilogGenerator(used).getVerilogForHierarchy()
            run.count('generated_after_use')
            case = dict(case, generated_after_cycles=1 + idx % 7)
        except BaseException:
            text = None
    res = cosim_behavioural(obj, hw, ins, outs, [n for n, _ in prog.states], vecs, kind == 'clock', text=text, power_up=(cls == 'main' or ctor is not None))
    if ctor is not None:
        run.count('ctor_programs')
        st = 'refused' if res.status == 'refused' else 'accepted' if res.status in ('compared', 'invalid_text', 'indeterminate') else res.status
        br = run.extra.setdefault('ctor_shapes', {})
        br['%s:%s' % (ctor, st)] = br.get('%s:%s' % (ctor, st), 0) + 1
        if res.status == 'compared':
            run.count('ctor_programs_compared')
            if ctor in CTOR_REASSIGN:
                run.count('ctor_reassigned_state_compared_from_power_up')
                if differ:
                    run.count('ctor_reassigned_first_and_last_literal_differ')
    if forced is not None:
        run.count('construct_programs')
        st = 'refused' if res.status == 'refused' else 'accepted' if res.status in ('compared', 'invalid_text', 'indeterminate') else res.status
        br = run.extra.setdefault('construct_corpus', {})
        br['%s:%s' % (forced, st)] = br.get('%s:%s' % (forced, st), 0) + 1
        if res.status == 'compared':
            run.count('construct_programs_compared')
            if g.match_info is not None:
                mi_name, listed = g.match_info
                run.count('match_family_steps_on_listed_value', sum(1 for v in vecs[:res.steps] if v[mi_name] in listed))
                run.count('match_family_steps_on_unlisted_value', sum(1 for v in vecs[:res.steps] if v[mi_name] not in listed))
    judge(run, name, cls, kind, res, case, stable_hash(src.replace(name, 'G')))


PARAM_SRC = '''import py4hw


class PAcc_{tag}(py4hw.Logic):
    def __init__(self, parent, name, a, r, step, bias):
        super().__init__(parent, name)
        self.a = self.addIn('a', a)
        self.r = self.addOut('r', r)
        self.addParameter('STEP', step)
        self.addParameter('BIAS', bias)
        self.acc = 0

    def structureName(self):
        return 'PAcc_{tag}_%d' % self.r.getWidth()

    def clock(self):
        if (self.a.get() & 1):
            self.acc = (self.acc + self.getParameterValue('STEP')) & 255
        self.r.prepare(self.acc + self.getParameterValue('BIAS'))


class PScale_{tag}(py4hw.Logic):
    def __init__(self, parent, name, a, r, step, bias):
        super().__init__(parent, name)
        self.a = self.addIn('a', a)
        self.r = self.addOut('r', r)
        self.addParameter('STEP', step)
        self.addParameter('BIAS', bias)

    def structureName(self):
        return 'PScale_{tag}_%d' % self.r.getWidth()

    def propagate(self):
        self.r.put(self.a.get() * self.getParameterValue('STEP') + self.getParameterValue('BIAS'))


class PStage_{tag}(py4hw.Logic):
    def __init__(self, parent, name, a, r, step, bias, leaf):
        super().__init__(parent, name)
        self.addIn('a', a)
        self.addOut('r', r)
        self.addParameter('STEP', step)
        self.addParameter('BIAS', bias)
        self.leaf = leaf
        leaf(self, 'leaf', a, r, self.getParameter('STEP'), self.getParameter('BIAS'))

    def structureName(self):
        return 'PStage_{tag}_%s_%d' % (self.leaf.__name__, self.outPorts[0].wire.getWidth())
'''


def param_designs(run, d, seed, n, shard):
    """Behavioural leaves that read module parameters, instantiated directly and below a structural stage that forwards its own
    parameters, several instances with different values sharing one module name: every instance must behave with its own values."""
    import py4hw
    from . import cosim
    tag = '%d' % os.getpid()
    name = 'PMods_%s' % tag
    path = os.path.join(d, name + '.py')
    with open(path, 'w') as f:
        f.write(PARAM_SRC.replace('{tag}', tag))
    spec = importlib.util.spec_from_file_location(name, path)
    mod = importlib.util.module_from_spec(spec)
    sys.modules[name] = mod
    try:
        spec.loader.exec_module(mod)
    finally:
        sys.modules.pop(name, None)
    leaves = [getattr(mod, 'PAcc_' + tag), getattr(mod, 'PScale_' + tag)]
    Stage = getattr(mod, 'PStage_' + tag)
    for i in shard_slice(range(n), shard):
        rnd = rng(seed, 'c02-param', i)
        leaf = rnd.choice(leaves)
        k = rnd.choice([1, 2, 2, 3, 4])
        vals = [(rnd.choice([1, 2, 3, 7, 100, 1000, 40000]), rnd.choice([0, 1, 5, 300])) for _ in range(k)]
        if rnd.random() < 0.2:
            vals = [vals[0]] * k
        staged = [rnd.random() < 0.6 for _ in range(k)]
        w = rnd.choice([8, 16, 24])
        hw = py4hw.HWSystem()
        D = cosim.Dut.cls('Dut')
        try:
            with muted():
                dut = D(hw, 'dut')
                a = hw.wire('a', 4)
                outs = []
                for j, ((st, bi), stg) in enumerate(zip(vals, staged)):
                    r = hw.wire('r%d' % j, w)
                    if stg:
                        Stage(dut, 's%d' % j, a, r, st, bi, leaf)
                    else:
                        leaf(dut, 'l%d' % j, a, r, st, bi)
                    outs.append(r)
                cosim.wrap_ports(dut, [a], outs)
            des = cosim.Design(hw, dut, [a], outs, 'param-%d' % i)
            vecs = [{'a': rnd.getrandbits(4) if rnd.random() < 0.8 else 0} for _ in range(40)]
            out = cosim.cosim(des, vecs, leaf is leaves[0])
        except Exception as e:
            run.count('param_build_failed')
            continue
        run.ev()
        run.count('param_designs')
        run.count('param_status_' + out.status)
        case = dict(workload='param_forward', index=i, leaf=leaf.__name__.split('_')[0], values=vals, staged=staged, width=w)
        if out.status == 'compared':
            run.count('programs_compared')
            run.count('steps_in_domain', out.compared)
            if len(set(vals)) > 1 and any(staged):
                run.nt(stable_hash(['param', case['leaf'], vals, staged, w]))
        if out.mismatch is not None:
            m = out.mismatch
            run.violation('behaviour_differs', dict(program_class='param_forward', kind='clock' if leaf is leaves[0] else 'propagate', what='output'),
                          dict(case, mismatch=m, text=(out.text or '')[:5000]),
                          what='param-%d [%s, values %s, staged %s]: output %s cycle %s: python %s, verilog %s' % (
                              i, case['leaf'], vals, staged, m['output'], m['cycle'], m['simulator'], m['verilog']))
        elif out.status == 'invalid_text':
            run.violation('emits_invalid_text', dict(program_class='param_forward', kind='', code=(out.detail or '')[:40].split('[')[0]),
                          dict(case, detail=out.detail, text=(out.text or '')[:5000]), what='param-%d: %s' % (i, out.detail))


DERIVED_SRC = '''import py4hw


class GrayBuf_{tag}(py4hw.Buf):
    def propagate(self):
        self.r.put(self.a.get() ^ (self.a.get() >> 1))


class PlusNot_{tag}(py4hw.Not):
    def propagate(self):
        self.r.put((self.a.get() + 3) & 255)


class OrAnd_{tag}(py4hw.And2):
    def propagate(self):
        self.r.put(self.a.get() | self.b.get())


class SubAdd_{tag}(py4hw.Add):
    pass


class AccReg_{tag}(py4hw.Reg):
    def clock(self):
        self.q.prepare((self.q.get() + self.d.get()) & 255)


class PlainReg_{tag}(py4hw.Reg):
    pass
'''


def derived_designs(run, d, seed, shard):
    """User blocks derived from library primitives. One that overrides propagate/clock is a behavioural block like any other: its own
    method is what must be translated (or the block refused), never the text of the primitive it derives from."""
    import py4hw
    from . import cosim
    tag = 'd%d' % os.getpid()
    name = 'DMods_%s' % tag
    path = os.path.join(d, name + '.py')
    with open(path, 'w') as f:
        f.write(DERIVED_SRC.replace('{tag}', tag))
    spec = importlib.util.spec_from_file_location(name, path)
    mod = importlib.util.module_from_spec(spec)
    sys.modules[name] = mod
    try:
        spec.loader.exec_module(mod)
    finally:
        sys.modules.pop(name, None)
    kinds = [('GrayBuf', 1, False), ('PlusNot', 1, False), ('OrAnd', 2, False), ('SubAdd', 2, False), ('AccReg', 1, True), ('PlainReg', 1, True)]
    jobs = [(k, nested) for k in kinds for nested in (False, True)]
    for (cname, nin, seq), nested in shard_slice(jobs, shard):
        C = getattr(mod, '%s_%s' % (cname, tag))
        rnd = rng(seed, 'c02-derived', cname, nested)
        hw = py4hw.HWSystem()
        D = cosim.Dut.cls('Dut')
        try:
            with muted():
                dut = D(hw, 'dut')
                parent = dut
                if nested:
                    parent = cosim.Dut.cls('Mid')(dut, 'mid')
                ins = [hw.wire('x%d' % k, 8) for k in range(nin)]
                r = hw.wire('y', 8)
                C(parent, 'blk', *ins, r)
                if nested:
                    cosim.wrap_ports(parent, ins, [r])
                cosim.wrap_ports(dut, ins, [r])
            des = cosim.Design(hw, dut, ins, [r], 'derived-%s%s' % (cname, '-nested' if nested else ''))
            vecs = [{w.name: rnd.getrandbits(8) for w in ins} for _ in range(40)]
            out = cosim.cosim(des, vecs, seq)
        except Exception:
            run.count('derived_build_failed')
            continue
        run.ev()
        run.count('derived_designs')
        run.count('derived_status_' + out.status)
        case = dict(workload='derived_primitive', base=cname, nested=nested)
        if out.status == 'compared':
            run.count('programs_compared')
            run.nt(stable_hash(['derived', cname, nested]))
        if out.mismatch is not None:
            m = out.mismatch
            run.violation('behaviour_differs', dict(program_class='derived_primitive', kind='clock' if seq else 'propagate', what='output'),
                          dict(case, mismatch=m, text=(out.text or '')[:4000]),
                          what='%s: output %s cycle %s: python %s, verilog %s' % (des.label, m['output'], m['cycle'], m['simulator'], m['verilog']))


def run_check(run, tier, seed, shard):
    import py4hw
    quick = tier == 'quick'
    deadline = time.time() + (700 if quick else 3000)
    run.assume('domain filter: a step is compared only if every Verilog sub-expression value equals its unbounded value and is non-negative, '
               'integers stay below 2**31, and Python raised no arithmetic error; after the first out-of-domain step a clocked program is abandoned')
    run.assume('a refusal (any exception from the generator) is always acceptable')
    with run_dir() as d:
        # (a) corpus
        jobs = shard_slice(list(enumerate(corpus())), shard)
        for k, (label, build, seq) in jobs:
            hw = py4hw.HWSystem()
            rnd = rng(seed, 'c02-corpus', label)
            try:
                with muted():
                    obj, _, _ = build(hw)
            except Exception as e:
                run.count('corpus_construct_error')
                continue
            ins, outs = ports_of(obj)
            for rep in range(3 if quick else 20):
                vecs = []
                duty = {w.name: rnd.choice([0.1, 0.5, 0.9]) for w in ins}
                for _ in range(200 if quick else 1000):
                    vecs.append({w.name: (int(rnd.random() < duty[w.name]) if w.getWidth() == 1 else rnd.getrandbits(w.getWidth())) for w in ins})
                hw = py4hw.HWSystem()
                with muted():
                    obj, _, _ = build(hw)
                ins, outs = ports_of(obj)
                res = cosim_behavioural(obj, hw, ins, outs, state_names_of(obj), vecs, seq)
                judge(run, label, 'corpus', 'clock' if seq else 'propagate', res, dict(workload='corpus', label=label, rep=rep), stable_hash([label, rep]))
                if res.status != 'compared':
                    break
        # (e) user blocks derived from library primitives
        derived_designs(run, d, seed, shard)
        # (d) parameters forwarded through shared structural modules
        param_designs(run, d, seed, 60 if quick else 3000, shard)
        # (b)+(c) generated
        n = 2500 if quick else 200000
        cyc = 32 if quick else 64
        for idx in shard_slice(range(n), shard):
            if time.time() > deadline or run.too_many:
                break
            run_generated(run, d, idx, seed, cyc)
        # (f) the systematic construct corpus: every construct several times (own random stream), mostly as the last statement of the body
        n2 = len(CONSTRUCTS) * (6 if quick else 400)
        for idx in shard_slice(range(n2), shard):
            if time.time() > deadline or run.too_many:
                break
            run_generated(run, d, idx, seed, cyc, forced=CONSTRUCTS[idx % len(CONSTRUCTS)])
        if run.counters.get('construct_programs', 0) and not run.too_many:
            if run.counters.get('construct_programs_compared', 0) == 0:
                run.inconclusive.append('construct corpus: no accepted construct was co-simulated')
            if run.counters.get('match_family_steps_on_unlisted_value', 0) == 0 or run.counters.get('match_family_steps_on_listed_value', 0) == 0:
                run.inconclusive.append('construct corpus: the accepted match programs never reached a listed / an unlisted subject value')
        # (g) the constructor-shape family: every way a constructor gives a state attribute its power-up value, each several times
        n3 = len(CTOR_SHAPES) * (6 if quick else 200)
        for idx in shard_slice(range(n3), shard):
            if time.time() > deadline or run.too_many:
                break
            run_generated(run, d, idx, seed, cyc, ctor=CTOR_SHAPES[idx % len(CTOR_SHAPES)])
        if run.counters.get('ctor_programs', 0) and not run.too_many:
            if run.counters.get('ctor_reassigned_first_and_last_literal_differ', 0) == 0:
                run.inconclusive.append('constructor shapes: no accepted program that assigns a state attribute twice with different literals was co-simulated from power-up')
    run.extra['programs'] = run.counters.get('programs_compared', 0)
    run.extra['disagreements_checked'] = run.counters.get('steps_in_domain', 0)
    if run.counters.get('programs_compared', 0) == 0:
        run.inconclusive.append('no accepted program was compared')
    if time.time() > deadline:
        run.inconclusive.append('watchdog reached before the workload finished')


def replay(run, case):
    import py4hw
    c = case['case']
    if c.get('workload') != 'generated':
        print('replay of corpus cases: re-run ./check C02')
        return 0
    with run_dir() as d:
        name = c['source'].split('class ')[1].split('(')[0]
        C = load_class(c['source'], name, d)
        hw = py4hw.HWSystem()
        import re
        sig = re.search(r'def __init__\(self, parent, name, (.*?)\):', c['source']).group(1).split(', ')
        print('re-run ./check C02 with VERIF_SEED to regenerate; stored source:\n' + c['source'])
    return 0
