"""C11 -- ill-formed netlists are rejected when they are built or checked (DESIGN.md section C11)."""
import time

from . import c11seq, c11gen, c11integ
from .common import rng, shard_slice, stable_hash

LEVEL = 'exploration'
RULE = ('construction monitor: generated plans (random background of wire/child/wrapper/catalogue-block/rename/reparent/interface '
        'operations with fresh names) with exactly one injected fault out of 20 fault kinds (second driver x10 shapes, duplicate '
        'child, duplicate wire by wire()/wires()/rename/reparent/reparentAndRename/Interface expansion x4), plus the same plan with a '
        'fresh name instead of the fault; integrity monitor: every catalogue/storage/clock/FP block x configurations x nesting depth '
        'x checked sub-hierarchy x {complete, driver omitted, driver disconnected, output driver disconnected, undriven extra port '
        'at depth L}, plus histories on one live hierarchy (check / disconnect a driver / check twice / re-attach / check, and the '
        'same starting from a faulty build); plans also contain library interfaces (AXI4/Lite/Stream), '
        'write/read sub-interfaces, signals shared by reference and dropped again followed by a second use of the name, and '
        'disconnectWireFromLogicObject steps (primitive driver released and '
        'replaced, structural block or unrelated object refused), and addOut/addIn/reconnectIn on an EXISTING primitive after one of its '
        'ports was detached (the detached port\'s name or a new name; onto free / driven / read wires: 3 fault kinds readd_*, plus '
        'accept-only re-adds in the background); after every step a global invariant read from the object graph: over all live '
        'primitives an ordinary wire has at most one out port attached and it is getSource(); integrity: the undriven/driven extra '
        'port also on the special wires of a system (wire of the system clock driver, of a gated/derived driver of the level, of its '
        'base drivers, enable wire, block-generated clock, wires of another scope incl. one named clk). wire names are shared between '
        'parents (1 new wire in 5 takes a name in use in another parent; before half of the reparentAndRename moves the target parent '
        'gets an uninvolved wire carrying the moved wire\'s old name) and after every step, refused or accepted, every registered wire '
        'must still be the object found under its name in its parent\'s table. non-trivial = the plan/case contains a fault (accept-only ones are trivial); distinct by content hash')
SHARDS = {'quick': 1, 'thorough': 16}
TIMEOUT = {'quick': 600, 'thorough': 3000}
MIN_NONTRIVIAL = {'quick': 5000, 'thorough': 100000}

N_SEQ = {'quick': 12000, 'thorough': 400000}
CFGS_PER_BLOCK = {'quick': 5, 'thorough': 10 ** 6}


def assumptions(run):
    run.assume('"raises" = the faulting call raises any Exception; the exception classes seen are listed in the evidence')
    run.assume('the half-registered newcomer of a refused call (child left in parent.children, wire removed from its old table) '
               'is outside the statement and never judged; wires/children touched by a refused call are not reused by later steps')
    run.assume('BidirWire drivers are outside the statement (many-to-many by design); BidirWire only takes part in name-collision ops')
    run.assume('the HWSystem clock wire is a wire named clk of the top level: creating another wire of that name must be refused')
    run.assume('integrity clause judged on in/out ports attached to ordinary Wire objects; ports detached by '
               'disconnectWireFromLogicObject (port.wire None) and InOut/BidirWire ports are outside the statement: a case whose '
               'only defect is a detached port is excluded, never judged')
    run.assume('disconnectWireFromLogicObject(w, obj) releases w only when obj is the primitive whose own port is the source (or a '
               'primitive reader); for a structural block or an unrelated object it is refused ("wire and object are not connected") '
               'and the source stays -- otherwise the inner primitive stays attached and a second driver would be accepted')
    run.assume('Interface.removeSourceToSink/removeSinkToSource make the interface forget a signal; its wire is still a wire of the '
               'parent (registered, name taken, same-name creation refused) while another live interface lists it (sub-interfaces and '
               '...Ref share wires) or a port is attached to it; a signal dropped from its only interface and used by nothing is not '
               'judged either way')
    run.assume('refusals are part of the behaviour, not debugging aids: they must also happen in an interpreter started with -O '
               '(asserts stripped); a reduced pass of all fault kinds and integrity rejections runs in such a child interpreter')
    run.assume('a block is a primitive (its ports register as sink/source) when it has a propagate()/clock() method at the moment the '
               'port is declared, wherever the method is bound (class, or instance via types.MethodType as AbstractLogic users do)')
    run.assume('the verdict of checkIntegrity depends on the hierarchy as it is when called, not on earlier calls in the process')
    run.assume('"a wire that no block drives" is read literally for every wire object, clock driver wires included: the wire held by a '
               'ClockDriver (HWSystem clk, a gated/derived driver wire) has no source unless a block out port drives it, so a port on it '
               'must be reported; the unchanged tree does so')
    run.assume('adding an out port to an existing primitive (addOut after disconnectWireFromLogicObject) is one more way of creating a '
               'driver: on an already driven ordinary wire it must raise and leave the earlier driver, whatever the port name')
    run.assume('a hierarchy is any Logic object handed to checkIntegrity: drivers outside the checked sub-hierarchy still count as drivers')


SEQ_KEYS = {'fault_accepted': 'c11_fault_accepted', 'accept_raised': 'c11_accept_raised',
            'raised_elsewhere': 'c11_raised_elsewhere', 'earlier_replaced': 'c11_earlier_replaced'}


def judge_plan(run, plan, kind, faulty, res, interpreter=None):
    run.ev(res['judged'])
    run.count('seq_steps_judged', res['judged'])
    for x in res['exc']:
        run.extra.setdefault('fault_exception_classes', {})
        run.extra['fault_exception_classes'][x] = run.extra['fault_exception_classes'].get(x, 0) + 1
    run.count('seq_driver_invariant_wire_checks', res.get('inv_checked', 0))
    run.count('seq_readd_same_name_taken_from_a_detached_port', res.get('same_resolved', 0))
    for k, v in (res.get('readd') or {}).items():
        rd = run.extra.setdefault('seq_ports_readded_on_existing_block', {})
        rd[k] = rd.get(k, 0) + v
    for n in res['notes']:
        run.count('seq_notes')
        run.extra.setdefault('seq_notes', [])
        if n not in run.extra['seq_notes'] and len(run.extra['seq_notes']) < 20:
            run.extra['seq_notes'].append(n)
    if res['outcome'] == 'ok':
        return True
    step = plan[res['step']]
    fields = dict(kind=kind, faulty=bool(faulty), op=step['op'], outcome=res['outcome'])
    if res['outcome'] == 'earlier_replaced':
        fields['what'] = res['what']
    kase = dict(monitor='seq', kind=kind, faulty=faulty, plan=plan, step=res['step'])
    if interpreter:
        fields['interpreter'] = interpreter
        kase['interpreter'] = interpreter
    run.violation(SEQ_KEYS[res['outcome']], fields, kase,
                  expected='raise at the faulting step only; earlier driver/child/wire stay registered',
                  observed=res.get('detail'), what='%s%s %s: %s' % ('[python -O] ' if interpreter else '', kind, res['outcome'], res.get('detail')))
    return False


def run_sequences(run, tier, seed, shard, deadline):
    pool = c11gen.block_pool(tier)
    n = N_SEQ[tier]
    idx = shard_slice(range(n), shard)
    per_kind = {}
    discarded = 0
    for i in idx:
        if time.time() > deadline:
            run.inconclusive.append('sequence monitor hit the watchdog at plan %d' % i)
            break
        kind = c11gen.KINDS[i % len(c11gen.KINDS)]
        faulty = (i // len(c11gen.KINDS)) % 4 != 3          # 3 faulted plans for every fresh-name twin
        rnd = rng(seed, 'C11seq', i)
        mp = c11gen.make_plan(rnd, pool, kind, faulty)
        if mp is None:
            discarded += 1
            continue
        plan, nf = mp
        res = c11seq.run_plan(plan)
        for sfx, inc in (('faulted', int(faulty)), ('fresh_twin', int(not faulty)), ('fault_reached', res['faults'] if faulty else 0)):
            per_kind[kind + '|' + sfx] = per_kind.get(kind + '|' + sfx, 0) + inc
        if faulty:
            run.nt(stable_hash(plan))
        judge_plan(run, plan, kind, faulty, res)
        run.count('plans')
        if i % 997 == 0:
            run.sample(dict(monitor='seq', kind=kind, faulty=faulty, steps=len(plan), fault_exceptions=res['exc'],
                            last_ops=[dict((k, v) for k, v in op.items() if k not in ('inner', 'mkseq', 'new', 'bind')) for op in plan[-2:]]))
        if run.too_many:
            break
    run.extra['seq_per_kind'] = per_kind
    run.extra['seq_same_name_in_several_parents'] = dict(c11gen.STATS)
    run.extra['seq_plans_discarded_by_generator'] = discarded
    return per_kind


def integrity_workload(tier, seed, shard):
    from . import catalog, netblocks
    blocks = [('catalog', e) for e in catalog.ENTRIES] + [('netblocks', r) for r in netblocks.RECIPES]
    items = []
    for src, r in blocks:
        cfgs = r.configs(tier)
        n = CFGS_PER_BLOCK[tier]
        if len(cfgs) > n:
            st = (len(cfgs) - 1) / (n - 1)
            cfgs = [cfgs[int(round(k * st))] for k in range(n)]
        for cfg in cfgs:
            items.append((src, r.name, cfg))
    return shard_slice(items, shard)


def judge_case(run, case, res):
    run.ev()
    f = case.get('fault') or {}
    kind = f.get('kind', 'complete')
    if f:
        run.nt(stable_hash(case))
    run.extra.setdefault('integrity_by_fault', {})
    key = '%s:%s' % (kind, {None: 'excluded', True: 'must_raise', False: 'must_accept'}[res['expected']])
    run.extra['integrity_by_fault'][key] = run.extra['integrity_by_fault'].get(key, 0) + 1
    if kind == 'port' and f.get('wire'):
        sw = run.extra.setdefault('integrity_port_on_special_wire', {})
        k2 = '%s_%s:%s' % (f['wire'], f['dir'], {None: 'excluded', True: 'must_raise', False: 'must_accept'}[res['expected']])
        sw[k2] = sw.get(k2, 0) + 1
    if res['raised']:
        run.extra.setdefault('integrity_exception_classes', {})
        run.extra['integrity_exception_classes'][res['raised']] = run.extra['integrity_exception_classes'].get(res['raised'], 0) + 1
    if res.get('library_internal'):
        run.extra.setdefault('library_blocks_internally_undriven', [])
        t = '%s%r: %s' % (case['block'], case['cfg'], res['library_internal'][0])
        if t not in run.extra['library_blocks_internally_undriven'] and len(run.extra['library_blocks_internally_undriven']) < 20:
            run.extra['library_blocks_internally_undriven'].append(t)
    o = res['outcome']
    if o in ('ok', 'excluded'):
        return True
    if o == 'harness_mismatch':
        run.inconclusive.append('integrity plan table and object-graph walk disagree for %s%r fault=%r (walker=%d)' % (case['block'], case['cfg'], f, res['walker']))
        return False
    fields = dict(outcome=o, fault=kind, dir=f.get('dir'), dut_structural=res['info']['dut_structural'],
                  driver_not_registered=bool(res.get('driver_not_registered')))
    run.violation('c11_integrity_' + o, fields, case, expected='raise' if res['expected'] else 'return', observed=res['raised'] or 'returned',
                  what='checkIntegrity %s: %s%r depth=%d check_at=%d fault=%r -> %s' % (o, case['block'], case['cfg'], case['depth'], case['check_at'], f, res['raised'] or 'returned'))
    return False


def judge_history(run, case, res):
    run.ev(len(res['checks']))
    run.count('integrity_histories')
    run.nt(stable_hash(case))
    bf = run.extra.setdefault('integrity_history_checks', {})
    for phase, exp, raised in res['checks']:
        k = '%s:%s' % (phase, 'must_raise' if exp else 'must_accept')
        bf[k] = bf.get(k, 0) + 1
    o = res['outcome']
    if o == 'ok':
        return
    if o == 'library_internal':
        run.count('integrity_histories_skipped_block_internally_undriven')
        return
    if o == 'harness_mismatch':
        run.inconclusive.append('integrity history: plan table and object-graph walk disagree for %s%r step %s' % (case['block'], case['cfg'], res['step']))
        return
    fields = dict(outcome=o, fault='history', phase=res['phase'], dut_structural=res['info']['dut_structural'])
    run.violation('c11_integrity_' + o, fields, case, expected='raise' if o == 'missed' else 'return', observed=res.get('raised') or 'returned',
                  what='checkIntegrity %s in a history (%s, step %d of %r): %s%r depth=%d' % (o, res['phase'], res['step'], case['steps'], case['block'], case['cfg'], case['depth']))


def run_integrity(run, tier, seed, shard, deadline):
    items = integrity_workload(tier, seed, shard)
    per_block = {}
    for src, name, cfg in items:
        if time.time() > deadline:
            run.inconclusive.append('integrity monitor hit the watchdog')
            break
        rnd = rng(seed, 'C11int', name, repr(cfg))
        try:
            cases = c11integ.cases_for(src, name, cfg, rnd, tier)
        except Exception as e:
            run.violation('c11_block_does_not_build', dict(block=name), dict(monitor='integrity', src=src, block=name, cfg=cfg), observed=repr(e)[:200],
                          what='%s%r does not build: %r' % (name, cfg, e))
            continue
        internal = False
        for case in cases:
            if internal and case.get('fault'):
                run.count('integrity_faults_skipped_block_internally_undriven')
                continue
            try:
                res = c11integ.run_case(case)
                internal = internal or bool(res.get('library_internal'))
            except Exception as e:
                run.inconclusive.append('integrity harness crashed on %s%r %r: %r' % (name, cfg, case.get('fault'), e))
                continue
            judge_case(run, case, res)
            per_block[name] = per_block.get(name, 0) + 1
            run.count('integrity_cases')
            if run.counters['integrity_cases'] % 701 == 0:
                run.sample(dict(monitor='integrity', block=name, cfg=cfg, depth=case['depth'], check_at=case['check_at'], fault=case['fault'],
                                expected=res['expected'], raised=res['raised']))
        if not internal:
            for case in c11integ.history_cases_for(src, name, cfg, rnd, tier):
                try:
                    res = c11integ.run_history(case)
                except Exception as e:
                    run.inconclusive.append('integrity history harness crashed on %s%r: %r' % (name, cfg, e))
                    continue
                judge_history(run, case, res)
        if run.too_many:
            break
    run.extra['integrity_cases_per_block'] = per_block
    run.extra['integrity_blocks'] = len(per_block)


def run_child_O(job, d, timeout):
    import json
    import os
    import subprocess
    from .common import PYTHON, ROOT
    jp, op = os.path.join(d, 'c11opt-job.json'), os.path.join(d, 'c11opt-out.json')
    json.dump(job, open(jp, 'w'))
    env = dict(os.environ, PYTHONOPTIMIZE='1', PYTHONHASHSEED='0', MPLBACKEND='Agg')
    try:
        p = subprocess.run([PYTHON, '-O', '-m', 'vlib.c11opt', jp, op], cwd=ROOT, env=env, stdout=subprocess.DEVNULL, stderr=subprocess.PIPE, timeout=timeout)
    except subprocess.TimeoutExpired:
        return None, 'child interpreter (-O) hit the %ds watchdog' % timeout
    if not os.path.exists(op):
        return None, 'child interpreter (-O) died rc=%s: %s' % (p.returncode, (p.stderr or b'').decode(errors='replace')[-300:])
    return json.load(open(op)), None


def optimized_pass(run, tier, seed):
    """the refusal clauses once more in an interpreter started with -O: an error path must not be an assert"""
    from .common import run_dir
    n_plans, n_blocks = (500, 12) if tier == 'quick' else (4000, 60)
    with run_dir() as d:
        out, err = run_child_O(dict(seed=seed, tier=tier, n_plans=n_plans, n_blocks=n_blocks), d, 300 if tier == 'quick' else 1200)
    if err or 'import_failed' in (out or {}):
        run.inconclusive.append(err or 'py4hw failed to import under -O: %s' % out['import_failed'])
        return
    ev = dict(optimize_flag=out['optimize'], plans=0, faulting_steps_reached=0, integrity_cases=0, integrity_must_raise=0)
    if not out['optimize']:
        run.inconclusive.append('the child interpreter did not run optimized')
    for r in out['seq']:
        if r.get('discarded'):
            continue
        ev['plans'] += 1
        ev['faulting_steps_reached'] += r['res']['faults']
        if r['faulty']:
            run.nt(stable_hash(['-O', r['i'], r['kind']]))
        judge_plan(run, r.get('plan') or [], r['kind'], r['faulty'], r['res'], interpreter='-O')
    for r in out['integ']:
        res = r['res']
        ev['integrity_cases'] += 1
        ev['integrity_must_raise'] += int(bool(res.get('expected')))
        run.ev()
        if res['outcome'] in ('missed', 'false_alarm'):
            case = dict(r['case'], interpreter='-O')
            run.violation('c11_integrity_' + res['outcome'], dict(outcome=res['outcome'], fault=r['fault'], interpreter='-O',
                                                                  dut_structural=res['info'].get('dut_structural')), case,
                          expected='raise' if res['expected'] else 'return', observed=res.get('raised') or 'returned',
                          what='[python -O] checkIntegrity %s: %s%r fault=%r' % (res['outcome'], case['block'], case['cfg'], case.get('fault')))
        elif res['outcome'] in ('crash', 'harness_mismatch'):
            run.inconclusive.append('-O pass: integrity harness %s: %s' % (res['outcome'], res.get('detail')))
    run.extra['optimized_interpreter_pass'] = ev
    if ev['faulting_steps_reached'] < 0.6 * ev['plans'] or ev['integrity_must_raise'] < 20:
        run.inconclusive.append('-O pass reached only %d faulting steps / %d integrity rejections' % (ev['faulting_steps_reached'], ev['integrity_must_raise']))


def coverage_floor(run, tier):
    pk = run.extra.get('seq_per_kind', {})
    for k in c11gen.KINDS:
        if pk.get(k + '|fault_reached', 0) < (20 if tier == 'quick' else 200):
            run.inconclusive.append('fault kind %s reached its faulting step only %d times' % (k, pk.get(k + '|fault_reached', 0)))
    plans = run.counters.get('plans', 0)
    rd = run.extra.get('seq_ports_readded_on_existing_block', {})
    for k in ('out_same_name_must_raise', 'out_new_name_must_raise', 'out_same_name_must_accept', 'out_new_name_must_accept', 'in_same_name_must_accept',
              'in_new_name_must_accept'):
        if rd.get(k, 0) < 20:
            run.inconclusive.append('re-added port class %s judged only %d times' % (k, rd.get(k, 0)))
    if run.counters.get('seq_driver_invariant_wire_checks', 0) < 1000 or run.counters.get('seq_readd_same_name_taken_from_a_detached_port', 0) < 20:
        run.inconclusive.append('driver invariant / same-name re-adds hardly exercised')
    hs = run.extra.get('seq_same_name_in_several_parents', {})
    if hs.get('homonym_wire_names', 0) < 100 or hs.get('moves_with_bystander_of_the_old_name_in_target', 0) < 20:
        run.inconclusive.append('wire names shared between parents hardly exercised: %r' % hs)
    if run.extra.get('seq_plans_discarded_by_generator', 0) > 0.02 * max(1, plans):
        run.inconclusive.append('generator discarded %d plans' % run.extra['seq_plans_discarded_by_generator'])
    bf = run.extra.get('integrity_by_fault', {})
    for k in ('complete:must_accept', 'omit:must_raise', 'disc_in:must_raise', 'disc_out:must_raise', 'port:must_raise', 'port:must_accept'):
        if bf.get(k, 0) < 20:
            run.inconclusive.append('integrity class %s judged only %d times' % (k, bf.get(k, 0)))
    sw = run.extra.get('integrity_port_on_special_wire', {})
    for wk, driven in c11integ.SPECIAL_WIRES.items():
        if wk == 'fresh':
            continue
        n = sum(v for k, v in sw.items() if k.startswith(wk + '_in:') and k.endswith('must_accept' if driven else 'must_raise'))
        if n < 5:
            run.inconclusive.append('integrity: in port on special wire %s (%s) judged only %d times' % (wk, 'driven' if driven else 'undriven', n))
    hc = run.extra.get('integrity_history_checks', {})
    for k in ('initial:must_accept', 'after_disconnect:must_raise', 'repeat_after_disconnect:must_raise', 'after_reattach:must_accept',
              'initial:must_raise', 'repeat_initial:must_raise'):
        if hc.get(k, 0) < 20:
            run.inconclusive.append('integrity history check class %s judged only %d times' % (k, hc.get(k, 0)))
    if run.extra.get('seq_notes'):
        run.inconclusive.append('sequence harness notes: %s' % run.extra['seq_notes'][:2])


def run_check(run, tier, seed, shard):
    assumptions(run)
    t0 = time.time()
    total = 420 if tier == 'quick' else 2400
    run_sequences(run, tier, seed, shard, t0 + total * 0.5)
    if not run.too_many:
        run_integrity(run, tier, seed, shard, t0 + total)
    if not run.too_many and (shard is None or shard[0] == 0):
        optimized_pass(run, tier, seed)
    if shard is None:
        coverage_floor(run, tier)


def post_merge(run, tier, seed):
    coverage_floor(run, tier)


def replay(run, case):
    c = case['case']
    if c.get('interpreter') == '-O':
        from .common import run_dir
        with run_dir() as d:
            out, err = run_child_O(dict(replay=c), d, 120)
        res = (out or {}).get('replay') or {}
        print('replay under python -O (optimize=%s): %s %s' % ((out or {}).get('optimize'), err or res.get('outcome'), res.get('detail', '')))
        bad = res.get('outcome') not in ('ok', 'excluded') or bool(err)
        if bad:
            print('VIOLATION property=C11 replay=replayed')
        return 1 if bad else 0
    if c.get('monitor') == 'seq':
        res = c11seq.run_plan(c['plan'])
        print('replay sequence kind=%s faulty=%s -> %s %s' % (c.get('kind'), c.get('faulty'), res['outcome'], res.get('detail', '')))
        bad = res['outcome'] != 'ok'
    elif c.get('monitor') == 'integrity_history':
        res = c11integ.run_history(c)
        print('replay integrity history %s%r depth=%d steps=%r: checks (phase, must raise, raised)=%r -> %s' % (
            c['block'], c['cfg'], c['depth'], c['steps'], res['checks'], res['outcome']))
        bad = res['outcome'] in ('missed', 'false_alarm')
    else:
        c = dict(c)
        res = c11integ.run_case(c)
        print('replay integrity %s%r depth=%d check_at=%d fault=%r: expected %s, raised %s -> %s' % (
            c['block'], c['cfg'], c['depth'], c['check_at'], c.get('fault'), res['expected'], res['raised'], res['outcome']))
        bad = res['outcome'] in ('missed', 'false_alarm')
    if bad:
        print('VIOLATION property=C11 replay=replayed')
    return 1 if bad else 0
