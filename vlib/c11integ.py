"""C11 integrity monitor: checkIntegrity raises exactly when some port of the checked hierarchy is attached to a wire
nobody drives.  The expected verdict comes from the plan's own port/driver table; an independent walk over the real
object graph cross-checks the table (and catches library blocks that are internally undriven)."""
from .c11seq import classes, recipe, tup
from .c11gen import probe
from .common import muted

_K = {}


def nest_classes():
    if _K:
        return _K
    import py4hw

    class HNest(py4hw.Logic):
        def __init__(self, parent, name, ins, outs, extra, body):
            super().__init__(parent, name)
            for i, w in enumerate(ins):
                self.addIn('i%d' % i, w)
            for i, w in enumerate(outs):
                self.addOut('o%d' % i, w)
            if extra is not None:
                d, w, read = extra[:3]
                if len(extra) > 3 and extra[3] is not None:
                    self.clockDriver = extra[3]         # this level runs on its own (gated / derived / generated) clock
                if d == 'in':
                    self.addIn('xp', w)
                    if read:
                        classes()['HLeaf'](self, 'xreader', [w], [], [])
                else:
                    self.addOut('xp', w)
            body(self)

    _K['HNest'] = HNest
    return _K


def walk(obj, acc):
    """independent statement of the clause: ports of the hierarchy attached to an ordinary wire without a driver"""
    import py4hw
    for p in list(obj.inPorts) + list(obj.outPorts):
        w = p.wire
        if w is None or isinstance(w, py4hw.BidirWire) or not isinstance(w, py4hw.Wire):
            acc['not_attached'] += 1
        elif w.getSource() is None:
            acc['undriven'] += 1
            acc['where'].append(p.getFullPath())
            acc.setdefault('wires', set()).add(id(w))
    for c in obj.children.values():
        walk(c, acc)
    return acc


def dynamic_driver(parent, name, wire, meth):
    """a driver block made the AbstractLogic way: behaviour bound to the instance, then the port is declared"""
    import types
    import py4hw
    blk = py4hw.AbstractLogic('Dyn_' + name)(parent, name)

    def behaviour(me):
        pass
    setattr(blk, meth, types.MethodType(behaviour, blk))
    blk.r = blk.addOut('r', wire)
    return blk


# The wire an extra port is attached to.  Besides a fresh wire of the top level: the special wires of a system -- the wire object
# held by the system clock driver, by a gated / derived driver of the level that owns the port, by a base driver; the enable wire
# of a gated clock; a clock wire that a block generates; wires that live in another scope (one of them named like the clock).
# driven = some block's out port drives it (that is the only thing the clause looks at).
SPECIAL_WIRES = {'fresh': False, 'sysclk': False, 'gated_wire': False, 'gated_base': False, 'derived_base2': False, 'derived_mid': False,
                 'other_scope': False, 'other_scope_named_clk': False,
                 'gated_enable': True, 'generated_clk': True, 'other_scope_driven': True, 'gated_wire_generated': True}


def special_wire(hw, kind):
    """-> (wire, clock driver to install on the level that owns the port, or None)"""
    import py4hw
    if kind == 'fresh':
        return hw.wire('xp_wire', 3), None
    if kind == 'sysclk':
        return hw.clockDriver.wire, None
    if kind in ('other_scope', 'other_scope_named_clk', 'other_scope_driven'):
        side = py4hw.Logic(hw, 'side')
        w = side.wire('clk' if kind == 'other_scope_named_clk' else 'sw', 1)
        if kind == 'other_scope_driven':
            py4hw.Constant(side, 'sdrv', 1, w)
        return w, None
    en = hw.wire('xp_en', 1)
    py4hw.Constant(hw, 'xp_en_drv', 1, en)
    g = hw.wire('xp_gclk', 1)
    if kind == 'generated_clk':
        # a clock that a block of the design produces (PLL, divider): the driver's wire has a source
        py4hw.Constant(hw, 'xp_pll', 1, g)
        return g, py4hw.ClockDriver('gen', 25E6, 0, wire=g)
    if kind == 'gated_wire_generated':
        py4hw.Constant(hw, 'xp_pll', 1, g)
        return g, py4hw.ClockDriver('gated', base=hw.clockDriver, enable=en, wire=g)
    gated = py4hw.ClockDriver('gated', base=hw.clockDriver, enable=en, wire=g)
    if kind == 'gated_wire':
        return g, gated
    if kind == 'gated_base':
        return hw.clockDriver.wire, gated
    if kind == 'gated_enable':
        return en, gated
    g2 = hw.wire('xp_gclk2', 1)
    second = py4hw.ClockDriver('gated2', base=gated, enable=en, wire=g2)
    if kind == 'derived_base2':
        return hw.clockDriver.wire, second
    if kind == 'derived_mid':
        return g, second
    raise ValueError(kind)


def build_case(case):
    """-> (chain of hierarchy nodes [hw, W1..Wd, dut], info)"""
    import py4hw
    src, block, cfg = case['src'], case['block'], tup(case['cfg'])
    seq, in_names, out_names = probe(src, block, cfg)
    hw = py4hw.HWSystem()
    wires = dict((n, hw.wire('n_' + n, w)) for n, w in seq)
    ins = [wires[n] for n in in_names]
    outs = [wires[n] for n in out_names]
    fault = case.get('fault') or {}
    d = case['depth']
    drivers = {}
    for k, w in enumerate(ins):
        if fault.get('kind') == 'omit' and fault['k'] == k:
            continue
        kind = case['drv'][k % len(case['drv'])]
        if kind in ('dyn', 'dynclk'):
            drivers[k] = dynamic_driver(hw, 'drv%d' % k, w, 'clock' if kind == 'dynclk' else 'propagate')
        elif kind == 'seq':
            drivers[k] = py4hw.Sequence(hw, 'drv%d' % k, [0, 1, 3], w)
        else:
            drivers[k] = py4hw.Constant(hw, 'drv%d' % k, k + 1, w)
    xw, xclk = special_wire(hw, fault.get('wire', 'fresh')) if fault.get('kind') == 'port' else (None, None)
    chain = [hw]
    holder = {}

    def level(parent, j):
        if j > d:
            r = recipe(src, block)
            ins2, outs2 = r.build(parent, cfg, lambda n, w: wires[n])
            holder['dut'] = parent.children['d']
            return
        extra = (fault['dir'], xw, fault.get('read', False), xclk) if fault.get('kind') == 'port' and fault['level'] == j else None

        def body(me):
            chain.append(me)
            level(me, j + 1)
        nest_classes()['HNest'](parent, 'lv%d' % j, ins, outs, extra, body)
    level(hw, 1)
    chain.append(holder['dut'])
    if case.get('readers') and outs:
        classes()['HLeaf'](hw, 'reader', outs, [], [])
    info = dict(n_in=len(ins), n_out=len(outs), dut_structural=holder['dut'].isStructural())
    # input wires the plan's driver table calls driven (a driver block was instantiated on them and not disconnected)
    holder['plan_driven'] = [id(w) for k, w in enumerate(ins) if k in drivers and not (fault.get('kind') == 'disc_in' and fault['k'] == k)]
    if fault.get('kind') == 'disc_in':
        py4hw.disconnectWireFromLogicObject(ins[fault['k']], drivers[fault['k']])
    if fault.get('kind') == 'disc_out':
        w = outs[fault['j']]
        py4hw.disconnectWireFromLogicObject(w, w.getSource().parent)
    info['_plan_driven'] = holder['plan_driven']
    return chain, info


def plan_expected(case, info):
    """from the plan's own tables: does the checked hierarchy contain a port attached to an undriven wire?
    None = the case is outside the statement (only a detached port remains)"""
    f = case.get('fault') or {}
    d, c = case['depth'], case['check_at']
    k = f.get('kind')
    if k is None:
        return False
    if k in ('omit', 'disc_in'):
        return True                      # the DUT's own input port (depth d+1 >= c) hangs on the undriven wire
    if k == 'disc_out':
        if info['dut_structural']:
            return True                  # the DUT's out port is still attached to the now undriven wire
        # primitive DUT: its own port was detached; wrappers (1..d) and the top-level reader still hang on the wire
        if c <= d and d >= 1:
            return True
        if c == 0 and case.get('readers'):
            return True
        return None
    if k == 'port':
        if SPECIAL_WIRES[f.get('wire', 'fresh')]:
            return False                 # the extra port sits on a wire that a block drives
        return c <= f['level']
    raise ValueError(k)


def run_case(case):
    import py4hw.debug
    res = dict(outcome='ok')
    with muted():
        chain, info = build_case(case)
        plan_driven = info.pop('_plan_driven')
        node = chain[case['check_at']]
        acc = walk(node, dict(undriven=0, not_attached=0, where=[]))
        exp = plan_expected(case, info)
        raised = None
        try:
            py4hw.debug.checkIntegrity(node)
        except Exception as e:      # noqa
            raised = e
    res.update(info=info, walker=acc['undriven'], detached=acc['not_attached'], expected=exp, raised=None if raised is None else type(raised).__name__,
               msg=None if raised is None else str(raised)[:160])
    if exp is None:
        res['outcome'] = 'excluded'
        return res
    wexp = acc['undriven'] > 0
    lost = [w for w in plan_driven if w in acc.get('wires', ())]
    if lost:
        # the plan instantiated a driver block on this wire, yet the wire has no registered source: the plan's table is the
        # authority (every port wire is driven by a block), so the check has to accept
        res['driver_not_registered'] = len(lost)
    elif wexp != exp:
        if not case.get('fault') and wexp:
            res['library_internal'] = acc['where'][:3]
            exp = True
            res['expected'] = True
        else:
            res['outcome'] = 'harness_mismatch'
            return res
    if exp and raised is None:
        res['outcome'] = 'missed'
    elif not exp and raised is not None:
        res['outcome'] = 'false_alarm'
    return res


def cases_for(src, block, cfg, rnd, tier):
    seq, in_names, out_names = probe(src, block, cfg)
    ni, no = len(in_names), len(out_names)
    out = []

    def mk(d, c, fault=None, readers=None):
        out.append(dict(monitor='integrity', src=src, block=block, cfg=cfg, depth=d, check_at=c,
                        drv=[rnd.choice(['const', 'seq', 'dyn', 'dynclk']) for _ in range(max(1, min(ni, 4)))],
                        readers=rnd.random() < 0.5 if readers is None else readers, fault=fault))
    depths = [0, 1, 3] if tier == 'quick' else [0, 1, 2, 3, 5]
    for d in depths:
        for c in sorted({0, (d + 1) // 2, d + 1}):
            mk(d, c)
    ks = sorted({0, ni - 1, rnd.randrange(ni)}) if ni else []
    for k in ks:
        d = rnd.choice(depths)
        mk(d, rnd.randrange(d + 2), dict(kind='omit', k=k))
    if ni:
        d = rnd.choice(depths)
        mk(d, rnd.randrange(d + 2), dict(kind='disc_in', k=rnd.randrange(ni)))
    if no:
        for _ in range(2):
            d = rnd.choice(depths)
            mk(d, rnd.randrange(d + 2), dict(kind='disc_out', j=rnd.randrange(no)), readers=rnd.random() < 0.3)
    for d in depths:
        if d == 0:
            continue
        for dr, rd in (('in', False), ('in', True), ('out', False)):
            L = rnd.randrange(1, d + 1)
            mk(d, rnd.randrange(0, L + 1), dict(kind='port', level=L, dir=dr, read=rd), readers=False)
            if rnd.random() < 0.5:
                mk(d, rnd.randrange(L + 1, d + 2), dict(kind='port', level=L, dir=dr, read=rd))
    # the same extra port on the special wires of the system (clock driver wires, other scopes), driven and not
    kinds = sorted(k for k in SPECIAL_WIRES if k != 'fresh')
    picks = kinds if tier == 'thorough' else rnd.sample(kinds, 4)
    for wk in picks:
        d = rnd.choice([x for x in depths if x])
        L = rnd.randrange(1, d + 1)
        dr, rd = rnd.choice([('in', False), ('in', True), ('in', True), ('out', False)])
        inside = rnd.random() < 0.8
        c = rnd.randrange(0, L + 1) if inside else rnd.randrange(L + 1, d + 2)
        mk(d, c, dict(kind='port', level=L, dir=dr, read=rd, wire=wk), readers=False)
    return out


# ------------------------------------------------------------------------------------------------ histories
# One live hierarchy is checked repeatedly while drivers are removed and re-attached in between: the verdict of every
# check must follow the plan's driver table at that moment, whatever was checked before in the same process.

def history_cases_for(src, block, cfg, rnd, tier):
    seq, in_names, out_names = probe(src, block, cfg)
    ni = len(in_names)
    if ni == 0:
        return []
    out = []
    depths = [0, 1, 3] if tier == 'quick' else [0, 1, 2, 3, 5]
    for variant in ('complete_first', 'faulty_first'):
        d = rnd.choice(depths)
        node = lambda: rnd.randrange(1, d + 2)          # never the top level: detached driver blocks stay there
        k = rnd.randrange(ni)
        if variant == 'complete_first':
            c = node()
            steps = [['check', node()], ['disc', k], ['check', c], ['check', c], ['check', node()], ['attach', k], ['check', node()]]
            if rnd.random() < 0.5:
                steps += [['disc', k], ['check', node()], ['attach', k], ['check', node()]]
            omit = None
        else:
            c = node()
            steps = [['check', c], ['check', c], ['attach', k], ['check', node()], ['check', c], ['disc', k], ['check', node()]]
            omit = k
        out.append(dict(monitor='integrity_history', src=src, block=block, cfg=cfg, depth=d, check_at=0,
                        drv=[rnd.choice(['const', 'seq', 'dyn', 'dynclk']) for _ in range(max(1, min(ni, 4)))], readers=rnd.random() < 0.5,
                        fault=dict(kind='omit', k=omit) if omit is not None else None, steps=steps))
    return out


def run_history(case):
    import py4hw
    import py4hw.debug
    res = dict(outcome='ok', checks=[], step=None)
    with muted():
        base = dict(case)
        chain, info = build_case(base)
        info.pop('_plan_driven', None)
        hw = chain[0]
        seq, in_names, out_names = probe(case['src'], case['block'], tup(case['cfg']))
        ins = [hw._wires['n_' + n] for n in in_names]
        f = case.get('fault') or {}
        driven = [not (f.get('kind') == 'omit' and f['k'] == k) for k in range(len(ins))]
        cur = dict((k, hw.children.get('drv%d' % k)) for k in range(len(ins)))
        phase = 'initial'
        n_att = 0
        for i, (what, arg) in enumerate(case['steps']):
            if what == 'disc':
                py4hw.disconnectWireFromLogicObject(ins[arg], cur[arg])
                driven[arg] = False
                phase = 'after_disconnect'
            elif what == 'attach':
                n_att += 1
                cur[arg] = py4hw.Constant(hw, 'redrv%d_%d' % (arg, n_att), 1, ins[arg])
                driven[arg] = True
                phase = 'after_reattach'
            else:
                node = chain[arg]
                exp = not all(driven)
                acc = walk(node, dict(undriven=0, not_attached=0, where=[]))
                raised = None
                try:
                    py4hw.debug.checkIntegrity(node)
                except Exception as e:      # noqa
                    raised = e
                res['checks'].append([phase, exp, None if raised is None else type(raised).__name__])
                lost = any(driven[k] and ins[k].getSource() is None for k in range(len(ins)))
                if not lost and (acc['undriven'] > 0) != exp:
                    res.update(outcome='library_internal' if (i == 0 or all(driven)) and acc['undriven'] and not exp else 'harness_mismatch',
                               step=i, where=acc['where'][:2])
                    break
                if exp and raised is None:
                    res.update(outcome='missed', step=i, phase=phase)
                    break
                if not exp and raised is not None:
                    res.update(outcome='false_alarm', step=i, phase=phase, raised=type(raised).__name__, msg=str(raised)[:160])
                    break
                if phase in ('after_disconnect', 'after_reattach', 'initial'):
                    phase = 'repeat_' + phase
    res['info'] = info
    return res
