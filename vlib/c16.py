"""C16 -- AXI4-Stream adapters never lose, duplicate or corrupt a beat (DESIGN.md section C16).

Schedule-driven shadow-model monitor.  The real Axi2Reg / Reg2Axi (py4hw.emulation.vitiswrapping) is built
alone under a fresh HWSystem with every control, peer and data wire undriven; per cycle the harness pokes the
wires with Wire.put from a generated schedule, runs Simulator.propagateAll(), judges the combinational
clauses, runs Simulator.clk(1) and judges the sequential clauses against a shadow model that is written from
the property statement (not from the structural code).  In 30% of the schedules the adapter is added to a
system that already has a simulator (incremental build, at the top or inside existing nested blocks) and the
simulator is refreshed with HWSystem.getSimulator() before the schedule runs.

Environment assumption (the only one): ap_done is pulsed only in a cycle where, since the last ap_start (and
the last ap_reset), at least one beat has completed and no beat is pending (Reg2Axi: tvalid low).  The
schedule carries a per-cycle "wish" for ap_done, the harness grants it only when the assumption allows it.
"""
import math
import time

from .common import muted, rng, stable_hash

LEVEL = 'exploration'
RULE = ('a case is one schedule for one adapter: (adapter in {Axi2Reg, Reg2Axi}, register width W in {8,32,64} plus {12,33} for the '
        'ceil in the KEEP mask and {65,96,128,200,256,512}, stream width in {W rounded up to bytes, 64, 128, 256, 512} (for W>64: 128/256/512, Axi2Reg also with the register wider than the stream word), 200 (quick) / 400-1000 (thorough) cycles of '
        'ap_start/ap_reset/ap_done-wish/load_outs/peer VALID or READY/data, and a build history: adapter alone before the first getSimulator(), '
        'or (30%) added directly / one / two levels down to a system whose simulator already exists and has run, then getSimulator() again); and a driver: bench around clk(1) with a passive Simulator listener that applies the per-cycle clauses to what a listener sees, or (30%) a listener that does all poking and judging from inside clk(n), n up to 40; plus, for every second index, a kernel built by createHILVitis itself around a 1-32 bit DUT whose Reg2Axi is judged by the same clauses (load_outs observed, fed by the input adapter); plus one composition per index: 2-3 HWSystems with one adapter each, all inputs applied first, then every simulator clocked once, in same/reverse/rotating/random order; schedules are concatenations of phases (idle, '
        'back-to-back burst, back-pressure stall, control storm, load storm, random with per-schedule rates) so that bursts, stalls, '
        'load-while-pending and reset/done mid-transfer occur; ap_done is granted only under the environment assumption. Every cycle '
        'evaluates all clauses of the adapter (one evaluation per cycle). Non-trivial = the schedule contains back-pressure while '
        'VALID is high (Reg2Axi: tvalid&!tready; Axi2Reg: peer VALID while the adapter is not ready), a load while pending '
        '(Reg2Axi: load_outs&active while tvalid; Axi2Reg: a beat accepted while a value is already loaded) and a reset or done '
        'while active; distinct by content hash of the schedule. Long-stall class: per adapter one schedule for every k in 8,10..20 (thorough: '
        'every k in 8..21, three variants) = random prefix, the adapter brought to active with a beat pending (Reg2Axi) / active with or '
        'without a loaded word (Axi2Reg), 2**k+16 cycles with all controls and the peer READY/VALID low run in clk(n) chunks of doubling '
        'length (n <= 2**16) with VALID, data, sent, active / active, loaded, q, READY judged after every chunk (one evaluation per stall cycle), '
        'then the beat accepted and a random suffix under the per-cycle clauses')
SHARDS = {'quick': 1, 'thorough': 16}
TIMEOUT = {'quick': 600, 'thorough': 3000}
MIN_NONTRIVIAL = {'quick': 1000, 'thorough': 40000}

SCHEDULES = {'quick': 500, 'thorough': 14000}      # per (adapter, width slot); see run_check
# register widths: the design's {8,32,64}, {12,33} for the ceil in the KEEP mask, and registers wider than 64 bits (with streams of
# 128/256/512 bits: register wider than, equal to and narrower than the stream word)
WIDTHS = [8, 32, 64, 65, 8, 32, 64, 128, 12, 33, 96, 512, 8, 64, 200, 256]
# long uninterrupted stalls: a geometric family of 2**k + 16 cycles without any handshake (Reg2Axi: VALID pending, READY low;
# Axi2Reg: active, peer VALID low) -- past the wrap-around / top bit of any k-bit cycle counter inside the adapter
STALL_K = {'quick': (8, 10, 12, 14, 16, 18, 20), 'thorough': tuple(range(8, 22))}
STALL_VARIANTS = {'quick': 1, 'thorough': 3}


# --------------------------------------------------------------------------- schedules

def _phase(rnd, base):
    """One phase: (length, probabilities start/reset/done/load/hs) -- hs is the peer's VALID (Axi2Reg) or READY (Reg2Axi)."""
    kind = rnd.choice(['idle', 'burst', 'burst', 'stall', 'stall', 'ctrl', 'load', 'random', 'random', 'base', 'base'])
    n = rnd.randint(1, 25)
    if kind == 'idle':
        p = dict(start=0, reset=0, done=0, load=0, hs=0)
    elif kind == 'burst':       # peer always valid/ready: back-to-back beats
        p = dict(start=base['start'], reset=0, done=rnd.choice([0, 0.2]), load=rnd.choice([0.3, 0.7, 1.0]), hs=1.0)
    elif kind == 'stall':       # back-pressure / peer not ready, loads keep coming
        p = dict(start=base['start'] / 2, reset=0, done=0.1, load=rnd.choice([0.1, 0.5]), hs=rnd.choice([0, 0, 0.1]))
    elif kind == 'ctrl':        # control storm: start/reset/done close together
        n = rnd.randint(1, 8)
        p = dict(start=0.5, reset=rnd.choice([0.2, 0.5]), done=0.5, load=0.5, hs=0.5)
    elif kind == 'load':
        p = dict(start=0.1, reset=0, done=0.3, load=1.0, hs=rnd.choice([0.2, 0.5]))
    elif kind == 'random':
        p = dict(start=rnd.choice([0.05, 0.3, 0.7]), reset=rnd.choice([0, 0.02, 0.1]), done=rnd.choice([0.05, 0.3]),
                 load=rnd.choice([0.05, 0.3, 0.7]), hs=rnd.choice([0.05, 0.3, 0.7]))
    else:
        p = dict(base)
    return n, p


def gen_schedule(rnd, dut, W, ncyc):
    if W <= 64:
        dw = rnd.choice([8 * math.ceil(W / 8), 64, 64, 128, rnd.choice([256, 512])])
        if dw < W:
            dw = 64
    elif dut == 'axi2reg':
        dw = rnd.choice([128, 256, 512])        # the register may be wider than the stream word (missing bits read 0)
    else:
        dw = rnd.choice([d for d in (128, 256, 512) if d >= W])
    base = dict(start=rnd.choice([0.05, 0.3, 0.7]), reset=rnd.choice([0.0, 0.02, 0.1]), done=0.3,
                load=rnd.choice([0.05, 0.3, 0.7]), hs=rnd.choice([0.05, 0.3, 0.7]))
    width = dw if dut == 'axi2reg' else W
    pool = [0, 1, (1 << width) - 1, 1 << (width - 1), (1 << W) - 1, rnd.getrandbits(width)]
    if width > 64:
        pool += [1 << 64, ((1 << width) - 1) ^ ((1 << 64) - 1), ((1 << width) - 1) ^ ((1 << (width // 2)) - 1)]   # bit 64, only bits >= 64, upper half only
    pool = [v & ((1 << width) - 1) for v in pool]
    cyc = []
    while len(cyc) < ncyc:
        n, p = _phase(rnd, base)
        for _ in range(n):
            data = rnd.choice(pool) if rnd.random() < 0.25 else rnd.getrandbits(width)
            cyc.append([int(rnd.random() < p['start']), int(rnd.random() < p['reset']), int(rnd.random() < p['done']),
                        int(rnd.random() < p['load']), int(rnd.random() < p['hs']), data])
    hist = None
    if rnd.random() < 0.3:
        # incremental build: the adapter joins a system whose simulator already exists
        hist = dict(depth=rnd.choice([0, 1, 1, 2, 2]), warm=rnd.choice([0, 1, 3]), pre=rnd.random() < 0.6)
    # who drives and who looks: a bench around clk(1) with a passive Simulator listener, or a listener that does everything
    # from inside clk(n) calls with n up to 40
    drive = 'listener' if rnd.random() < 0.3 else 'bench'
    chunks = []
    if drive == 'listener':
        left = ncyc
        while left > 0:
            c = min(left, rnd.choice([1, 2, 3, 5, 8, 13, rnd.randint(2, 40)]))
            chunks.append(c)
            left -= c
    return dict(dut=dut, W=W, dw=dw, cycles=cyc[:ncyc], hist=hist, drive=drive, chunks=chunks)


def gen_stall(rnd, dut, W, k, variant):
    """Long-stall class: a short random prefix, forced cycles that leave the adapter active with a beat pending (Reg2Axi) /
    active with or without a loaded word (Axi2Reg), then 2**k + 16 cycles with every control input and the peer's READY/VALID low,
    then a suffix that starts with the peer's READY/VALID high (the pending beat is finally accepted) and goes on randomly.
    Prefix and suffix run cycle by cycle under the full monitor; the stall runs in clk(n) chunks of doubling length (n <= 2**16),
    with the visible state judged after every chunk -- with constant inputs the statement allows no change at all."""
    plan = gen_schedule(rnd, dut, W, 24 + 40)
    width = plan['dw'] if dut == 'axi2reg' else W
    d = [rnd.getrandbits(width) | 1 for _ in range(3)]
    pre, suf = plan['cycles'][:24], plan['cycles'][24:]
    if dut == 'reg2axi':
        forced = [[0, 1, 0, 0, 0, d[0]], [1, 0, 0, 0, 0, d[0]], [0, 0, 0, 1, 0, d[1]]]
    else:
        forced = [[0, 1, 0, 0, 0, d[0]], [1, 0, 0, 0, 0, d[0]]] + ([[0, 0, 0, 0, 1, d[1]]] if (k // 2 + variant) % 2 else [])
    first = [0, 0, 0, 0, 1, d[2]]
    plan.update(cycles=pre + forced + [first] + suf, stall_at=len(pre) + len(forced), stall=2 ** k + 16, stall_k=k, drive='bench', chunks=[],
                hist=None if variant % 2 == 0 else plan['hist'])
    return plan


def _stall_chunks(n):
    c = 1
    while n > 0:
        m = min(n, c)
        yield m
        n -= m
        c = min(2 * c, 2 ** 16)


def drive_stall(mon):
    mon.sim.addListener(_Passive(mon, every=4099))
    plan, ev = mon.plan, mon.ev
    for t in range(len(plan['cycles'])):
        if t == plan['stall_at']:
            mon.stall(plan['stall'])
        mon.begin(t)
        mon.sim.propagateAll()
        mon.mid(t)
        mon.step(t)
        mon.sim.clk(1)
        mon.end(t)


def gen_lockstep(rnd, ncyc):
    """Composition: 2-3 independent HWSystems, each with one adapter and its own schedule, stepped together."""
    k = rnd.choice([2, 2, 3])
    subs = []
    for _ in range(k):
        sub = gen_schedule(rnd, rnd.choice(['axi2reg', 'reg2axi']), rnd.choice(WIDTHS), ncyc)
        sub['drive'], sub['chunks'] = 'lockstep', []
        subs.append(sub)
    orders = rnd.choice(['same', 'reverse', 'rotate', 'random'])
    if orders == 'random':
        orders = [rnd.randrange(6) for _ in range(ncyc)]
    return dict(lockstep=subs, orders=orders)


# --------------------------------------------------------------------------- the two monitors

class Bad(Exception):
    def __init__(self, clause, fields, t, expected=None, observed=None, what=''):
        super().__init__(what)
        self.clause, self.fields, self.t, self.expected, self.observed, self.what = clause, fields, t, expected, observed, what


def _ctx(**kw):
    return '+'.join(k for k, v in kw.items() if v) or 'none'


def _build(dut, W, dw, hist=None):
    """hist=None: the adapter is the only block, built before the first getSimulator().
    hist=dict(depth, warm, pre): incremental build -- part of the system exists and has been simulated
    (getSimulator() + warm cycles) before the adapter is instantiated directly under the system (depth 0),
    inside an existing kernel block (1) or inside a block of that kernel (2); the simulator is then refreshed
    the documented way, with HWSystem.getSimulator()."""
    import py4hw
    import py4hw.logic.bus.axi as axi
    from py4hw.emulation.vitiswrapping import Axi2Reg, Reg2Axi
    hw = py4hw.HWSystem()
    st = axi.AXI4StreamInterface(hw, 's', dw, has_tlast=True, has_tkeep=True)
    s = dict(start=hw.wire('start'), reset=hw.wire('reset'), done=hw.wire('done'))
    host = hw
    if hist:
        kernel = py4hw.Logic(hw, 'kernel')
        host = hw if hist['depth'] == 0 else kernel
        if hist['depth'] == 2:
            host = py4hw.Logic(kernel, 'extra')
        if hist['pre']:
            # the other side of the kernel already exists and has been running
            st0 = axi.AXI4StreamInterface(hw, 's0', 64, has_tlast=True, has_tkeep=True)
            k = kernel
            if dut == 'axi2reg':
                Reg2Axi(k, 'pre', s['start'], s['reset'], s['done'], k.wire('pre_load'), k.wire('pre_in', 64), st0, k.wire('pre_sent'), k.wire('pre_active'))
            else:
                Axi2Reg(k, 'pre', s['start'], s['reset'], s['done'], st0, k.wire('pre_q', 64), k.wire('pre_loaded'), k.wire('pre_active'))
        sim0 = hw.getSimulator()
        if hist['warm']:
            s['start'].put(1)
            sim0.clk(hist['warm'])
            s['start'].put(0)
    s['active'] = host.wire('active')
    if dut == 'axi2reg':
        s.update(q=host.wire('q', W), loaded=host.wire('loaded'))
        Axi2Reg(host, 'dut', s['start'], s['reset'], s['done'], st, s['q'], s['loaded'], s['active'])
    else:
        s.update(load=host.wire('load'), reg_in=host.wire('reg_in', W), sent=host.wire('sent'))
        Reg2Axi(host, 'dut', s['start'], s['reset'], s['done'], s['load'], s['reg_in'], st, s['sent'], s['active'])
    sim = hw.getSimulator()
    return sim, s, st


class A2R:
    """Axi2Reg under its shadow model.  begin(t): grant ap_done, poke the inputs of cycle t; look(): judge what is visible
    between two edges; step(t): advance the shadow over edge t.  The drivers below decide who calls what, and from where."""
    dut = 'axi2reg'

    def __init__(self, plan, ev):
        self.plan, self.ev = plan, ev
        self.W = plan['W']
        self.mW = (1 << self.W) - 1
        self.sim, self.s, self.st = _build('axi2reg', self.W, plan['dw'], plan.get('hist'))
        self.m_active = self.m_loaded = self.m_q = 0
        self.completed = 0
        self.applied = []
        self.prev_beat = False
        self.t = 0                      # the visible state is the one going into edge t

    def begin(self, t):
        start, reset, wish, _load, valid, data = self.plan['cycles'][t]
        # no beat can be pending across cycles on this adapter (READY == active, so an offered beat completes at once)
        done = int(bool(wish) and self.completed > 0)
        self.applied.append([start, reset, done, 0, valid, data])
        s, st = self.s, self.st
        s['start'].put(start); s['reset'].put(reset); s['done'].put(done)
        st.tvalid.put(valid); st.tdata.put(data)

    def look(self, when):
        s = self.s
        active, loaded, q, tready = s['active'].get(), s['loaded'].get(), s['q'].get(), self.st.tready.get()
        if tready != active:
            raise Bad('tready_eq_active', dict(observed=tready, active=active, observer=when), self.t, active, tready,
                      'tready=%d while active=%d (%s)' % (tready, active, when))
        _shadow_cmp(self.t, self.applied, active, self.m_active, loaded, self.m_loaded, q, self.m_q, when)

    def mid(self, t):
        self.look('before the edge')

    def end(self, t):
        self.look('after the edge')

    def observe(self):
        self.ev['listener_observations'] += 1
        self.look('listener')

    in_stall = False

    def stall(self, n):
        """n cycles with start, reset, done and the peer's VALID low: no beat, no clear -- active, loaded, q and READY must not move."""
        s, st, ev = self.s, self.st, self.ev
        s['start'].put(0); s['reset'].put(0); s['done'].put(0); st.tvalid.put(0)
        ev['stall_began_active'] += self.m_active
        ev['stall_began_loaded'] += self.m_loaded
        self.in_stall = True
        for c in _stall_chunks(n):
            self.sim.clk(c)
            ev['cycles'] += c
            ev['stall_cycles'] += c
            ev['stall_looks'] += 1
            self.look('during an uninterrupted stall of %d cycles, %d cycles in' % (n, ev['stall_cycles']))
        self.in_stall = False
        ev['stalls_completed'] += 1

    def step(self, t):
        ev = self.ev
        start, reset, done, _l, valid, data = self.applied[t]
        m_active, m_loaded, m_q = self.m_active, self.m_loaded, self.m_q
        ctx = _ctx(start=start, reset=reset, done=done, valid=valid)
        beat = bool(valid and m_active)
        clear = bool(reset or done or (start and not m_active))
        ev['cycles'] += 1
        ev['beats'] += beat
        ev['back_to_back_beats'] += bool(beat and self.prev_beat)
        ev['peer_valid_while_not_ready'] += bool(valid and not m_active)
        ev['beat_overwrites_loaded'] += bool(beat and m_loaded and not clear)
        ev['beat_and_clear_same_cycle'] += bool(beat and clear)
        ev['reset_while_active'] += bool(reset and m_active)
        ev['done_while_active'] += bool(done and m_active)
        ev['done_granted'] += done
        ev['done_refused'] += bool(self.plan['cycles'][t][2] and not done)
        ev['restart'] += bool(start and not m_active)
        ev['start_and_reset_same_cycle'] += bool(start and (reset or done))
        ev['ctx_' + ctx] = ev.get('ctx_' + ctx, 0) + 1
        self.prev_beat = beat
        # shadow step, from the statement: holds the most recent beat transferred while active, loaded set,
        # until reset, done or a restart clears them (a clear in the same cycle as a beat wins)
        if clear:
            n_loaded, n_q = 0, 0
        elif beat:
            n_loaded, n_q = 1, data & self.mW
        else:
            n_loaded, n_q = m_loaded, m_q
        if reset or done:
            n_active = 0
        elif start:
            n_active = 1
        else:
            n_active = m_active
        if beat:
            self.completed += 1
        if start or reset:
            self.completed = 0
        self.m_active, self.m_loaded, self.m_q = n_active, n_loaded, n_q
        self.t = t + 1


def _shadow_cmp(t, cycles, active, m_active, loaded, m_loaded, q, m_q, when=''):
    """State visible before edge t must equal the shadow; the deciding inputs are those of cycle t-1."""
    if t > 0:
        start, reset, done, _l, valid, _d = cycles[t - 1]
        ctx = _ctx(start=start, reset=reset, done=done, valid=valid)
    else:
        ctx = 'power_up'
    if active != m_active:
        raise Bad('active_shadow', dict(expected=m_active, observed=active, ctx=ctx), t, m_active, active,
                  'active=%d, shadow says %d (inputs of the deciding cycle: %s; %s)' % (active, m_active, ctx, when))
    if loaded != m_loaded:
        raise Bad('loaded_shadow', dict(expected=m_loaded, observed=loaded, ctx=ctx), t, m_loaded, loaded,
                  'loaded=%d, shadow says %d (inputs of the deciding cycle: %s; %s)' % (loaded, m_loaded, ctx, when))
    if not m_loaded and q != 0:
        # "... until reset, done or a restart clears them": the word is cleared together with the loaded flag
        raise Bad('q_not_cleared', dict(ctx=ctx), t, 0, q,
                  'q=%#x while loaded=0: reset, done or restart must clear the held word (%s; %s)' % (q, ctx, when))
    if m_loaded and q != m_q:
        raise Bad('q_shadow', dict(ctx=ctx, relation='zero' if q == 0 else 'other'), t, m_q, q,
                  'q=%#x while loaded, most recent beat transferred while active carried %#x (%s; %s)' % (q, m_q, ctx, when))


class R2A:
    """Reg2Axi under its clause set; same protocol as A2R."""
    dut = 'reg2axi'

    def __init__(self, plan, ev):
        self.plan, self.ev = plan, ev
        self.W, dw = plan['W'], plan['dw']
        self.sim, self.s, self.st = _build('reg2axi', self.W, dw, plan.get('hist'))
        self.mW = (1 << self.W) - 1
        self.keep_mask = (1 << math.ceil(self.W / 8)) - 1          # documented: ceil(W/8) valid bytes in the lower bits
        self.m_active = 0
        self.latest = None            # reg_in sampled at the latest cycle with load_outs & active
        self.completed = 0
        self.applied = []
        self.prev_accept = False
        self.t = 0
        self.cur = None

    def comb(self, when):
        st, t = self.st, self.t
        tvalid, tlast, tkeep = st.tvalid.get(), st.tlast.get(), st.tkeep.get()
        if tlast != tvalid:
            raise Bad('tlast_eq_tvalid', dict(tvalid=tvalid, tlast=tlast, observer=when), t, tvalid, tlast, 'tlast=%d while tvalid=%d (%s)' % (tlast, tvalid, when))
        if tkeep != self.keep_mask:
            raise Bad('tkeep_mask', dict(relation='bits%+d' % (bin(tkeep).count('1') - bin(self.keep_mask).count('1'))), t, self.keep_mask, tkeep,
                      'tkeep=%#x, documented mask for W=%d is %#x' % (tkeep, self.W, self.keep_mask))
        if tvalid:
            td = st.tdata.get() & self.mW
            if self.latest is None:
                raise Bad('tvalid_without_load', dict(), t, 0, 1, 'tvalid high although no load_outs pulse was ever given while active')
            if td != self.latest:
                raise Bad('tdata_latest_load', dict(relation='zero' if td == 0 else 'other'), t, self.latest, td,
                          'tvalid high with tdata[%d:0]=%#x, latest load_outs&active sampled %#x (%s)' % (self.W - 1, td, self.latest, when))

    def begin(self, t):
        s, st = self.s, self.st
        start, reset, wish, load, ready, regin = self.plan['cycles'][t]
        pre_tvalid, pre_sent, active = st.tvalid.get(), s['sent'].get(), s['active'].get()
        if active != self.m_active:
            ctx = 'power_up' if t == 0 else _ctx(**dict(zip(('start', 'reset', 'done'), self.applied[t - 1][:3])))
            raise Bad('active_shadow', dict(expected=self.m_active, observed=active, ctx=ctx), t, self.m_active, active,
                      'active=%d, shadow says %d (inputs of the deciding cycle: %s)' % (active, self.m_active, ctx))
        done = int(bool(wish) and self.completed > 0 and not pre_tvalid)
        self.applied.append([start, reset, done, load, ready, regin])
        s['start'].put(start); s['reset'].put(reset); s['done'].put(done); s['load'].put(load)
        s['reg_in'].put(regin); st.tready.put(ready)
        self.cur = (pre_tvalid, pre_sent)

    def mid(self, t):
        self.comb('before the edge')

    def observe(self):
        self.ev['listener_observations'] += 1
        self.comb('listener')

    in_stall = False

    def stall(self, n):
        """n cycles with start, reset, done, load_outs and the peer's READY low: no beat can be accepted, nothing is reset, so VALID
        (and the word offered with it), sent and active must not move."""
        s, st, ev = self.s, self.st, self.ev
        s['start'].put(0); s['reset'].put(0); s['done'].put(0); s['load'].put(0); st.tready.put(0)
        self.sim.propagateAll()
        tv0, sent0 = st.tvalid.get(), s['sent'].get()
        ev['stall_began_with_valid_pending'] += bool(tv0 and self.m_active)
        self.in_stall = True
        done_ = 0
        for c in _stall_chunks(n):
            self.sim.clk(c)
            done_ += c
            ev['cycles'] += c
            ev['stall_cycles'] += c
            ev['stall_looks'] += 1
            ev['back_pressure_cycles'] += c * tv0
            tv, sent, active = st.tvalid.get(), s['sent'].get(), s['active'].get()
            ctx = 'uninterrupted_stall'
            if tv0 and not tv:
                raise Bad('valid_dropped', dict(ctx=ctx), self.t, 1, 0, 'tvalid fell without acceptance or reset: between %d and %d cycles into an uninterrupted '
                          'stall of %d cycles (READY, load_outs, start, reset, done all low)' % (done_ - c, done_, n))
            if tv and not tv0:
                raise Bad('tvalid_without_load', dict(ctx=ctx), self.t, 0, 1, 'tvalid rose %d..%d cycles into a stall without any load_outs' % (done_ - c, done_))
            if sent and not sent0:
                raise Bad('sent_without_accepted_beat', dict(ctx=ctx, tvalid=tv0), self.t, 0, 1,
                          'sent rose although READY was low throughout: %d..%d cycles into an uninterrupted stall of %d cycles' % (done_ - c, done_, n))
            if sent0 and not sent:
                raise Bad('sent_fell', dict(ctx=ctx), self.t, 1, 0, 'sent fell %d..%d cycles into a stall without reset, done or restart' % (done_ - c, done_))
            if active != self.m_active:
                raise Bad('active_shadow', dict(expected=self.m_active, observed=active, ctx=ctx), self.t, self.m_active, active,
                          'active=%d, shadow says %d, %d..%d cycles into a stall' % (active, self.m_active, done_ - c, done_))
            self.comb('during an uninterrupted stall, %d cycles in' % done_)
        self.in_stall = False
        ev['stalls_completed'] += 1

    def step(self, t):
        ev, m_active = self.ev, self.m_active
        start, reset, done, load, ready, regin = self.applied[t]
        pre_tvalid, pre_sent = self.cur
        peer_accept = bool(pre_tvalid and ready)
        accept = bool(peer_accept and m_active)
        load_eff = bool(load and m_active)
        ev['cycles'] += 1
        ev['tvalid_cycles'] += pre_tvalid
        ev['back_pressure_cycles'] += bool(pre_tvalid and not ready)
        ev['beats_accepted'] += accept
        ev['peer_accepts_while_inactive'] += bool(peer_accept and not m_active)
        ev['loads'] += load_eff
        ev['loads_ignored_inactive'] += bool(load and not m_active)
        ev['load_while_pending'] += bool(load_eff and pre_tvalid)
        ev['load_and_accept_same_cycle'] += bool(load_eff and accept)
        ev['reset_while_active'] += bool(reset and m_active)
        ev['reset_while_tvalid'] += bool(reset and pre_tvalid)
        ev['done_while_active'] += bool(done and m_active)
        ev['done_granted'] += done
        ev['done_refused'] += bool(self.plan['cycles'][t][2] and not done)
        ev['load_and_done_same_cycle'] += bool(load_eff and done)
        ev['restart'] += bool(start and not m_active)
        ev['back_to_back_accepts'] += bool(peer_accept and self.prev_accept)
        self.prev_accept = peer_accept
        if load_eff:
            self.latest = regin & self.mW
        self.acc = (peer_accept, accept)
        self.t = t + 1

    def end(self, t):
        ev, s, st, m_active = self.ev, self.s, self.st, self.m_active
        start, reset, done, load, ready, regin = self.applied[t]
        pre_tvalid, pre_sent = self.cur
        peer_accept, accept = self.acc
        post_tvalid, post_sent = st.tvalid.get(), s['sent'].get()
        ctx = _ctx(start=start, reset=reset, done=done, load=load, ready=ready, active=m_active)
        # VALID, once raised, stays until the cycle a beat is accepted or the adapter is reset
        if pre_tvalid and not peer_accept and not reset:
            ev['valid_hold_checked'] += 1
            if not post_tvalid:
                raise Bad('valid_dropped', dict(ctx=ctx), t, 1, 0, 'tvalid fell without acceptance or reset (cycle inputs: %s)' % ctx)
        if reset:
            ev['reset_edges'] += 1
            if post_tvalid:
                raise Bad('valid_after_reset', dict(ctx=ctx, pending=pre_tvalid), t, 0, 1,
                          'tvalid=1 after an edge with ap_reset high: "... until a beat is accepted or it is reset" (%s)' % ctx)
        if post_tvalid and not pre_tvalid:
            ev['valid_rises'] += 1
        self.comb('after the edge')
        if post_sent and not pre_sent:
            ev['sent_rises'] += 1
            if not accept:
                raise Bad('sent_without_accepted_beat', dict(ctx=ctx, tvalid=pre_tvalid), t, 0, 1,
                          'sent rose although no beat was accepted while active in that cycle (tvalid=%d, %s)' % (pre_tvalid, ctx))
        if pre_sent and not post_sent:
            ev['sent_falls'] += 1
            if not (reset or done or (start and not m_active)):
                raise Bad('sent_fell', dict(ctx=ctx), t, 1, 0, 'sent fell without reset, done or restart (%s)' % ctx)
        if accept:
            self.completed += 1
        if start or reset:
            self.completed = 0
        if reset or done:
            self.m_active = 0
        elif start:
            self.m_active = 1


class _Shim:
    def __init__(self, fn):
        self.put = fn


class R2AHil(R2A):
    """The Reg2Axi that createHILVitis builds around a DUT (one Axi2Reg per DUT input, load_outs = its loaded flag, one Reg2Axi
    per DUT output, ap_reset = not ap_rst_n).  Same clause set; load_outs is not poked but observed (it is driven by the input
    side, which is fed from the schedule's load column as the peer VALID of the input stream)."""

    def __init__(self, plan, ev):
        import py4hw
        import py4hw.emulation.vitiswrapping as hil
        from .common import run_dir
        self.plan, self.ev = plan, ev
        self.W = plan['W']
        dsys = py4hw.HWSystem()
        dut = py4hw.Buf(dsys, 'dut', dsys.wire('a', self.W), dsys.wire('r', self.W))
        with run_dir() as d:
            plt = hil.createHILVitis(dut, d + '/hil')
        platform = plt.platform
        w, k = platform._wires, platform.children['rtl_kernel_example']._wires
        import types
        self.st = types.SimpleNamespace(tvalid=w['axis01_tvalid'], tready=w['axis01_tready'], tdata=w['axis01_tdata'],
                                        tlast=w['axis01_tlast'], tkeep=w['axis01_tkeep'])
        self.load_outs = k['load_outs']

        def feed(v):
            w['axis00_tvalid'].put(v)
        self.s = dict(start=w['ap_start'], reset=_Shim(lambda v: w['ap_rst_n'].put(1 - v)), done=w['ap_done'], load=_Shim(feed),
                      reg_in=k['out0'], sent=k['sent0'], active=k['reg2axi_active0'])
        self.in_data = w['axis00_tdata']
        self.sim = platform.getSimulator()
        self.mW = (1 << self.W) - 1
        self.keep_mask = (1 << math.ceil(self.W / 8)) - 1
        self.m_active = 0
        self.latest = None
        self.completed = 0
        self.applied = []
        self.prev_accept = False
        self.t = 0
        self.cur = None

    def begin(self, t):
        R2A.begin(self, t)
        self.in_data.put(self.applied[t][5])
        # the load pulse this adapter sees in cycle t is what the input side drives now (a function of registers only)
        self.ev['hil_load_outs_high'] += self.load_outs.get()
        self.applied[t][3] = self.load_outs.get()


# --------------------------------------------------------------------------- who drives, who looks

class _Passive:
    """Simulator listener that only looks: the per-cycle clauses applied to what a listener sees at the end of every cycle."""

    def __init__(self, mon, every=1):
        self.mon, self.every, self.k = mon, every, 0

    def simulatorUpdated(self):
        self.k += 1
        if self.every == 1 or not self.mon.in_stall or self.k % self.every == 0:
            self.mon.observe()


class _Driving:
    """Simulator listener that is the whole bench: judges the cycle that just ended, pokes the next inputs, propagates them."""

    def __init__(self, mon, n):
        self.mon, self.n, self.k = mon, n, 0

    def simulatorUpdated(self):
        mon, t = self.mon, self.k
        mon.ev['listener_observations'] += 1
        mon.end(t)
        self.k = t + 1
        if t + 1 < self.n:
            mon.begin(t + 1)
            mon.sim.propagateAll()
            mon.mid(t + 1)
            mon.step(t + 1)


def _monitor(plan, ev):
    if plan.get('built_by') == 'createHILVitis':
        return R2AHil(plan, ev)
    return (A2R if plan['dut'] == 'axi2reg' else R2A)(plan, ev)


def drive_bench(mon):
    """Test-bench style: poke, propagate, look, clk(1), look -- plus a passive listener."""
    mon.sim.addListener(_Passive(mon))
    for t in range(len(mon.plan['cycles'])):
        mon.begin(t)
        mon.sim.propagateAll()
        mon.mid(t)
        mon.step(t)
        mon.sim.clk(1)
        mon.end(t)


def drive_listener(mon):
    """Everything happens from a Simulator listener inside clk(n) calls with n > 1 (plan['chunks'])."""
    n = len(mon.plan['cycles'])
    if not n:
        return
    mon.sim.addListener(_Driving(mon, n))
    mon.begin(0)
    mon.sim.propagateAll()
    mon.mid(0)
    mon.step(0)
    for c in mon.plan['chunks']:
        mon.ev['clk_calls_longer_than_one_cycle'] += c > 1
        mon.sim.clk(c)


_PERMS = {2: [(0, 1), (1, 0)], 3: [(0, 1, 2), (0, 2, 1), (1, 0, 2), (1, 2, 0), (2, 0, 1), (2, 1, 0)]}


def drive_lockstep(mons, orders):
    """Several HWSystems alive at once: the inputs of all of them are applied first, then every simulator is clocked once
    (no explicit propagateAll; clk() is documented to evaluate the combinational logic itself), in a per-cycle order."""
    n = min(len(m.plan['cycles']) for m in mons)
    k = len(mons)
    for m in mons:
        m.sim.addListener(_Passive(m))
    for t in range(n):
        for i, m in enumerate(mons):
            try:
                m.begin(t)
            except Bad as b:
                b.sysidx = i
                raise
        if orders == 'same':
            order = range(k)
        elif orders == 'reverse':
            order = range(k - 1, -1, -1)
        elif orders == 'rotate':
            order = [(i + t) % k for i in range(k)]
        else:
            order = _PERMS[k][orders[t] % len(_PERMS[k])]
        for i in order:
            m = mons[i]
            try:
                m.step(t)
                m.sim.clk(1)
                m.end(t)
            except Bad as b:
                b.sysidx = i
                raise


def run_plan(plan, evs):
    """Runs a single-adapter plan or a lockstep composition.  evs: list that receives one Ev per system.
    Returns the monitors; a Bad raised on the way carries .sysidx (which system of a composition)."""
    if 'lockstep' in plan:
        mons = []
        for sub in plan['lockstep']:
            ev = Ev()
            evs.append(ev)
            mons.append(_monitor(sub, ev))
        drive_lockstep(mons, plan['orders'])
        return mons
    ev = Ev()
    evs.append(ev)
    mon = _monitor(plan, ev)
    if plan.get('stall'):
        drive_stall(mon)
    elif plan.get('drive') == 'listener':
        drive_listener(mon)
    else:
        drive_bench(mon)
    return [mon]


class Ev(dict):
    def __missing__(self, k):
        return 0


NT_KEYS = {'axi2reg': ('peer_valid_while_not_ready', 'beat_overwrites_loaded', ('reset_while_active', 'done_while_active')),
           'reg2axi': ('back_pressure_cycles', 'load_while_pending', ('reset_while_active', 'done_while_active'))}


def _is_nontrivial(dut, ev):
    a, b, c = NT_KEYS[dut]
    return bool(ev[a] and ev[b] and (ev[c[0]] or ev[c[1]]))


def run_check(run, tier, seed, shard):
    run.assume('environment: ap_done only in a cycle where, since the last ap_start/ap_reset, a beat completed while active and no beat is '
               'pending (Reg2Axi: tvalid low); everything else is free per cycle')
    run.assume('Axi2Reg: a reset, done or restart in the same cycle as a beat wins (state cleared); while loaded q must equal the latest beat, while not loaded q must be 0 ("clears them": the word is cleared with the flag)')
    run.assume('Reg2Axi: after an edge with ap_reset high VALID is low ("until a beat is accepted or it is reset")')
    run.assume('Reg2Axi, weakest reading: VALID may stay high after an acceptance (counted as peer_accepts_while_inactive / '
               'back_to_back_accepts, never a violation); "accepted beat" for sent = tvalid & tready & active; only the low W bits of tdata '
               'are judged; active follows start/reset/done with reset and done winning over start (same shadow for both adapters)')
    jobs = []
    n = SCHEDULES[tier]
    for k in range(n):
        for dut in ('axi2reg', 'reg2axi'):
            for slot in range(3):
                jobs.append((k, dut, slot))
        jobs.append((k, 'lockstep', 0))
        if k % 2 == 0:
            jobs.append((k, 'hil', 0))
    stall_jobs = [(k, 'stall_' + dut, v) for k in STALL_K[tier] for dut in ('reg2axi', 'axi2reg') for v in range(STALL_VARIANTS[tier])]
    stall_jobs.sort(key=lambda j: -j[0])
    jobs = jobs[:7] + stall_jobs + jobs[7:]         # the long ones first (sharding spreads them; the watchdog never cuts them)
    if shard is not None:
        jobs = [j for i, j in enumerate(jobs) if i % shard[1] == shard[0]]
    deadline = time.time() + (400 if tier == 'quick' else 2400)
    tot = {'axi2reg': Ev(), 'reg2axi': Ev()}
    per_w = {}
    stalls = {}
    done_jobs = 0
    for (k, dut, slot) in jobs:
        if time.time() > deadline:
            run.inconclusive.append('watchdog: %d of %d schedules not run' % (len(jobs) - done_jobs, len(jobs)))
            break
        rnd = rng(seed, 'C16', k, dut, slot)
        ncyc = 200 if tier == 'quick' else rnd.choice([400, 1000])
        if dut.startswith('stall_'):
            plan = gen_stall(rnd, dut[6:], WIDTHS[(k * 5 + slot) % len(WIDTHS)], k, slot)
            subs = [plan]
        elif dut == 'lockstep':
            plan = gen_lockstep(rnd, ncyc)
            subs = plan['lockstep']
        elif dut == 'hil':
            # system level: the kernel is built by createHILVitis itself around a W-bit DUT (W <= 32), 64-bit streams
            plan = gen_schedule(rnd, 'reg2axi', rnd.choice([1, 8, 12, 16, 24, 32]), ncyc)
            plan.update(dw=64, hist=None, built_by='createHILVitis')
            subs = [plan]
        else:
            plan = gen_schedule(rnd, dut, WIDTHS[(k * 3 + slot) % len(WIDTHS)], ncyc)
            subs = [plan]
        evs = []
        try:
            with muted():
                mons = run_plan(plan, evs)
        except Bad as b:
            run.ev(sum(e['cycles'] for e in evs))
            sub = subs[getattr(b, 'sysidx', 0)]
            key = '%s_%s' % (sub['dut'], b.clause)
            run.violation(key, dict(b.fields, dut=sub['dut'], clause=b.clause, drive=sub['drive']),
                          dict(plan=plan, t=b.t, system=getattr(b, 'sysidx', 0)), expected=b.expected, observed=b.observed,
                          what='%s W=%d dw=%d drive=%s cycle %d: %s' % (sub['dut'], sub['W'], sub['dw'], sub['drive'], b.t, b.what))
            done_jobs += 1
            if run.too_many:
                break
            continue
        done_jobs += 1
        if dut == 'lockstep':
            run.count('compositions_lockstep')
            run.count('compositions_lockstep_%d_systems' % len(subs))
            run.count('compositions_order_%s' % (plan['orders'] if isinstance(plan['orders'], str) else 'random'))
        for sub, ev in zip(subs, evs):
            d_ = sub['dut']
            run.ev(ev['cycles'])
            run.count('schedules_' + d_)
            run.count('schedules_drive_' + sub['drive'])
            if sub.get('built_by'):
                run.count('schedules_kernel_built_by_createHILVitis')
            if sub.get('stall'):
                run.count('long_stall_schedules_' + d_)
                good = ev['stalls_completed'] and ev['stall_cycles'] >= sub['stall'] and (
                    ev['stall_began_with_valid_pending'] if d_ == 'reg2axi' else ev['stall_began_active'])
                key = '%s: 2**%d+16 cycles' % (d_, sub['stall_k'])
                stalls[key] = stalls.get(key, 0) + int(bool(good))
            if sub.get('hist'):
                run.count('schedules_adapter_added_to_running_system')
                run.count('schedules_adapter_added_at_depth_%d' % sub['hist']['depth'])
            cfg = '%s_W%d_dw%d' % (d_, sub['W'], sub['dw'])
            per_w[cfg] = per_w.get(cfg, 0) + 1
            for a, v in ev.items():
                if not a.startswith('ctx_'):
                    tot[d_][a] += int(v)
        if all(_is_nontrivial(sub['dut'], ev) for sub, ev in zip(subs, evs)):
            run.nt(stable_hash(plan))
        if k % 100 == 0 and slot == 0:
            run.sample(dict(systems=[dict(dut=sub['dut'], W=sub['W'], dw=sub['dw'], drive=sub['drive'], hist=sub.get('hist'),
                                          first_cycles_start_reset_done_load_hs_data=m.applied[:12],
                                          observed={a: int(v) for a, v in ev.items() if not a.startswith('ctx_')})
                                     for sub, ev, m in zip(subs, evs, mons)], orders=plan.get('orders') if isinstance(plan.get('orders'), str) else 'per-cycle list'))
    run.extra['axi2reg_events'] = dict(tot['axi2reg'])
    run.extra['reg2axi_events'] = dict(tot['reg2axi'])
    run.extra['schedules_per_configuration'] = per_w
    run.extra['long_stalls_completed_in_the_deciding_state_by_adapter_and_length'] = stalls
    run.extra['peer_accepts_while_inactive'] = int(tot['reg2axi']['peer_accepts_while_inactive'])
    for need in ('schedules_adapter_added_to_running_system', 'schedules_drive_listener', 'compositions_lockstep', 'schedules_kernel_built_by_createHILVitis'):
        if shard is None and not run.violations and not run.counters.get(need):
            run.inconclusive.append('no run of the class %s' % need)
    if shard is None:
        _stall_coverage(run, tier)
    if shard is None and not run.violations:
        need = {'axi2reg': ('beats', 'beat_and_clear_same_cycle', 'reset_while_active', 'done_while_active', 'restart', 'back_to_back_beats'),
                'reg2axi': ('beats_accepted', 'valid_hold_checked', 'load_while_pending', 'sent_rises', 'sent_falls', 'reset_while_tvalid',
                            'done_while_active', 'valid_rises')}
        for dut, keys in need.items():
            for a in keys:
                if not tot[dut][a]:
                    run.inconclusive.append('%s: deciding event %s never observed' % (dut, a))


def _stall_coverage(run, tier):
    got = run.extra.get('long_stalls_completed_in_the_deciding_state_by_adapter_and_length', {})
    missing = ['%s: 2**%d+16 cycles' % (d, k) for k in STALL_K[tier] for d in ('reg2axi', 'axi2reg') if not got.get('%s: 2**%d+16 cycles' % (d, k))]
    if missing and not run.violations:
        run.inconclusive.append('long-stall class: no completed stall (Reg2Axi: VALID pending and active; Axi2Reg: active) for %s' % missing[:6])


def post_merge(run, tier, seed):
    _stall_coverage(run, tier)
    for need in ('schedules_adapter_added_to_running_system', 'schedules_drive_listener', 'compositions_lockstep', 'schedules_kernel_built_by_createHILVitis'):
        if not run.violations and not run.counters.get(need):
            run.inconclusive.append('no run of the class %s' % need)
    for dut, keys in (('axi2reg_events', ('beats', 'beat_and_clear_same_cycle')), ('reg2axi_events', ('beats_accepted', 'valid_hold_checked', 'sent_rises'))):
        for a in keys:
            if not run.violations and not run.extra.get(dut, {}).get(a):
                run.inconclusive.append('%s: deciding event %s never observed' % (dut, a))


def _unhex(x):
    if isinstance(x, list):
        return [_unhex(y) for y in x]
    if isinstance(x, dict):
        return {k: _unhex(v) for k, v in x.items()}
    if isinstance(x, str) and x.startswith('0x'):
        return int(x, 16)
    return x


def replay(run, case):
    plan = _unhex(case['case']['plan'])
    evs = []
    try:
        with muted():
            run_plan(plan, evs)
    except Bad as b:
        plan = plan['lockstep'][getattr(b, 'sysidx', 0)] if 'lockstep' in plan else plan
        print('replay: %s W=%d dw=%d drive=%s cycle %d clause %s: %s' % (plan['dut'], plan['W'], plan['dw'], plan.get('drive'), b.t, b.clause, b.what))
        lo = max(0, b.t - 6)
        for t in range(lo, min(len(plan['cycles']), b.t + 1)):
            print('  cycle %d start,reset,done_wish,load,valid/ready,data = %s' % (t, plan['cycles'][t]))
        print('  expected', b.expected, 'observed', b.observed)
        print('VIOLATION property=C16 replay=replayed key=%s_%s' % (plan['dut'], b.clause))
        return 1
    print('replay: %d cycles, no clause violated' % sum(e['cycles'] for e in evs))
    return 0
