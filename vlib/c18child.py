"""C18 child process: builds Schematic(obj) for each case of a job file under a per-schematic alarm, judges the
resulting object graph, appends one JSON line per case to the result file.

  python -m vlib.c18child <job.json> <results.jsonl>

A line {"start": i} is written before case i is touched, so the parent can attribute a hang it had to kill.
"""
import contextlib
import io
import json
import os
import signal
import sys
import time
import traceback


class SchematicTimeout(BaseException):
    pass


_armed = [False]


def _on_alarm(signum, frame):
    if _armed[0]:
        raise SchematicTimeout()


def check_graph(obj, s):
    """-> (problems [(clause, text, fields)], stats)"""
    import py4hw
    from py4hw import schematic_symbols as S
    problems = []
    st = dict(nets=len(s.nets), passthrough=0, feedback=0, missing=0, wires_judged=0, wires_no_reader=0, wires_undriven_excluded=0,
              pins_judged=0, symbols=0)
    virtual = (S.PassthroughSymbol, S.FeedbackStartSymbol, S.FeedbackStopSymbol)
    real = []
    for o in s.objs:
        if isinstance(o, S.PassthroughSymbol):
            st['passthrough'] += 1
        elif isinstance(o, S.FeedbackStartSymbol):
            st['feedback'] += 1
        elif isinstance(o, S.MissingConnectionSymbol):
            st['missing'] += 1
        elif isinstance(o, S.VirtualSymbol):
            pass
        elif getattr(o, 'obj', None) is not None:
            real.append(o)
    st['symbols'] = len(real)
    children = list(obj.children.values())
    want = [(c, 'instance') for c in children] + [(p, 'inport') for p in obj.inPorts] + [(p, 'outport') for p in obj.outPorts]
    sym_of = {}
    for w_, kind in want:
        m = [o for o in real if o.obj is w_]
        if len(m) != 1:
            problems.append(('symbol_count', '%d symbols for %s %s' % (len(m), kind, getattr(w_, 'name', '?')), dict(kind=kind, n=min(len(m), 2))))
        if m:
            sym_of[id(w_)] = m[0]
            if kind == 'inport' and not isinstance(m[0], S.InPortSymbol) or kind == 'outport' and not isinstance(m[0], S.OutPortSymbol):
                problems.append(('symbol_family', '%s %s drawn as %s' % (kind, w_.name, type(m[0]).__name__), dict(kind=kind)))
    wanted_ids = set(id(w_) for w_, _ in want)
    for o in real:
        if id(o.obj) not in wanted_ids:
            problems.append(('symbol_extra', 'symbol %s for an object that is neither child nor port' % getattr(o, 'name', '?'), {}))
    flat = [x for x in s.symbol_matrix.flatten() if x is not None]
    cnt = {}
    for x in flat:
        cnt[id(x)] = cnt.get(id(x), 0) + 1
    for o in real:
        if id(o.obj) in wanted_ids and cnt.get(id(o), 0) != 1:
            problems.append(('matrix_presence', 'symbol %s is in symbol_matrix %d times' % (getattr(o, 'name', '?'), cnt.get(id(o), 0)),
                             dict(n=min(cnt.get(id(o), 0), 2), family=type(o).__name__)))
    placed = [o for o in real if id(o.obj) in wanted_ids]
    rect = [(o.x, o.y, o.getWidth(), o.getHeight()) for o in placed]
    for i in range(len(placed)):
        ax, ay, aw, ah = rect[i]
        for j in range(i + 1, len(placed)):
            bx, by, bw, bh = rect[j]
            if ax < bx + bw and bx < ax + aw and ay < by + bh and by < ay + ah:
                problems.append(('overlap', 'symbols %s %r and %s %r overlap' % (placed[i].name, rect[i], placed[j].name, rect[j]),
                                 dict(same_xy=(ax, ay) == (bx, by))))
                break
        if len(problems) > 30:
            break
    # ---- pin geometry: two different pins of one instance symbol must not be drawn on the same point, otherwise a net that
    # touches one of them also touches the pin of another wire
    st['pin_positions_judged'] = 0
    for c in children:
        sym = sym_of.get(id(c))
        if sym is None:
            continue
        for ports, fn, side in ((c.inPorts, 'getPortSinkPos', 'in'), (c.outPorts, 'getPortSourcePos', 'out')):
            pos = {}
            for prt in ports:
                if prt.wire is None:
                    continue
                try:
                    xy = tuple(getattr(sym, fn)(prt))
                except Exception:
                    st['pin_position_errors'] = st.get('pin_position_errors', 0) + 1
                    continue
                st['pin_positions_judged'] += 1
                if xy in pos and pos[xy].wire is not prt.wire:
                    problems.append(('pins_coincide', 'instance %s (%s): pins %s and %s are drawn on the same point %r' % (
                        c.name, type(sym).__name__, pos[xy].name, prt.name, xy), dict(side=side, symbol=type(sym).__name__)))
                    break
                pos.setdefault(xy, prt)
    # ---- wires
    pins = {}       # id(wire) -> dict(wire, drv=[(sym, port)], rd=[(sym, port)])
    def rec(w):
        return pins.setdefault(id(w), dict(wire=w, drv=[], rd=[]))
    for c in children:
        for p in c.inPorts:
            if p.wire is not None:
                rec(p.wire)['rd'].append((sym_of.get(id(c)), p))
        for p in c.outPorts:
            if p.wire is not None:
                rec(p.wire)['drv'].append((sym_of.get(id(c)), p))
    for p in obj.inPorts:
        rec(p.wire)['drv'].append((sym_of.get(id(p)), p))
    for p in obj.outPorts:
        rec(p.wire)['rd'].append((sym_of.get(id(p)), p))
    nets_of = {}
    marker_wires = {}
    for n in s.nets:
        nets_of.setdefault(id(n.wire), []).append(n)
        for e in (n.source, n.sink):
            if isinstance(e, virtual):
                marker_wires.setdefault(id(e), set()).add(id(n.wire))
    # every symbol a net ends on must be one placed in THIS drawing (not a symbol object of some other Schematic)
    mine = set(id(o) for o in s.objs)
    st['net_endpoints_judged'] = 0
    n_alien = 0
    for n in s.nets:
        for e, side in ((n.source, 'source'), (n.sink, 'sink')):
            st['net_endpoints_judged'] += 1
            if id(e) not in mine:
                n_alien += 1
                if n_alien <= 3:
                    problems.append(('net_end_not_in_drawing', 'a net of wire %s ends (%s) at symbol %s which is not an object of this drawing' % (
                        getattr(n.wire, 'name', '?'), side, getattr(e, 'name', type(e).__name__)), dict(side=side)))
    for k, ws in marker_wires.items():
        if len(ws) > 1:
            problems.append(('marker_shared', 'one pass-through/feedback marker carries nets of %d different wires' % len(ws), {}))
    for wid, r in pins.items():
        w = r['wire']
        if len(r['drv']) != 1:
            st['wires_undriven_excluded'] += 1       # undriven (or multiply driven) inside: outside the statement
            continue
        if not r['rd']:
            st['wires_no_reader'] += 1
            if nets_of.get(wid):
                problems.append(('net_without_reader', 'wire %s has nets but no reader' % w.name, {}))
            continue
        st['wires_judged'] += 1
        nets = nets_of.get(wid, [])
        dsym, dport = r['drv'][0]
        allowed = set([id(dsym)] + [id(x) for x, _ in r['rd']])
        adj = {}
        for n in nets:
            adj.setdefault(id(n.source), set()).add(id(n.sink))
            adj.setdefault(id(n.sink), set()).add(id(n.source))
            for port, side in ((n.sourcePort, 'source'), (n.sinkPort, 'sink')):
                if port is not None and getattr(port, 'wire', None) is not w:
                    problems.append(('foreign_pin', 'a net of wire %s carries %s pin %s of another wire' % (w.name, side, port.name), dict(side=side)))
            for e, side in ((n.source, 'source'), (n.sink, 'sink')):
                if not isinstance(e, virtual) and id(e) not in allowed:
                    problems.append(('foreign_symbol', 'a net of wire %s ends at symbol %s which has no pin on it' % (w.name, getattr(e, 'name', '?')), dict(side=side)))
        # pins
        dcol = getattr(dsym, 'c', None)
        if dsym is not None and not any(n.source is dsym and n.sourcePort is dport for n in nets):
            problems.append(('driver_pin_untouched', 'wire %s: no net leaves the driving pin %s.%s' % (w.name, getattr(dsym, 'name', '?'), dport.name),
                             dict(driver=type(dsym).__name__)))
        st['pins_judged'] += 1
        for rsym, rport in r['rd']:
            st['pins_judged'] += 1
            if rsym is None:
                continue
            if not any(n.sink is rsym and n.sinkPort is rport for n in nets):
                problems.append(('reader_pin_untouched', 'wire %s: no net reaches the reading pin %s.%s' % (w.name, getattr(rsym, 'name', '?'), rport.name),
                                 dict(reader=type(rsym).__name__, self_loop=rsym is dsym, reader_col=getattr(rsym, 'c', None), driver_col=dcol)))
        # one connected figure containing driver and readers
        if dsym is None:
            continue
        seen = {id(dsym)}
        stack = [id(dsym)]
        while stack:
            u = stack.pop()
            for v in adj.get(u, ()):
                if v not in seen:
                    seen.add(v)
                    stack.append(v)
        for rsym, rport in r['rd']:
            if rsym is not None and id(rsym) not in seen:
                problems.append(('not_connected', 'wire %s: reader %s.%s is not connected to driver %s' % (w.name, getattr(rsym, 'name', '?'), rport.name, getattr(dsym, 'name', '?')),
                                 dict(reader=type(rsym).__name__, self_loop=rsym is dsym, reader_col=getattr(rsym, 'c', None), driver_col=dcol)))
        loose = [u for u in adj if u not in seen]
        if loose:
            problems.append(('figure_split', 'wire %s: %d net endpoints are not connected to the driver' % (w.name, len(loose)), {}))
    # ---- routed geometry: the poly-line of a net (and the line a pass-through marker draws) must not run over a pin of another
    # wire.  Pins that another clause already reports as drawn on one point (pins_coincide) are not reported again here.
    allpins = []        # (x, y, id(wire), 'sym.port')
    for wid, r in pins.items():
        for lst, fn in ((r['drv'], 'getPortSourcePos'), (r['rd'], 'getPortSinkPos')):
            for sym, port in lst:
                if sym is None:
                    continue
                try:
                    px, py = getattr(sym, fn)(port)[:2]
                except Exception:
                    continue
                allpins.append((sym.x + px, sym.y + py, wid, '%s.%s' % (getattr(sym, 'name', '?'), port.name)))
    own = {}
    for x, y, wid, _d in allpins:
        own.setdefault(wid, set()).add((x, y))
    st['route_segments_judged'] = 0
    n_geo = 0
    # classifier field: one wire sits on two or more INPUT PORTS of the drawn block (two source symbols for one wire)
    _ipw = [id(p.wire) for p in obj.inPorts if p.wire is not None]
    two_inports_one_wire = len(_ipw) != len(set(_ipw))
    for n in s.nets:
        wid = id(n.wire)
        if wid not in pins or len(pins[wid]['drv']) != 1 or n.x is None:
            continue
        xs, ys = list(n.x), list(n.y)
        segs = [(xs[i], ys[i], xs[i + 1], ys[i + 1]) for i in range(len(xs) - 1)]
        for e in (n.source, n.sink):
            if isinstance(e, S.PassthroughSymbol):
                segs.append((e.x, e.y + e.h // 2, e.x + e.w, e.y + e.h // 2))
        st['route_segments_judged'] += len(segs)
        for (x0, y0, x1, y1) in segs:
            lx, hx, ly, hy = min(x0, x1), max(x0, x1), min(y0, y1), max(y0, y1)
            for px, py, pw, desc in allpins:
                if pw != wid and lx <= px <= hx and ly <= py <= hy and (px, py) not in own.get(wid, ()):
                    sc, kc = getattr(n.source, 'c', None), getattr(n.sink, 'c', None)
                    shape = 'adjacent'
                    if sc is not None and kc is not None and not isinstance(n.source, virtual) and not isinstance(n.sink, virtual):
                        shape = 'backward_unmarked' if kc <= sc else ('long_unmarked' if kc > sc + 1 else 'adjacent')
                    elif isinstance(n.source, virtual) or isinstance(n.sink, virtual):
                        shape = 'marker'
                    n_geo += 1
                    if n_geo <= 6:
                        problems.append(('route_over_foreign_pin', 'the drawn net of wire %s (%s -> %s) runs over pin %s of another wire at %r' % (
                            n.wire.name, getattr(n.source, 'name', '?'), getattr(n.sink, 'name', '?'), desc, (px, py)), dict(net=shape, two_inports_one_wire=two_inports_one_wire)))
                    break
    for wid, nets in nets_of.items():
        if wid not in pins:
            problems.append(('net_of_unknown_wire', 'nets drawn for a wire that no child/port of the block uses', {}))
    return problems, st


def _draw(obj, limit_s, buf):
    """-> (schematic or None, dict(timeout/raised..., dt))"""
    from py4hw.schematic import Schematic
    res = {}
    t = time.time()
    s = None
    _armed[0] = True
    signal.setitimer(signal.ITIMER_REAL, limit_s, 0.25)
    try:
        with contextlib.redirect_stdout(buf), contextlib.redirect_stderr(buf):
            s = Schematic(obj, placeAndRoute=True)
    except SchematicTimeout:
        res['timeout'] = True
    except RecursionError as e:
        res['raised'] = 'RecursionError'
        res['raised_text'] = str(e)[:120]
    except Exception as e:
        res['raised'] = type(e).__name__
        res['raised_text'] = (str(e) or traceback.format_exc()[-200:])[:200]
    finally:
        _armed[0] = False
        signal.setitimer(signal.ITIMER_REAL, 0)
    res['dt'] = round(time.time() - t, 4)
    return s, res


def _swallowed(res, out):
    res['swallowed'] = out.count('WARNING: error')
    if res['swallowed']:
        tb = [l for l in out.splitlines() if l and not l.startswith(' ') and ('Error' in l or 'Exception' in l)]
        res['swallowed_text'] = tb[-1][:160] if tb else ''


def run_one(case, limit_s):
    from . import c18net
    if case['type'] == 'multi':
        return run_multi(case, limit_s)
    buf = io.StringIO()
    res = dict(idx=case['idx'])
    with contextlib.redirect_stdout(buf), contextlib.redirect_stderr(buf):
        obj = c18net.build(case)
    res['children'] = len(obj.children)
    s, r = _draw(obj, limit_s, buf)
    res.update(r)
    _swallowed(res, buf.getvalue())
    if s is not None:
        problems, st = check_graph(obj, s)
        res['problems'] = [dict(clause=c, text=t_, fields=f) for c, t_, f in problems[:12]]
        res['n_problems'] = len(problems)
        res['stats'] = st
    return res


# ---------------------------------------------------------------------------- several drawings of one hierarchy in one process

def _wires_used(obj):
    ws = {}
    for c in obj.children.values():
        for p in list(c.inPorts) + list(c.outPorts):
            if p.wire is not None:
                ws[id(p.wire)] = p.wire
    for p in list(obj.inPorts) + list(obj.outPorts):
        if p.wire is not None:
            ws[id(p.wire)] = p.wire
    return ws


def multi_targets(obj, schedule):
    """-> [(role, block)]: the blocks of one hierarchy to draw, in order.  Roles: 'self' (the block of the base case), 'top' (the
    enclosing system), 'sub<k>' (k-th structural child, in creation order), 'subsub' (first structural grandchild)."""
    subs = [c for c in obj.children.values() if c.isStructural() and len(c.children) > 0]
    subsub = [g for c in subs for g in c.children.values() if g.isStructural() and len(g.children) > 0]
    S = [('sub%d' % k, c) for k, c in enumerate(subs[:3])]
    G = [('subsub', g) for g in subsub[:1]]
    me = [('self', obj)]
    top = [('top', obj.parent)] if obj.parent is not None else []
    if schedule == 'twice':
        return me + me
    if schedule == 'parent_child':
        return top + me + S + G
    if schedule == 'child_parent':
        return list(reversed(top + me + S + G))
    if schedule == 'siblings':
        return (S + S[:1]) if len(S) > 1 else (S + me + S) if S else (me + top + me)
    if schedule == 'interleaved':
        return (S[:1] + me + S[:1] + me) if S else (top + me + top + me)
    raise ValueError(schedule)


def run_multi(case, limit_s):
    """Several Schematic objects in ONE process over blocks of one hierarchy (they share Wire objects): every drawing is judged by
    the full oracle, whatever was drawn before it."""
    from . import c18net
    buf = io.StringIO()
    res = dict(idx=case['idx'])
    with contextlib.redirect_stdout(buf), contextlib.redirect_stderr(buf):
        obj = c18net.build(case['base'])
    res['children'] = len(obj.children)
    targets = multi_targets(obj, case['schedule'])
    keep = []           # the earlier drawings stay alive, as in an interactive session
    seen_wires = {}
    seen_blocks = set()
    tot = {}
    problems = []
    res['dt'] = 0
    res['swallowed'] = 0
    multi = dict(drawings=0, later_drawings_sharing_a_wire=0, shared_wires=0, redraws=0, roles=[])
    for k, (role, blk) in enumerate(targets):
        b = io.StringIO()
        s, r = _draw(blk, limit_s, b)
        res['dt'] = max(res['dt'], r['dt'])
        sw = {}
        _swallowed(sw, b.getvalue())
        if sw['swallowed']:
            res['swallowed'] += sw['swallowed']
            res['swallowed_text'] = sw.get('swallowed_text', '')
        if s is None:
            res.update((k_, v) for k_, v in r.items() if k_ != 'dt')
            res['failed_drawing'] = dict(k=k, role=role)
            break
        keep.append(s)
        mine = _wires_used(blk)
        shared = [w for w in mine if w in seen_wires]
        multi['drawings'] += 1
        multi['roles'].append(role)
        if k and shared:
            multi['later_drawings_sharing_a_wire'] += 1
            multi['shared_wires'] += len(shared)
        if id(blk) in seen_blocks:
            multi['redraws'] += 1
        seen_blocks.add(id(blk))
        seen_wires.update(mine)
        pr, st = check_graph(blk, s)
        for c, t_, f in pr:
            f = dict(f)
            f['drawing'] = 'first' if k == 0 else 'later'
            problems.append((c, 'drawing %d (%s of %s): %s' % (k, role, '/'.join(x for x, _ in targets), t_), f, sw))
        for k_, v in st.items():
            tot[k_] = tot.get(k_, 0) + v
    if 'timeout' not in res and 'raised' not in res:
        res['problems'] = [dict(clause=c, text=t_, fields=f, swallowed=sw_['swallowed'], swallowed_text=sw_.get('swallowed_text', ''))
                           for c, t_, f, sw_ in problems[:12]]
        res['n_problems'] = len(problems)
        res['stats'] = tot
        res['multi'] = multi
    return res


def main():
    job, outp = sys.argv[1], sys.argv[2]
    sys.path.insert(0, os.path.dirname(os.path.dirname(os.path.abspath(__file__))))
    from vlib import common
    spec = json.load(open(job))
    signal.signal(signal.SIGALRM, _on_alarm)
    # the interpreter's default recursion limit stays: a valid design the library cannot draw under it is a refusal
    with open(outp, 'a') as f:
        try:
            with common.muted():
                common.import_py4hw()
                import py4hw.schematic  # noqa
        except BaseException as e:
            f.write(json.dumps(dict(import_failed=repr(e)[:300])) + '\n')
            return 0
        n_to = 0
        for case in spec['cases']:
            f.write(json.dumps(dict(start=case['idx'])) + '\n')
            f.flush()
            try:
                res = run_one(case, spec['limit_s'])
            except SchematicTimeout:
                res = dict(idx=case['idx'], timeout=True, dt=spec['limit_s'])
            except Exception as e:
                res = dict(idx=case['idx'], harness_error=repr(e)[:300] + ' | ' + traceback.format_exc()[-400:])
            f.write(json.dumps(res) + '\n')
            f.flush()
            n_to += int(bool(res.get('timeout')))
            if n_to >= spec.get('max_timeouts', 3):
                break       # enough non-terminating schematics to decide the run
    return 0


if __name__ == '__main__':
    sys.exit(main())
