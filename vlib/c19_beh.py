"""C19 helper -- behavioural (transpiled) blocks in the generation histories.

The random circuits of the main C19 workload are built from library blocks only; none of them goes through the Python-to-Verilog
transpiler, which is the part of the generator that reads (and could write) attributes of the live instance.  This workload puts
behavioural classes in the histories:

* classes are generated from fragments, each fragment owning one state attribute whose constructor initialiser is drawn from every
  kind the transpiler accepts (int 0, int n, bool True, bool False) and one constructor constant (`self.k = k`) that the update
  rule reads; clocked and combinational kinds;
* 2-3 circuits that instantiate the SAME class with the same port widths and DIFFERENT constants are alive in one process (bare
  instance or below a structural holder), each with a twin that never sees a generator;
* the history interleaves clk steps (random inputs) with generation requests (fresh / long-lived generator, hierarchy / module) for
  the circuits in random order, so that generation happens at arbitrary points of a run, not only at cycle 0.

Oracles: purity -- a snapshot of every attribute of the behavioural instance is identical before and after each request (type
included) and outputs + state attributes follow the twin after every clock; repeatability -- all texts of one circuit are equal;
same design -- each distinct text obtained for a circuit is co-simulated (vlib.vlog interpreter) from power-up against a fresh
instance built with that circuit's own constants.
"""
import os

from . import c02
from .common import muted, rng, stable_hash

INIT_KINDS = ['int0', 'intn', 'true', 'false']


class Spec:
    def __init__(self, rnd, name):
        self.name = name
        self.kind = 'clock' if rnd.random() < 0.8 else 'propagate'
        self.wd = rnd.choice([2, 3, 4, 8])
        self.wq = rnd.choice([8, 12, 16])
        self.frags = []
        self.consts = []
        self.states = []      # (name, init literal, init kind)
        if self.kind == 'clock':
            n = rnd.randint(1, 3)
            for i in range(n):
                ik = rnd.choice(INIT_KINDS)
                rule = rnd.choice({'int0': ['acc', 'set', 'toggle', 'match'], 'intn': ['acc', 'clear', 'match'], 'true': ['clear', 'toggle'],
                                   'false': ['set', 'toggle']}[ik])
                init = {'int0': 0, 'intn': rnd.randint(1, 9), 'true': True, 'false': False}[ik]
                self.states.append(('s%d' % i, init, ik))
                self.consts.append('k%d' % i)
                self.frags.append(rule)
        else:
            for i in range(rnd.randint(1, 2)):
                self.consts.append('k%d' % i)

    def const_values(self, rnd):
        return [rnd.choice([1, 2, 3, 5, 7, 11, rnd.randint(1, 40)]) for _ in self.consts]

    def source(self):
        L = ['import py4hw', '', '', 'class %s(py4hw.Logic):' % self.name,
             '    def __init__(self, parent, name, en, d, q, %s):' % ', '.join(self.consts),
             '        super().__init__(parent, name)',
             "        self.en = self.addIn('en', en)", "        self.d = self.addIn('d', d)", "        self.q = self.addOut('q', q)"]
        for n, init, _ in self.states:
            L.append('        self.%s = %r' % (n, init))
        for k in self.consts:
            L.append('        self.%s = %s' % (k, k))
        L.append('')
        L.append('    def %s(self):' % self.kind)
        B = []
        if self.kind == 'propagate':
            e = 'self.d.get()'
            for i, k in enumerate(self.consts):
                e = '(%s * self.%s + %d)' % (e, k, i + 1) if i == 0 else '(%s ^ self.%s)' % (e, k)
            B.append('if (self.en.get()):')
            B.append('    self.q.put(%s)' % e)
            B.append('else:')
            B.append('    self.q.put(self.%s)' % self.consts[-1])
        else:
            prev = None
            for (s, init, ik), k, rule in zip(self.states, self.consts, self.frags):
                gate = 'self.en.get()' if prev is None else '(self.%s & 1) == 1' % prev
                if rule == 'acc':
                    B += ['if (%s):' % gate, '    self.%s = (self.%s + self.%s) & 255' % (s, s, k)]
                elif rule == 'set':
                    B += ['if (self.d.get() == (self.%s & %d)):' % (k, (1 << self.wd) - 1), '    self.%s = 1' % s]
                elif rule == 'clear':
                    B += ['if (self.d.get() == (self.%s & %d)):' % (k, (1 << self.wd) - 1), '    self.%s = 0' % s]
                elif rule == 'toggle':
                    B += ['if (%s):' % gate, '    if (self.%s):' % s, '        self.%s = 0' % s, '    else:', '        self.%s = 1' % s]
                else:
                    B += ['match self.%s:' % s, '    case 0:', '        self.%s = (self.%s & 7) + 1' % (s, k), '    case 1:',
                          '        self.%s = self.d.get() + 2' % s, '    case _:', '        self.%s = self.%s - 1' % (s, s)]
                prev = s
            e = ' + '.join('self.%s * %d' % (s, 1 + 2 * i) for i, (s, _, _) in enumerate(self.states))
            B.append('self.q.prepare((%s + self.%s) & %d)' % (e, self.consts[0], (1 << self.wq) - 1))
        L += ['        ' + b for b in B]
        L.append('')
        return '\n'.join(L)


def build(C, spec, consts, held):
    import py4hw
    hw = py4hw.HWSystem()
    with muted():
        en, d, q = hw.wire('en', 1), hw.wire('d', spec.wd), hw.wire('q', spec.wq)
        if held:
            holder = type('Holder', (py4hw.Logic,), {})(hw, 'holder')
            obj = C(holder, 'g', en, d, q, *consts)
            holder.addIn('en', en)
            holder.addIn('d', d)
            holder.addOut('q', q)
            top = holder
        else:
            obj = C(hw, 'g', en, d, q, *consts)
            top = obj
    return dict(hw=hw, obj=obj, top=top, ins=[en, d], outs=[q])


def attrs(obj):
    """every instance attribute of the behavioural block: plain values by (type, value), anything else by identity"""
    out = {}
    for k, v in vars(obj).items():
        if isinstance(v, (bool, int, float, str, type(None))):
            out[k] = (type(v).__name__, v)
        elif isinstance(v, (list, tuple, dict, set)):
            out[k] = (type(v).__name__, len(v), id(v))
        else:
            out[k] = ('obj', type(v).__name__, id(v))
    return out


def state_of(obj, spec):
    return [int(getattr(obj, s)) for s, _, _ in spec.states]


def run_history(run, d, seed, idx, n_ops):
    import py4hw
    from .c19 import normalise
    rnd = rng(seed, 'c19-beh', idx)
    name = 'B%d_%d' % (os.getpid(), idx)
    spec = Spec(rnd, name)
    src = spec.source()
    seq = spec.kind == 'clock'
    C = c02.load_class(src, name, d)
    ncirc = rnd.choice([2, 2, 3])
    held = [rnd.random() < 0.35 for _ in range(ncirc)]
    vals = []
    while len(vals) < ncirc:
        v = spec.const_values(rnd)
        if v not in vals or rnd.random() < 0.1:
            vals.append(v)
    circ = []
    for ci in range(ncirc):
        c = dict(live=build(C, spec, vals[ci], held[ci]), twin=build(C, spec, vals[ci], held[ci]), texts=[], judged={}, gen=None, cycles=0)
        circ.append(c)
    ops = []
    case = dict(workload='behavioural_history', index=idx, source=src, constants=vals, held=held, ops=ops)
    run.count('beh_histories')
    run.count('beh_kind_' + spec.kind)
    gen_order = []
    judged_interleaved = 0
    for step in range(n_ops):
        ci = rnd.randrange(ncirc)
        c = circ[ci]
        op = rnd.choice(['clk', 'clk', 'clk', 'hier_fresh', 'hier_fresh', 'hier_same', 'module'])
        if step == 0 and rnd.random() < 0.6:
            op = 'clk'
        if op == 'clk' and not seq:
            op = rnd.choice(['prop', 'hier_fresh'])
        if op in ('clk', 'prop'):
            n = rnd.randint(1, 4)
            ops.append([ci, op, n])
            for _ in range(n):
                vec = dict(en=int(rnd.random() < 0.7), d=rnd.getrandbits(spec.wd) if rnd.random() < 0.6 else rnd.choice(vals[ci]) & ((1 << spec.wd) - 1))
                for side in (c['live'], c['twin']):
                    for w in side['ins']:
                        w.put(vec[w.name])
                    with muted():
                        if seq:
                            side['hw'].getSimulator().clk(1)
                        else:
                            side['hw'].getSimulator().propagateAll()
                c['cycles'] += 1
                a = ([w.get() for w in c['live']['outs']], state_of(c['live']['obj'], spec))
                b = ([w.get() for w in c['twin']['outs']], state_of(c['twin']['obj'], spec))
                run.ev()
                run.count('beh_trace_comparisons')
                if c['texts']:
                    run.count('beh_trace_comparisons_after_generation')
                if a != b:
                    run.violation('simulation_changed_by_generation', dict(clause='purity', block='behavioural'),
                                  dict(case, step=step, cycle=c['cycles'], live=a, twin=b),
                                  what='behavioural history %d step %d: circuit %d that was generated from simulates differently from its twin (outputs, state) %s vs %s' % (idx, step, ci, a, b))
                    return
            continue
        ops.append([ci, op])
        live = c['live']
        before = attrs(live['obj'])
        off_initial = [ik for (s, init, ik) in spec.states if int(getattr(live['obj'], s)) != int(init)]
        try:
            with muted():
                if op == 'hier_same':
                    if c['gen'] is None:
                        c['gen'] = py4hw.VerilogGenerator(live['top'])
                    text = c['gen'].getVerilogForHierarchy()
                elif op == 'hier_fresh':
                    text = py4hw.VerilogGenerator(live['top']).getVerilogForHierarchy()
                else:
                    text = py4hw.VerilogGenerator(live['obj']).getVerilog()
        except BaseException as e:
            run.count('beh_refused')
            run.extra.setdefault('beh_errors', [])
            if len(run.extra['beh_errors']) < 4:
                run.extra['beh_errors'].append(('%s: %r' % (op, e))[:200])
            if any(cc['texts'] for cc in circ):
                run.violation('generation_fails_after_history', dict(clause='repeatability', op=op, block='behavioural'), dict(case, step=step, error=repr(e)[:300]),
                              what='behavioural history %d step %d (%s): generation raised %r although the same class generated before' % (idx, step, op, e))
            return
        run.ev()
        run.count('beh_generation_calls')
        if c['cycles'] > 0:
            run.count('beh_generations_mid_run')
        for ik in off_initial:
            run.count('beh_generation_with_state_off_initial_' + ik)
        after = attrs(live['obj'])
        if before != after:
            diff = sorted(k for k in set(before) | set(after) if before.get(k) != after.get(k))
            run.violation('generation_mutates_circuit', dict(clause='purity', op=op, block='behavioural'),
                          dict(case, step=step, cycle=c['cycles'], changed={k: [repr(before.get(k)), repr(after.get(k))] for k in diff}),
                          what='behavioural history %d step %d (%s, after %d cycles): attributes of the live block changed: %s' % (
                              idx, step, op, c['cycles'], ', '.join('%s %r -> %r' % (k, before.get(k), after.get(k)) for k in diff)[:300]))
            return
        key = 'mod' if op == 'module' else 'hier'
        norm = normalise(text)
        for how, k2, n2, raw in c['texts']:
            if k2 == key:
                run.count('beh_text_comparisons')
                if n2 != norm:
                    run.violation('generation_not_repeatable', dict(clause='repeatability', first=how, second=op, block='behavioural'),
                                  dict(case, step=step, key=key, first_text=raw[:3000], second_text=text[:3000]),
                                  what='behavioural history %d step %d: %s text of circuit %d differs from its earlier %s text' % (idx, step, op, ci, how))
                    return
                break
        c['texts'].append((op, key, norm, text))
        interleaved = bool(gen_order) and any(x != ci for x in gen_order)
        gen_order.append(ci)
        # same design: the text is executed from power-up against a fresh instance with this circuit's constants
        h = stable_hash([key, norm])
        if h not in c['judged'] and key == 'hier':
            fresh = build(C, spec, vals[ci], held[ci])
            vr = rng(seed, 'c19-beh-vec', idx, ci)
            vecs = [dict(en=int(vr.random() < 0.7), d=vr.getrandbits(spec.wd) if vr.random() < 0.6 else vr.choice(vals[ci]) & ((1 << spec.wd) - 1)) for _ in range(40)]
            jtext = text
            if held[ci]:
                # below a holder the module carries the instance-unique suffix of the live object: give it the fresh object's
                import py4hw.rtl_generation as rg
                jtext = text.replace(rg.getVerilogModuleName(live['obj'], noInstanceNumber=False), rg.getVerilogModuleName(fresh['obj'], noInstanceNumber=False))
            res = c02.cosim_behavioural(fresh['obj'], fresh['hw'], fresh['ins'], fresh['outs'], [s for s, _, _ in spec.states], vecs, seq, text=jtext,
                                        as_instance=held[ci], power_up=True)
            c['judged'][h] = res.status
            run.ev()
            run.count('beh_cosim_' + res.status)
            if res.status == 'compared':
                run.count('beh_cosim_steps_in_domain', res.in_domain)
                if interleaved:
                    run.count('beh_cosim_after_generation_for_another_circuit')
                    if res.in_domain >= 8:
                        judged_interleaved += 1
            if res.status == 'invalid_text' or res.mismatch is not None:
                m = res.mismatch
                what = res.detail if m is None else '%s %s step %s: python %s, verilog %s' % (m['kind'], m['name'], m['step'], m['python'], m['verilog'])
                run.violation('text_describes_another_design', dict(clause='interleaving' if interleaved else 'first_generation', block='behavioural',
                                                                    what='invalid_text' if m is None else m['kind']),
                              dict(case, step=step, circuit=ci, mismatch=m, detail=res.detail, text=text[:4000]),
                              what='behavioural history %d step %d: the %s text obtained for circuit %d (constants %s, generated after %s) does not behave like that circuit: %s' % (
                                  idx, step, op, ci, vals[ci], gen_order[:-1], what))
                return
    if judged_interleaved and len(set(map(tuple, vals))) > 1:
        run.nt(stable_hash(['beh', src.replace(name, 'B'), vals, ops]))
    if idx % 23 == 0:
        run.sample(dict(behavioural_history=idx, kind=spec.kind, states=[(s, ik) for s, _, ik in spec.states], constants=vals, ops=ops))


def run_all(run, d, seed, indices, n_ops):
    for idx in indices:
        if run.too_many:
            break
        try:
            run_history(run, d, seed, idx, n_ops)
        except SyntaxError:
            run.count('beh_generated_source_invalid')
    c = run.counters
    if c.get('beh_histories', 0):
        if c.get('beh_cosim_after_generation_for_another_circuit', 0) == 0:
            run.inconclusive.append('behavioural histories: no text generated after a generation for another circuit was co-simulated')
        if c.get('beh_trace_comparisons_after_generation', 0) == 0:
            run.inconclusive.append('behavioural histories: no trajectory comparison after a generation')
        for ik in INIT_KINDS:
            if c.get('beh_generation_with_state_off_initial_' + ik, 0) == 0:
                run.inconclusive.append('behavioural histories: no generation while a state with initialiser kind %s was away from its initial value' % ik)
