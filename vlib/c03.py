"""C03 -- emitted Verilog is self-consistent: it parses, resolves and elaborates (DESIGN.md section 4 C03).

Offline checker (E4 parse + elaborate + well-formedness) over every text the generators emit for the workloads of
this suite (C01 designs, transpiled corpus, library system blocks) plus a naming-stress and an optional-port-reuse
workload; the "interchangeable" clause is evaluated from the live objects that share a module name.
"""
import os
import re
import time

from . import catalog, cosim, dutgen, vlog
from . import c01
from . import c03_words, c03_edit
from .common import muted, rng, shard_slice, stable_hash

LEVEL = 'exploration'
RULE = ('texts = Verilog emitted for (a) every catalogue block x configuration wrapped in a Dut three ways, (b) the same blocks as '
        'generation root, (c) sequential blocks, (d) random compositions, (e) naming-stress designs (reserved words, names that '
        'collide after prefixing, names equal to the implicit clock), (f) blocks reused with different optional ports, (g) library '
        'system blocks (floating point, UART, AXI adapters) and transpiled behavioural classes, (l) every reserved word of IEEE 1364-2005 '
        '(own list) as root / child / grandchild port, interface element, net and instance name, one word per text, (m) construction '
        'histories through the netlist-editing API (Interface add / remove / declare again / attach, same-named plain wires, '
        'reconnectIn, disconnectWireFromLogicObject) that either raise or return text; each text is parsed, resolved and '
        'elaborated; non-trivial = text with >= 1 module instance or >= 2 modules or a procedural block; distinct by text hash '
        'after instance-id normalisation')
SHARDS = {'quick': 1, 'thorough': 16}
TIMEOUT = {'quick': 900, 'thorough': 3300}
MIN_NONTRIVIAL = {'quick': 100, 'thorough': 1000}

_HEX = re.compile(r'_[0-9a-f]{9,16}\b')


def norm_ids(text):
    return _HEX.sub('_ID', text)


def module_class(name):
    """Module name without instance ids and width digits: the emitting class / structure family."""
    n = _HEX.sub('', name)
    return n


def family(name):
    n = _HEX.sub('', name)
    m = re.match(r'[A-Za-z_]+', n)
    return m.group(0) if m else n


# --------------------------------------------------------------------------- judging one text

PRIMARY = ('duplicate_declaration',)


def judge_text(run, text, label, case, blackboxes=(), root_kind='structural', single_module=False, ignore=()):
    run.ev()
    run.count('texts')
    d = vlog.check_design(text, blackboxes)
    run.count('modules', len(d.mods))
    ninst = sum(len(m.instances) for m in d.mods.values())
    nproc = sum(len(m.always) for m in d.mods.values())
    run.count('instances', ninst)
    run.count('always_blocks', nproc)
    run.count('assigns', sum(len(m.assigns) for m in d.mods.values()))
    if ninst >= 1 or len(d.mods) >= 2 or nproc >= 1:
        run.nt(stable_hash(norm_ids(text)))
    # a duplicate declaration makes every later diagnostic about that name a consequence of it: report the cause only
    dup_names = {}
    for dg in d.diags:
        if dg.code == 'duplicate_declaration':
            dup_names.setdefault(dg.module, set()).add(dg.info.get('name'))
    seen = set()
    for dg in d.diags:
        if single_module and dg.code == 'undefined_module':
            # a single-module request (getVerilog) does not include the modules it instantiates: they are external here
            run.count('external_modules_of_single_module_text')
            continue
        if dg.code in ignore:
            run.count('diagnostics_not_applicable_to_this_workload')
            continue
        if dg.code != 'duplicate_declaration' and _mentions(dg, dup_names):
            run.count('secondary_diagnostics')
            continue
        key, fields = classify(dg, d, text, label)
        sig = (key, tuple(sorted(fields.items())))
        if sig in seen:
            continue
        seen.add(sig)
        run.count('diag_' + dg.code)
        # one replay per mechanism signature is enough; further texts with the same signature are counted
        glob = run.extra.setdefault('signature_counts', {})
        gk = stable_hash([key, sorted(fields.items())])
        glob[gk] = glob.get(gk, 0) + 1
        if glob[gk] > 3:
            run.count('violations_same_signature_not_repeated')
            from .common import match_known
            if match_known(run.known, key, fields) is None:
                continue
        run.violation(key, fields, dict(case, diag=dg.as_dict(), text=text[:6000]), observed=repr(dg),
                      what='%s: %r' % (label, dg))
    # no declared / used identifier is a reserved word (own list of IEEE 1364-2005 words; the front end has its own and stops at
    # the first one it meets, this clause looks at every name of a text that parsed)
    if d.parse_ok:
        run.count('texts_scanned_for_reserved_identifiers')
        for mname, role, n in c03_words.reserved_identifiers(d):
            run.violation('reserved_word_as_identifier', dict(code='reserved_identifier', where=family(mname), word=n, role=role),
                          dict(case, text=text[:6000]), observed='%s %r in module %s' % (role, n, mname),
                          what='%s: %s %r in module %s is a reserved word' % (label, role, n, mname))
    if run.evaluations % 211 == 1:
        run.sample(dict(design=label, modules=len(d.mods), instances=ninst, diags=[repr(x) for x in d.diags][:3], text_head=text[:200]))
    return d


def _mentions(dg, dup_names):
    names = dup_names.get(dg.module, ())
    if not names:
        # a port connected twice in the parent is the instance-side view of a duplicated port name in the child
        if 'target' in dg.info and 'port' in dg.info:
            return dg.info.get('port') in dup_names.get(dg.info.get('target'), ())
        return False
    for n in names:
        if n and re.search(r'(?<![A-Za-z0-9_])%s(?![A-Za-z0-9_])' % re.escape(n), dg.detail):
            return True
    return False


def _prefix_kind(name):
    for p in ('w_', 'i_', 'reserved_'):
        if name.startswith(p):
            return p
    return None


def clock_names(d):
    """Names used as posedge clocks anywhere in the design."""
    if getattr(d, '_clock_names', None) is None:
        out = set()
        for mi in d.mods.values():
            for al in mi.always:
                if al.sens != '*':
                    for e, x in al.sens:
                        if e == 'posedge' and hasattr(x, 'name'):
                            out.add(x.name)
            # ... and as clock pins: header inputs / connected ports called clk, clk2, ...
            for n, sy in mi.syms.items():
                if sy.dir == 'input' and re.match(r'^clk\d*$', n):
                    out.add(n)
            for inst in mi.instances:
                for pn, e in inst.conns:
                    if re.match(r'^clk\d*$', pn):
                        out.add(pn)
        d._clock_names = out
    return d._clock_names


def classify(dg, d, text, label):
    """Mechanism key + classifier fields for one diagnostic (narrow on purpose: see known_findings.json)."""
    code = dg.code
    fam = family(dg.module) if dg.module != '?' else '?'
    fields = dict(code=code, module_family=fam)
    info = dg.info
    if code.startswith('parse:'):
        m = re.search(r'line (\d+)', dg.detail)
        lines = text.splitlines()
        line = lines[int(m.group(1)) - 1] if m and 0 < int(m.group(1)) <= len(lines) else ''
        before = '\n'.join(lines[:int(m.group(1)) - 1]) if m else ''
        open_module = before.count('module ') - before.count('endmodule') * 2 > 0 if before else False
        if re.match(r'\s*module\s+\S*-', line) or re.match(r'\s*[A-Za-z_][A-Za-z0-9_]*-\d', line):
            return 'module_name_not_identifier', dict(code=code, construct='"-" in a module name', family=family(line.split()[1] if line.split()[0] == 'module' else line.split()[0]))
        if line.lstrip().startswith('assign') and 'module' not in before:
            return 'inlinable_root_emits_bare_assign', dict(code=code, construct='assign outside any module')
        if re.search(r'=\s*\{?\s*\}\s*;', line):
            # a concatenation of zero wires (a width-0 intermediate net)
            return 'empty_concatenation', dict(code=code, construct='concatenation without operands')
        if 'reserved_word' in code:
            mw = re.search(r"reserved word '([^']*)'", dg.detail)
            return 'reserved_word_as_identifier', dict(code=code, where=fam, word=mw.group(1) if mw else '?')
        fields['construct'] = re.sub(r'\d+', 'N', dg.detail.split(': ', 1)[-1])[:80]
        return 'does_not_parse', fields
    if code == 'duplicate_declaration':
        n = info.get('name', '')
        both_ports = info.get('first_dir') is not None and info.get('second_dir') is not None
        if both_ports and n == 'clk':
            # the implicit clock input is called like the clock driver; a data port of the same name collides with it
            return 'implicit_clock_name_collision', dict(code=code)
        if both_ports and _prefix_kind(n) != 'reserved_':
            return 'port_named_after_caller_wire_twice', dict(code=code, module_family=fam)
        pk = _prefix_kind(n)
        if pk is not None and (info.get('first_dir') is not None or info.get('second_dir') is not None):
            return 'collision_after_prefixing', dict(code=code, prefix=pk)
        fields['kind'] = 'other'
        return 'duplicate_declaration', fields
    clocks = clock_names(d)
    if len(clocks) > 1:
        # designs with more than one clock-driver name (secondary clock domains)
        if code == 'port_not_found' and info.get('port') in clocks:
            return 'named_module_shared_across_clock_domains', dict(code=code, clause='clock port')
        if code == 'input_unconnected' and dg.detail.rsplit('.', 1)[-1] in clocks:
            return 'named_module_shared_across_clock_domains', dict(code=code, clause='clock port')
        if code == 'undeclared_identifier' and dg.detail in clocks and 'Memory' in fam:
            return 'body_names_the_default_clock_in_another_domain', dict(code=code, module_family=fam)
    if code == 'port_not_found':
        return 'shared_module_missing_port', dict(code=code, shared_module_family=family(info.get('target', '?')), port=info.get('port'))
    if code == 'undriven_net':
        fields['net'] = re.sub(r'\d+', 'N', info.get('net', '?'))
        fields['dir'] = info.get('dir')
        return 'undriven_net', fields
    if code == 'select_out_of_range':
        fields['select'] = re.sub(r'\d+', 'N', dg.detail)
        return 'select_out_of_range', fields
    return code, fields


# --------------------------------------------------------------------------- interchangeability from live objects

def interface_of(obj, gen):
    import py4hw
    sig = []
    if gen.anyClockableDescendant(obj):
        sig.append(('clk', 'input', py4hw.getObjectClockDriver(obj).name))
    for p in obj.inPorts:
        sig.append((p.name, 'input', p.wire.getWidth() if p.wire is not None else None))
    for p in obj.outPorts:
        sig.append((p.name, 'output', p.wire.getWidth() if p.wire is not None else None))
    for p in obj.inOutPorts:
        sig.append((p.name, 'inout', p.wire.getWidth() if p.wire is not None else None))
    names = obj.getParameterNames()
    if names is not None:
        sig.append(('#params', tuple(names), None))
    return tuple(sig)


def shape_of(obj, gen):
    """Structural shape of the subtree: what a shared body must agree on (types, widths, constants)."""
    kids = []
    for c in obj.children.values():
        kids.append(shape_of(c, gen))
    extra = []
    for a in ('value', 'reset_value', 'v', 'bit', 'high', 'low'):
        if hasattr(obj, a) and isinstance(getattr(obj, a), int):
            extra.append((a, getattr(obj, a)))
    return (type(obj).__name__, interface_of(obj, gen), tuple(extra), tuple(kids))


def alias_pattern(obj):
    ws = [id(p.wire) for p in list(obj.inPorts) + list(obj.outPorts) if p.wire is not None]
    return tuple(ws.index(w) for w in ws)


def check_interchangeable(run, root, label, case):
    import py4hw
    import py4hw.rtl_generation as rg
    gen = py4hw.VerilogGenerator(root)
    groups = {}

    def walk(o):
        for c in o.children.values():
            if gen.isInlinable(c):
                continue
            try:
                name = rg.getVerilogModuleName(c)
            except Exception:
                continue
            groups.setdefault(name, []).append(c)
            walk(c)
    walk(root)
    for name, objs in groups.items():
        if len(objs) < 2:
            continue
        run.count('shared_module_groups')
        first = interface_of(objs[0], gen)
        s0 = shape_of(objs[0], gen)
        a0 = alias_pattern(objs[0])
        for o in objs[1:]:
            if alias_pattern(o) != a0:
                # the emitted body names nets by wire object: ports tied to one wire collapse into one name
                run.violation('named_module_port_aliasing', dict(clause='interchangeable'),
                              dict(case, module=name, first=a0, other=alias_pattern(o)),
                              what='%s: objects emitted as %s tie their ports to wires differently (%r vs %r)' % (label, name, a0, alias_pattern(o)))
                break
        for o in objs[1:]:
            run.count('shared_module_pairs')
            if interface_of(o, gen) != first:
                run.violation('shared_module_interface_differs', dict(family=family(name)),
                              dict(case, module=name, first=repr(first), other=repr(interface_of(o, gen))),
                              what='%s: two objects emitted as %s have different interfaces' % (label, name))
                break
            if shape_of(o, gen) != s0:
                run.violation('shared_module_body_differs', dict(family=family(name)),
                              dict(case, module=name), what='%s: two objects emitted as %s have different bodies' % (label, name))
                break


# --------------------------------------------------------------------------- workloads

def _gen(dut, root=None):
    import py4hw
    with muted():
        return py4hw.VerilogGenerator(dut).getVerilogForHierarchy(root)


def naming_designs():
    """(label, builder(hw, dut) -> (ins, outs))"""
    import py4hw
    out = []
    reserved = ['begin', 'end', 'reg', 'wire', 'input', 'output', 'module', 'assign', 'always', 'case', 'signed', 'logic', 'bit', 'int',
                'initial', 'if', 'for', 'table', 'generate', 'do', 'var', 'xor', 'and', 'or', 'not', 'buf', 'time', 'event']
    for k in range(0, len(reserved), 2):
        a_, b_ = reserved[k], reserved[(k + 1) % len(reserved)]

        def f(hw, dut, a_=a_, b_=b_):
            a = hw.wire(a_, 4); b = hw.wire(b_, 4); r = hw.wire('r', 4)
            m = dut.wire(a_, 4)              # local net with a reserved name (gets the w_ prefix)
            py4hw.And2(dut, b_, a, b, m)      # instance with a reserved name (gets the i_ prefix)
            py4hw.Add(dut, a_, m, b, r)       # named-module instance with a reserved name
            return [a, b], [r]
        out.append(('reserved ports %s/%s' % (a_, b_), f))
    for base in ['x', 'n', 'q', 'clk', 'r']:
        def f(hw, dut, base=base):
            a = hw.wire('w_' + base, 4); b = hw.wire('b', 4); r = hw.wire('r0', 4)
            m = dut.wire(base, 4)            # local net `base` -> w_<base>, collides with the port w_<base>
            py4hw.And2(dut, 'g', a, b, m)
            py4hw.Add(dut, 'h', m, b, r)
            return [a, b], [r]
        out.append(('local %s vs port w_%s' % (base, base), f))

        def f(hw, dut, base=base):
            a = hw.wire('i_' + base, 4); b = hw.wire('b', 4); r = hw.wire('r0', 4)
            py4hw.Add(dut, base, a, b, r)    # instance `base` -> i_<base>, collides with the port i_<base>
            return [a, b], [r]
        out.append(('instance %s vs port i_%s' % (base, base), f))

    def f(hw, dut):
        d = hw.wire('d', 4); q = hw.wire('q', 4)
        c = dut.wire('clk', 4)               # a data net called like the implicit clock ...
        py4hw.Not(dut, 'n', d, c)
        M = cosim.Dut.cls('Mid')
        mid = M(dut, 'mid')                  # ... and a clocked child with a data port of that name
        mid.addIn('clk', c); mid.addOut('q', q)
        t = mid.wire('t', 4)
        py4hw.Not(mid, 'g', c, t)
        py4hw.Reg(mid, 'r', t, q)
        return [d], [q]
    out.append(('data port named clk in a clocked design', f))

    def f(hw, dut):
        a = hw.wire('a', 4); q = hw.wire('q', 4)
        t = dut.wire('clk', 4)               # local net called like the implicit clock -> w_clk
        py4hw.Not(dut, 'g', a, t)
        py4hw.Reg(dut, 'r', t, q)
        return [a], [q]
    out.append(('local net named clk in a clocked design', f))

    def f(hw, dut):
        a = hw.wire('a', 4); q = hw.wire('reserved_begin', 4); q2 = hw.wire('begin', 4)
        py4hw.Not(dut, 'g', a, q); py4hw.Buf(dut, 'h', a, q2)
        return [a], [q, q2]
    out.append(('port begin vs port reserved_begin', f))
    return out


def reuse_designs():
    import py4hw
    out = []

    def f(hw, dut):
        a = hw.wire('a', 8); r1 = hw.wire('r1', 8); r2 = hw.wire('r2', 8); i2 = hw.wire('i2')
        py4hw.Abs(dut, 'a1', a, r1); py4hw.Abs(dut, 'a2', a, r2, inverted=i2)
        return [a], [r1, r2, i2]
    out.append(('Abs without then with inverted', f))

    def f(hw, dut):
        a = hw.wire('a', 8); r1 = hw.wire('r1', 8); r2 = hw.wire('r2', 8); i2 = hw.wire('i2')
        py4hw.Abs(dut, 'a2', a, r2, inverted=i2); py4hw.Abs(dut, 'a1', a, r1)
        return [a], [r1, r2, i2]
    out.append(('Abs with then without inverted', f))

    def f(hw, dut):
        a = hw.wire('a', 32); b = hw.wire('b', 32); r = hw.wire('r', 32); ia = hw.wire('ia', 32); fo = hw.wire('fo', 32); pl = hw.wire('pl')
        py4hw.SignedDiv(dut, 'sd', a, b, r); py4hw.InttoFP_SP(dut, 'i2f', ia, fo, pl)
        return [a, b, ia], [r, fo, pl]
    out.append(('SignedDiv + InttoFP_SP at 32 bits', f))
    for ci1, co1, ci2, co2 in [(0, 0, 1, 0), (0, 0, 0, 1), (1, 1, 0, 0), (1, 0, 0, 1)]:
        def f(hw, dut, ci1=ci1, co1=co1, ci2=ci2, co2=co2):
            a = hw.wire('a', 8); b = hw.wire('b', 8); c = hw.wire('c')
            r1 = hw.wire('r1', 8); r2 = hw.wire('r2', 8); o1 = hw.wire('o1'); o2 = hw.wire('o2')
            outs = [r1, r2]
            py4hw.Add(dut, 'x1', a, b, r1, ci=c if ci1 else None, co=o1 if co1 else None)
            py4hw.Add(dut, 'x2', a, b, r2, ci=c if ci2 else None, co=o2 if co2 else None)
            if co1:
                outs.append(o1)
            if co2:
                outs.append(o2)
            return [a, b, c], outs
        out.append(('Add ci/co %d%d then %d%d' % (ci1, co1, ci2, co2), f))
    for rv in [-1, -5, 5, 300, 0]:
        def f(hw, dut, rv=rv):
            d = hw.wire('d', 8); r = hw.wire('r'); e = hw.wire('e'); q1 = hw.wire('q1', 8); q2 = hw.wire('q2', 8); q3 = hw.wire('q3', 8)
            py4hw.Reg(dut, 'r1', d, q1, reset=r, reset_value=rv); py4hw.Reg(dut, 'r2', d, q2, enable=e, reset=r, reset_value=rv)
            py4hw.Reg(dut, 'r3', d, q3, reset=r, reset_value=rv)
            return [d, r, e], [q1, q2, q3]
        out.append(('Reg reset_value %d reused' % rv, f))
    # registers beyond a machine word with different reset values (top bit set, more than 53 significant bits, negative):
    # whatever names their modules get, instances under one name must load the same reset value
    for w in (33, 54, 64, 100):
        def f(hw, dut, w=w):
            d = hw.wire('d', w); r = hw.wire('r')
            qs = [hw.wire('q%d' % k, w) for k in range(5)]
            rvs = [(1 << (w - 1)) + 1, (1 << (w - 1)) + 3, 1, (1 << w) - 2, -1]
            for k, (q, rv) in enumerate(zip(qs, rvs)):
                py4hw.Reg(dut, 'r%d' % k, d, q, reset=r, reset_value=rv)
            return [d, r], qs
        out.append(('Reg %d bits, five reset values' % w, f))
    # inout ports: the bidirectional wire is a port of the generated block and is used by its children (inlined BidirBuf, or a
    # structural child that takes it as its own inout port)
    for w, nested in ((1, False), (8, False), (1, True), (4, True)):
        def f(hw, dut, w=w, nested=nested):
            pin = hw.wire('pin', w); pout = hw.wire('pout', w); poe = hw.wire('poe'); pad = hw.bidir_wire('sda', w)
            dut.addInOut('pad', pad)
            if nested:
                M = cosim.Dut.cls('Mid')
                mid = M(dut, 'mid'); mid.addOut('pin', pin); mid.addIn('pout', pout); mid.addIn('poe', poe); mid.addInOut('io', pad)
                py4hw.BidirBuf(mid, 'buf', pin, pout, poe, pad)
            else:
                py4hw.BidirBuf(dut, 'buf', pin, pout, poe, pad)
            return [pout, poe], [pin]
        out.append(('inout pad %d bits%s' % (w, ' through a child' if nested else ''), f))
    # flag outputs on wires of different widths under one operand width (a constructor that accepts the wide flag must not bind it
    # to a body emitted for the 1-bit one; refusing the wide flag, as Sign does, is fine)
    for fw in (2, 4):
        def f(hw, dut, fw=fw):
            a = hw.wire('a', 8); s1 = hw.wire('s1'); s2 = hw.wire('s2', fw)
            py4hw.Sign(dut, 'sa', a, s1); py4hw.Sign(dut, 'sb', a, s2)
            return [a], [s1, s2]
        out.append(('Sign flag 1 bit then %d bits' % fw, f))

        def f(hw, dut, fw=fw):
            a = hw.wire('a', 8); r1 = hw.wire('r1', 8); r2 = hw.wire('r2', 8); i1 = hw.wire('i1'); i2 = hw.wire('i2', fw)
            py4hw.Abs(dut, 'a1', a, r1, inverted=i1); py4hw.Abs(dut, 'a2', a, r2, inverted=i2)
            return [a], [r1, r2, i1, i2]
        out.append(('Abs inverted flag 1 bit then %d bits' % fw, f))

        def f(hw, dut, fw=fw):
            a = hw.wire('a', 8); b = hw.wire('b', 8); e1 = hw.wire('e1'); e2 = hw.wire('e2', fw)
            py4hw.Equal(dut, 'q1', a, b, e1); py4hw.Equal(dut, 'q2', a, b, e2)
            return [a, b], [e1, e2]
        out.append(('Equal flag 1 bit then %d bits' % fw, f))

        def f(hw, dut, fw=fw):
            a = hw.wire('a', 8); b = hw.wire('b', 8)
            o = [hw.wire(n, w) for n, w in (('g1', 1), ('e1', 1), ('l1', 1), ('g2', fw), ('e2', fw), ('l2', fw))]
            py4hw.Comparator(dut, 'c1', a, b, o[0], o[1], o[2]); py4hw.Comparator(dut, 'c2', a, b, o[3], o[4], o[5])
            return [a, b], o
        out.append(('Comparator flags 1 bit then %d bits' % fw, f))
    for flags in (0, 1):
        def f(hw, dut, flags=flags):
            din = hw.wire('din', 4); dout = hw.wire('dout', 4); push = hw.wire('push'); pop = hw.wire('pop')
            em = hw.wire('em') if flags else None; fu = hw.wire('fu') if flags else None
            py4hw.Stack_ShiftRegister(dut, 's', din, dout, push, pop, em, fu, 3)
            return [din, push, pop], [dout] + ([em, fu] if flags else [])
        out.append(('Stack_ShiftRegister flags=%d' % flags, f))

    def f(hw, dut):
        a = hw.wire('a', 8); b = hw.wire('b', 8); e = hw.wire('e'); r1 = hw.wire('r1', 8); r2 = hw.wire('r2', 8)
        py4hw.BufEnable(dut, 'b1', a, e, r1); py4hw.BufEnable(dut, 'b2', b, e, r2)
        return [a, b, e], [r1, r2]
    out.append(('BufEnable twice', f))

    def f(hw, dut):
        a = hw.wire('a', 8); r1 = hw.wire('r1', 16); r2 = hw.wire('r2', 8); r3 = hw.wire('r3', 4)
        py4hw.SignExtend(dut, 's1', a, r1); py4hw.SignExtend(dut, 's2', a, r2); py4hw.SignExtend(dut, 's3', a, r3)
        return [a], [r1, r2, r3]
    out.append(('SignExtend wider/equal/narrower', f))
    return out


def system_designs():
    """Library system blocks generated as their own root: (label, builder(hw) -> root object)."""
    import py4hw
    out = []

    def W(hw, n, w=1):
        return hw.wire(n, w)
    out.append(('FPAdder_SP', lambda hw: py4hw.FPAdder_SP(hw, 'x', W(hw, 'a', 32), W(hw, 'b', 32), W(hw, 'r', 32))))
    out.append(('FPMult_SP', lambda hw: py4hw.FPMult_SP(hw, 'x', W(hw, 'a', 32), W(hw, 'b', 32), W(hw, 'r', 32))))
    out.append(('FPtoInt_SP', lambda hw: py4hw.FPtoInt_SP(hw, 'x', W(hw, 'a', 32), W(hw, 'r', 32), W(hw, 'pl'), W(hw, 'dn'), W(hw, 'inv'))))
    out.append(('InttoFP_SP', lambda hw: py4hw.InttoFP_SP(hw, 'x', W(hw, 'a', 32), W(hw, 'r', 32), W(hw, 'pl'))))
    out.append(('FPComparator_SP', lambda hw: py4hw.FPComparator_SP(hw, 'x', W(hw, 'a', 32), W(hw, 'b', 32), W(hw, 'gt'), W(hw, 'eq'), W(hw, 'lt'))))
    for f in [(1, 3, 4), (1, 7, 8)]:
        out.append(('FixedPointMult%r' % (f,), lambda hw, f=f: py4hw.FixedPointMult(hw, 'x', W(hw, 'a', sum(f)), f, W(hw, 'b', sum(f)), f, W(hw, 'r', sum(f)), f)))
        out.append(('FixedPointAdd%r' % (f,), lambda hw, f=f: py4hw.FixedPointAdd(hw, 'x', W(hw, 'a', sum(f)), f, W(hw, 'b', sum(f)), f, W(hw, 'r', sum(f)), f)))
        out.append(('FixedPointComparator%r' % (f,), lambda hw, f=f: py4hw.FixedPointComparator(hw, 'x', W(hw, 'a', sum(f)), f, W(hw, 'b', sum(f)), f, W(hw, 'gt'), W(hw, 'eq'), W(hw, 'lt'))))

    def uart(hw):
        from py4hw.logic.protocol.uart.sequencer import UARTMsgGenerator
        return UARTMsgGenerator(hw, 'gen', W(hw, 'tx'), 16, 1, 'Hi')
    out.append(('UARTMsgGenerator', uart))

    def r2a(hw):
        import py4hw.logic.bus.axi as axi
        from py4hw.emulation.vitiswrapping import Reg2Axi
        st = axi.AXI4StreamInterface(hw, 's', 64, has_tlast=True, has_tkeep=True)
        return Reg2Axi(hw, 'd', W(hw, 'start'), W(hw, 'reset'), W(hw, 'done'), W(hw, 'load'), W(hw, 'reg_in', 32), st, W(hw, 'sent'), W(hw, 'active'))
    out.append(('Reg2Axi', r2a))

    def a2r(hw):
        import py4hw.logic.bus.axi as axi
        from py4hw.emulation.vitiswrapping import Axi2Reg
        st = axi.AXI4StreamInterface(hw, 's', 64, has_tlast=True, has_tkeep=True)
        return Axi2Reg(hw, 'd', W(hw, 'start'), W(hw, 'reset'), W(hw, 'done'), st, W(hw, 'q', 32), W(hw, 'loaded'), W(hw, 'active'))
    out.append(('Axi2Reg', a2r))

    def serdes(hw):
        from py4hw.logic.protocol.uart.serdes import UARTSerializer
        return UARTSerializer(hw, 'ser', W(hw, 'ready'), W(hw, 'valid'), W(hw, 'v', 8), W(hw, 'pulse'), W(hw, 'tx'))
    out.append(('UARTSerializer', serdes))

    def deser(hw):
        from py4hw.logic.protocol.uart.serdes import UARTDeserializer
        return UARTDeserializer(hw, 'des', W(hw, 'rx'), W(hw, 'sample'), W(hw, 'ready'), W(hw, 'valid'), W(hw, 'v', 8), W(hw, 'desync'))
    out.append(('UARTDeserializer', deser))

    def cgr(hw):
        from py4hw.logic.protocol.uart.clock import ClockGenerationAndRecovery
        return ClockGenerationAndRecovery(hw, 'clk', W(hw, 'rx'), W(hw, 'desync'), W(hw, 'pulse'), W(hw, 'sample'), 16, 1)
    out.append(('ClockGenerationAndRecovery', cgr))

    def cmdreq(hw):
        from py4hw.emulation.HILWrapperUART import CMDRequest
        return CMDRequest(hw, 'req', W(hw, 'ready'), W(hw, 'valid'), W(hw, 'c', 8), W(hw, 'index_in', 8), W(hw, 'v_in', 32), W(hw, 'index_out', 8),
                          W(hw, 'set_index_in'), W(hw, 'set_v_in'), W(hw, 'set_index_out'), W(hw, 'clk_pulse'), W(hw, 'start_resp'))
    out.append(('CMDRequest', cmdreq))
    out.append(('AutoReset', lambda hw: py4hw.AutoReset(hw, 'ar', W(hw, 'r'))))
    out.append(('Latch', lambda hw: py4hw.Latch(hw, 'l', W(hw, 'd', 4), W(hw, 'q', 4), W(hw, 'e'))))
    out.append(('AsynchronousMemory', lambda hw: py4hw.AsynchronousMemory(hw, 'm', W(hw, 'ra', 3), W(hw, 'wa', 3), W(hw, 'we'), W(hw, 'rd', 8), W(hw, 'wd', 8))))
    out.append(('Digit7Segment', lambda hw: py4hw.Digit7Segment(hw, 'd', W(hw, 'v', 4), W(hw, 'led', 7))))
    return out


def run_check(run, tier, seed, shard):
    import py4hw
    quick = tier == 'quick'
    deadline = time.time() + (700 if quick else 3000)
    run.assume('leniencies not demanded by the property: bit-select [0] of a scalar, widths of unsized literals; a module emitted but never instantiated is not an error')
    run.assume('black boxes: only the modules a workload itself names in createdStructures')

    def dut_text(label, f, case):
        hw = py4hw.HWSystem()
        D = cosim.Dut.cls('Dut')
        try:
            with muted():
                dut = D(hw, 'dut')
                ins, outs = f(hw, dut)
                cosim.wrap_ports(dut, ins, outs)
                text = py4hw.VerilogGenerator(dut).getVerilogForHierarchy()
        except Exception as e:
            run.count('refused')
            run.extra.setdefault('refused_examples', [])
            if len(run.extra['refused_examples']) < 8:
                run.extra['refused_examples'].append('%s: %r' % (label, e)[:200])
            return
        judge_text(run, text, label, case)
        check_interchangeable(run, dut, label, case)
        return text

    # (l) every reserved word of IEEE 1364-2005 (own list) as port of the root / of a child / of a grandchild, as interface element,
    # as local net and as instance name: one word per text
    per_shape = run.extra.setdefault('reserved_word_texts_by_shape', {})
    jobs = shard_slice(c03_words.word_designs(), shard)
    reached = set()
    for label, word, shape, f in jobs:
        if run.too_many:
            break
        text = dut_text('reserved word %r as %s' % (word, label), f, dict(workload='reserved_words', word=word, shape=shape))
        if text is None:
            run.count('reserved_word_designs_refused')
            continue
        if re.search(r'(?<![A-Za-z0-9_])(reserved_|w_|i_)?%s(?![A-Za-z0-9_])' % re.escape(word), text):
            per_shape[shape] = per_shape.get(shape, 0) + 1
            reached.add(word)
        else:
            run.count('reserved_word_not_in_the_text')
    if shard is None or shard[0] == 0:
        run.count('reserved_words_in_the_list', len(c03_words.WORDS_1364_2005))
    if shard is None:
        run.count('reserved_words_that_reached_a_text', len(reached))
    if jobs and not run.too_many:
        want = len(set(j[1] for j in jobs))
        if len(reached) < want:
            run.inconclusive.append('reserved-word workload: only %d of %d words reached an emitted text' % (len(reached), want))

    # (m) construction histories through the netlist-editing API (Interface add / remove / declare again / attach, plain wires of the
    # same name, reconnectIn, disconnectWireFromLogicObject): a history either raises or its text passes the whole oracle
    plans = c03_edit.directed_plans()
    for i in range(150 if quick else 6000):
        plans.append(c03_edit.random_plan(rng(seed, 'c03-edit', i)))
    hist = run.extra.setdefault('edit_histories', {})
    jobs = shard_slice(plans, shard)
    edit_texts = 0
    for plan in jobs:
        if run.too_many:
            break
        shape = c03_edit.shape_of(plan)
        try:
            with muted():
                hw, dut = c03_edit.build(plan)
                text = py4hw.VerilogGenerator(dut).getVerilogForHierarchy()
        except Exception as e:
            k = shape + ': refused'
            hist[k] = hist.get(k, 0) + 1
            run.extra.setdefault('edit_refusal_examples', {}).setdefault(shape, ('%r' % (e,))[:160])
            continue
        k = shape + ': text'
        hist[k] = hist.get(k, 0) + 1
        edit_texts += 1
        label = 'edit history (%s, %s)' % (plan['kind'], plan['scope'])
        judge_text(run, text, label, dict(workload='edit_history', plan=plan))
        check_interchangeable(run, dut, label, dict(workload='edit_history', plan=plan))
    if jobs and not run.too_many:
        if not any(k.endswith(': text') and k.startswith('remove') for k in hist):
            run.inconclusive.append('edit histories: no history with a removal returned text')
        if not any(k.startswith('remove, declare again') for k in hist):
            run.inconclusive.append('edit histories: no history declared a removed element again')

    # (e) naming stress and (f) optional-port reuse
    jobs = [('naming', l, f) for l, f in naming_designs()] + [('reuse', l, f) for l, f in reuse_designs()]
    for kind, label, f in shard_slice(jobs, shard):
        dut_text('%s: %s' % (kind, label), f, dict(workload=kind, label=label))
    # (g) system blocks as their own root
    for label, f in shard_slice(system_designs(), shard):
        if time.time() > deadline:
            break
        hw = py4hw.HWSystem()
        try:
            with muted():
                obj = f(hw)
                text = py4hw.VerilogGenerator(obj).getVerilogForHierarchy()
        except Exception as e:
            run.count('refused')
            run.extra.setdefault('refused_examples', [])
            if len(run.extra['refused_examples']) < 8:
                run.extra['refused_examples'].append(('system %s: %r' % (label, e))[:200])
            continue
        judge_text(run, text, 'system: ' + label, dict(workload='system', label=label))
        check_interchangeable(run, obj, 'system: ' + label, dict(workload='system', label=label))
    # (a) unit wrappers three ways + (b) as generation root
    jobs = []
    for e in catalog.ENTRIES:
        cfgs = e.configs(tier)
        rnd = rng(seed, 'c03-unit', e.name)
        lim = 6 if quick else 60
        if len(cfgs) > lim:
            cfgs = rnd.sample(cfgs, lim)
        for cfg in cfgs:
            for mode in ('direct', 'nested', 'twice', 'root'):
                jobs.append((e, cfg, mode))
    for e in catalog.ENTRIES:
        cfgs = e.configs(tier)
        if len(cfgs) < 2:
            continue
        rnd = rng(seed, 'c03-pair', e.name)
        # configurations that differ in exactly one width/option are the likeliest module-name collisions
        groups = {}
        for c in cfgs:
            if not isinstance(c, tuple):
                continue
            for k in range(len(c)):
                groups.setdefault((k, c[:k] + c[k + 1:]), []).append(c)
        near = [g for g in groups.values() if len(g) >= 2]
        rnd.shuffle(near)
        for g in near[:(24 if quick else 300)]:
            c1, c2 = rnd.sample(g, 2)
            jobs.append((e, (c1, c2), 'pair'))
        for k in range(4 if quick else 40):
            c1, c2 = rnd.sample(cfgs, 2)
            jobs.append((e, (c1, c2), 'pair'))
    for e, cfg, mode in shard_slice(jobs, shard):
        if time.time() > deadline or run.too_many:
            break
        case = dict(workload='unit', block=e.name, cfg=cfg, mode=mode)
        try:
            if mode == 'pair':
                des = c01.pair_design(e, cfg[0], cfg[1])
                text = cosim.generate(des)
                root = des.dut
            elif mode == 'root':
                hw = py4hw.HWSystem()
                with muted():
                    e.build(hw, cfg, hw.wire)
                    obj = hw.children['d']
                    text = py4hw.VerilogGenerator(obj).getVerilogForHierarchy()
                root = obj
            else:
                des = c01.unit_design(e, cfg, mode)
                text = cosim.generate(des)
                root = des.dut
        except Exception as ex:
            run.count('refused')
            continue
        judge_text(run, text, '%s%r/%s' % (e.name, cfg, mode), case)
        check_interchangeable(run, root, '%s%r/%s' % (e.name, cfg, mode), case)
    # (c) sequential units
    try:
        from . import seqcat
        jobs = []
        for e in seqcat.ENTRIES:
            cfgs = e.configs(tier)
            rnd = rng(seed, 'c03-seq', e.name)
            if quick and len(cfgs) > 5:
                cfgs = rnd.sample(cfgs, 5)
            jobs += [(e, c) for c in cfgs]
        for e, cfg in shard_slice(jobs, shard):
            if time.time() > deadline or run.too_many:
                break
            try:
                des = c01.seq_design(e, cfg)
                text = cosim.generate(des)
            except Exception:
                run.count('refused')
                continue
            case = dict(workload='seq-unit', block=e.name, cfg=cfg)
            judge_text(run, text, '%s%r' % (e.name, cfg), case)
            check_interchangeable(run, des.dut, '%s%r' % (e.name, cfg), case)
    except ImportError:
        run.count('seqcat_missing')
    # (d) random compositions
    n = 120 if quick else 25000
    for i in shard_slice(range(n), shard):
        if time.time() > deadline or run.too_many:
            break
        rnd = rng(seed, 'c03-random', i)
        g = dutgen.Gen(rnd, max_width=rnd.choice([8, 16, 32]))
        plan = g.plan(n_nodes=rnd.randint(3, 16 if quick else 40), depth=rnd.randint(0, 3))
        try:
            des = dutgen.instantiate(plan)
            text = cosim.generate(des)
        except Exception:
            run.count('refused')
            continue
        judge_text(run, text, plan['name'], dict(workload='random', plan=plan))
        check_interchangeable(run, des.dut, plan['name'], dict(workload='random', plan=plan))
    # (k) secondary clock domains: sub-blocks with their own ClockDriver on a net of the enclosing block
    n = 240 if quick else 8000
    for i in shard_slice(range(n), shard):
        if time.time() > deadline or run.too_many:
            break
        rnd = rng(seed, 'c03-clockdomains', i)
        g = dutgen.Gen(rnd, max_width=8, clock_domains=True)
        plan = g.plan(n_nodes=rnd.randint(5, 14), depth=rnd.randint(1, 2))
        if not dutgen.has_clock_domains(plan['scope']):
            continue
        try:
            des = dutgen.instantiate(plan)
            with muted():
                text = py4hw.VerilogGenerator(des.dut).getVerilogForHierarchy()
        except Exception:
            run.count('refused')
            continue
        run.count('clock_domain_texts')
        judge_text(run, text, plan['name'] + '/clockdomains', dict(workload='clock_domains', plan=plan))
    # (i) declared external black boxes: named modules handed in through createdStructures are not emitted and may be instantiated
    import py4hw.rtl_generation as rg
    n = 40 if quick else 4000
    for i in shard_slice(range(n), shard):
        if time.time() > deadline or run.too_many:
            break
        rnd = rng(seed, 'c03-blackbox', i)
        g = dutgen.Gen(rnd, max_width=rnd.choice([8, 16]))
        plan = g.plan(n_nodes=rnd.randint(4, 12), depth=rnd.randint(0, 2))
        try:
            des = dutgen.instantiate(plan)
            named = set()

            def walk(o):
                for c in o.children.values():
                    if hasattr(c, 'structureName'):
                        named.add(rg.getVerilogModuleName(c))
                    walk(c)
            walk(des.dut)
            if not named:
                continue
            ext = set(rnd.sample(sorted(named), rnd.randint(1, len(named))))
            with muted():
                text = py4hw.VerilogGenerator(des.dut).getVerilogForHierarchy(createdStructures=sorted(ext))
        except Exception:
            run.count('refused')
            continue
        run.count('blackbox_texts')
        d = judge_text(run, text, plan['name'] + '/blackbox', dict(workload='blackbox', plan=plan, external=sorted(ext)), blackboxes=ext)
        for m in ext:
            if m in d.mods:
                run.violation('external_module_emitted', dict(clause='black box'), dict(workload='blackbox', plan=plan, module=m),
                              what='%s: module %s was declared external (createdStructures) but is defined in the text' % (plan['name'], m))
    # (h) histories: the text returned after an earlier request and a structural change must still be a closed design
    n = 60 if quick else 6000
    for i in shard_slice(range(n), shard):
        if time.time() > deadline or run.too_many:
            break
        rnd = rng(seed, 'c03-history', i)
        g = dutgen.Gen(rnd, max_width=rnd.choice([8, 16]))
        plan = g.plan(n_nodes=rnd.randint(3, 10), depth=rnd.randint(0, 2))
        try:
            des = dutgen.instantiate(plan)
            dut = des.dut
            with muted():
                gen = py4hw.VerilogGenerator(dut)
                first = rnd.choice(['module', 'hier'])
                if first == 'module':
                    gen.getVerilog(dut)
                else:
                    gen.getVerilogForHierarchy()
                # expose an internal net as a new output port and/or add a block on a new local wire
                local = [w for n_, w in dut._wires.items()]
                change = rnd.choice(['expose', 'add', 'both']) if local else 'add'
                if change in ('expose', 'both') and local:
                    w = rnd.choice(local)
                    dut.addOut('dbg_' + w.name, w)
                if change in ('add', 'both'):
                    src = des.ins[0] if des.ins else des.outs[0]
                    t = dut.wire('late_t', src.getWidth())
                    o = des.hw.wire('late_o', src.getWidth())
                    py4hw.Not(dut, 'late_n', src, t)
                    py4hw.Buf(dut, 'late_b', t, o)
                    dut.addOut('late_o', o)
                g2 = gen if rnd.random() < 0.5 else py4hw.VerilogGenerator(dut)
                single = rnd.random() < 0.5
                text = g2.getVerilog(dut) if single else g2.getVerilogForHierarchy()
        except Exception:
            run.count('refused')
            continue
        run.count('history_texts')
        judge_text(run, text, plan['name'] + '/history', dict(workload='history', plan=plan, first=first, change=change, single=single), single_module=single)
    # (j) projects: two top blocks written one after the other with one shared createdStructures list (the way a multi-file project is
    # written); the texts together are the design, so every module used by either is defined exactly once across both
    n = 40 if quick else 4000
    for i in shard_slice(range(n), shard):
        if time.time() > deadline or run.too_many:
            break
        rnd = rng(seed, 'c03-project', i)
        try:
            parts, shared, plans = [], [], []
            keep = []
            for k in range(2):
                g = dutgen.Gen(rnd, max_width=8)
                plan = g.plan(n_nodes=rnd.randint(3, 9), depth=rnd.randint(0, 2))
                des = dutgen.instantiate(plan)
                keep.append(des)
                plans.append(plan)
                with muted():
                    gen = py4hw.VerilogGenerator(des.dut)
                    parts.append(gen.getVerilogForHierarchy(forceName='Top%d' % k, createdStructures=shared))
        except Exception:
            run.count('refused')
            continue
        run.count('project_texts')
        d = judge_text(run, '\n'.join(parts), 'project-%d' % i, dict(workload='project', plans=plans))
        if sum(1 for m in d.mods if m.startswith('Top')) != 2:
            run.count('project_top_missing')
    # texts handed over by the transpiler corpus (C02) when that module exists
    try:
        from . import c02
        for label, text in c02.corpus_texts(run):
            judge_text(run, text, 'transpiled: ' + label, dict(workload='transpiled', label=label))
        # ... and of generated behavioural programs (the main grammar of C02: every construct in it is accepted on the unchanged tree)
        from .common import run_dir
        n = 150 if quick else 6000
        with run_dir() as d_:
            for i in shard_slice(range(n), shard):
                if time.time() > deadline or run.too_many:
                    break
                rnd = rng(seed, 'c03-transpiled', i)
                g = c02.PGen(rnd, 'clock' if rnd.random() < 0.7 else 'propagate', 'main')
                name = 'T%d_%d' % (os.getpid(), i)
                try:
                    prog = g.build(name)
                    C = c02.load_class(prog.source(), name, d_)
                    hw = py4hw.HWSystem()
                    with muted():
                        ins = [hw.wire(n_, w) for n_, w in prog.ins]
                        outs = [hw.wire(n_, w) for n_, w in prog.outs]
                        obj = C(hw, 'g', *ins, *outs, *[v for _, v in prog.consts])
                        text = py4hw.VerilogGenerator(obj).getVerilogForHierarchy()
                except BaseException:
                    run.count('refused')
                    continue
                run.count('transpiled_program_texts')
                # a generated program need not drive every output it declares (the Python block does not either): not the emitter's doing
                judge_text(run, text, 'transpiled program %d' % i, dict(workload='transpiled_program', index=i, source=prog.source()[:3000]),
                           ignore=('undriven_net',))
    except (ImportError, AttributeError):
        run.count('c02_corpus_missing')
    if time.time() > deadline:
        run.inconclusive.append('watchdog reached before the workload finished')


def replay(run, case):
    c = case['case']
    d = vlog.check_design(c['text'])
    print('stored text re-checked:', d.diags[:5])
    print('(re-run ./check C03 to regenerate the text from the current tree)')
    return 1 if d.diags else 0
