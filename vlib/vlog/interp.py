"""2-state cycle interpreter for elaborated designs (DESIGN.md Appendix A).

Interp(design, top) builds the instance tree.  API:
    it.set_input(name, value); it.settle(); it.posedge(); it.get(name)   (top-level port names)
    it.step(inputs: dict)  = set inputs, settle, posedge, settle
    it.peek(path) for hierarchical nets ('i_x.w_y')
    it.x_events  counts evaluations that would produce x in 4-state Verilog (divide by zero, out-of-range
                 select, unsized literal wider than 32 bits, 'bZ literal, uninitialised ... ) -- callers treat the
                 affected comparison as indeterminate, never as a violation
    it.domain_exits  (only with track=True) number of sub-expression evaluations whose IEEE-sized value differs
                 from the unbounded-integer value or is negative (C02's domain filter)
"""
from . import parser as P
from .elab import const_eval


class Indeterminate(Exception):
    """The design cannot be interpreted by this engine (multi-clock, comb loop, construct outside the subset)."""


def _mask(w):
    return (1 << w) - 1


class Scope:
    __slots__ = ('mi', 'path', 'vals', 'mems', 'children', 'params', 'parent')

    def __init__(self, mi, path, parent):
        self.mi = mi
        self.path = path
        self.vals = {}
        self.mems = {}
        self.children = {}
        self.params = {}
        self.parent = parent


class Proc:
    __slots__ = ('kind', 'scope', 'node', 'lhs_scope', 'reads', 'writes', 'name')


class Interp:
    MAX_SETTLE = 64

    def __init__(self, design, top, track=False, blackbox_ok=False, big_literal='x'):
        self.design = design
        # unsized decimal literals >= 2**31: 'x' = indeterminate (counted as an x event), 'extend' = sized to hold the value (what
        # simulators and synthesis tools do), 'wrap32' = the minimum the standard guarantees (32 bits)
        self.big_literal = big_literal
        self.track = track
        self.x_events = 0
        self.x_kinds = {}
        self.domain_exits = 0
        self.uninitialised_reads = 0
        if top not in design.mods:
            raise Indeterminate('top module %s not defined' % top)
        self.cont = []       # continuous processes: ('assign', scope, lhs, rhs, lhs_scope) ; ('comb', scope, always)
        self.seq = []        # (scope, always)
        self.implicit_nets = []
        self.inits = []
        self._tcache = {}
        self.top = self._build(design.mods[top], '', None, {})
        self.clock_names = self._find_clocks()
        self._order_cont()
        self._power_up()

    # ------------------------------------------------------------------ construction
    def _note_x(self, kind):
        self.x_events += 1
        self.x_kinds[kind] = self.x_kinds.get(kind, 0) + 1

    def _build(self, mi, path, parent, param_over):
        sc = Scope(mi, path, parent)
        for pn, default in mi.params.items():
            if pn in param_over:
                sc.params[pn] = param_over[pn]
            elif default is not None:
                v = const_eval(default, sc.params)
                if v is None:
                    raise Indeterminate('parameter %s of %s is not constant' % (pn, mi.name))
                sc.params[pn] = v
            else:
                raise Indeterminate('parameter %s of %s has no value' % (pn, mi.name))
        # IEEE 1364 6.10: an undeclared identifier used as a plain port connection is an implicit scalar net of the enclosing module
        # (C03 still reports it as undeclared; here it only has to behave the way a simulator makes it behave)
        from .elab import Sym
        for inst in mi.instances:
            for pn, e in inst.conns:
                if isinstance(e, P.Id) and e.name not in mi.syms and e.name not in mi.params:
                    mi.syms[e.name] = Sym(e.name, 'wire', 1)
                    self.implicit_nets.append('%s.%s' % (mi.name, e.name))
        for n, s in mi.syms.items():
            if s.kind in ('wire', 'reg', 'integer'):
                if s.arr is not None:
                    sc.mems[n] = [0] * (s.arr[1] + 1)
                else:
                    sc.vals[n] = 0
        for a in mi.assigns:
            self.cont.append(('assign', sc, a.lhs, a.rhs, sc))
        for al in mi.always:
            if al.sens == '*':
                self.cont.append(('comb', sc, al, None, sc))
            else:
                edges = [e for e, _ in al.sens]
                if any(e is None for e in edges):
                    # explicit level-sensitive list: treat as combinational
                    self.cont.append(('comb', sc, al, None, sc))
                elif len(al.sens) == 1 and edges[0] == 'posedge' and isinstance(al.sens[0][1], P.Id):
                    self.seq.append((sc, al, al.sens[0][1].name))
                else:
                    raise Indeterminate('sensitivity list outside the subset in %s (negedge / several edges)' % mi.name)
        for ini in mi.initials:
            self.inits.append((sc, ini))
        for inst in mi.instances:
            target = self.design.mods.get(inst.module)
            if target is None:
                raise Indeterminate('instance of undefined / black-box module %s' % inst.module)
            over = {}
            names = list(target.params.keys())
            for k, (pn, pv) in enumerate(inst.params):
                v = const_eval(pv, sc.params)
                if v is None:
                    raise Indeterminate('non-constant parameter override')
                over[pn if pn is not None else names[k]] = v
            child = self._build(target, (path + '.' if path else '') + inst.name, sc, over)
            sc.children[inst.name] = child
            for pn, e in inst.conns:
                ps = target.syms.get(pn)
                if ps is None or ps.dir is None or e is None:
                    continue
                if ps.dir == 'input':
                    self.cont.append(('assign', sc, P.Id(pn), e, child))
                elif ps.dir == 'output':
                    self.cont.append(('assign', child, e, P.Id(pn), sc))
                else:
                    raise Indeterminate('inout port')
        return sc

    def _net_driven(self, mi, n):
        """Is net n of module mi driven by anything inside mi (assign, procedural write, output of an instance)?"""
        for a in mi.assigns:
            t = []
            self._lv_names(a.lhs, t)
            if n in t:
                return True
        for al in mi.always:
            r, w = set(), []
            self._stmt_rw(al.body, r, w)
            if n in w:
                return True
        for inst in mi.instances:
            target = self.design.mods.get(inst.module)
            for pn, e in inst.conns:
                if e is None:
                    continue
                ps = target.syms.get(pn) if target is not None else None
                if ps is not None and ps.dir == 'input':
                    continue
                t = []
                self.design._ids(e, t)
                if n in t:
                    return True
        return False

    def _find_clocks(self):
        """Every posedge block must be clocked by a signal that is the top-level clock input passed down by name.
        A clock that ends in a net nothing drives (an implicit net, or an input port the parent leaves unconnected) is a determinate
        outcome, not an indeterminate one: that block never sees an edge (self.dead_seq)."""
        top_clocks = set()
        self.dead_seq = set()
        self.dead_clocks = []
        for k, (sc, al, cname) in enumerate(self.seq):
            s = sc
            n = cname
            dead = False
            while True:
                sym = s.mi.syms.get(n)
                if sym is None or sym.dir != 'input':
                    if (sym is None or sym.kind == 'wire') and not self._net_driven(s.mi, n):
                        dead = True
                        break
                    if s.parent is None:
                        raise Indeterminate('clock %s is not a top-level input (derived clock)' % n)
                    raise Indeterminate('clock %s of %s is not an input port (derived clock)' % (n, s.path))
                if s.parent is None:
                    break
                # find the binding of input port n in the parent
                inst = s.parent.mi.syms[s.path.split('.')[-1]].decl
                bound = None
                connected = False
                for pn, e in inst.conns:
                    if pn == n:
                        bound = e
                        connected = True
                if not connected or bound is None:
                    dead = True          # unconnected input port: z, never an edge
                    break
                if not isinstance(bound, P.Id):
                    raise Indeterminate('clock of %s is not a plain net of the parent' % s.path)
                n = bound.name
                s = s.parent
            if dead:
                self.dead_seq.add(k)
                self.dead_clocks.append('%s.%s' % (s.path or s.mi.name, n))
                continue
            top_clocks.add(n)
        if len(top_clocks) > 1:
            raise Indeterminate('more than one clock: %s' % sorted(top_clocks))
        return top_clocks

    def _rw(self, proc):
        kind, sc, a, b, lsc = proc
        reads, writes = set(), set()

        def ids(e, scope, out):
            tmp = []
            self.design._ids(e, tmp)
            for n in tmp:
                out.add((id(scope), n))
        if kind == 'assign':
            ids(b, sc, reads)
            # index expressions of the lhs are reads in the lhs scope
            if isinstance(a, P.Id):
                writes.add((id(lsc), a.name))
            else:
                t = []
                self._lv_names(a, t)
                for n in t:
                    writes.add((id(lsc), n))
        else:
            r, w = set(), []
            self._stmt_rw(a.body, r, w)
            for n in r:
                reads.add((id(sc), n))
            for n in w:
                writes.add((id(sc), n))
        return reads, writes

    def _lv_names(self, lv, out):
        if isinstance(lv, P.Id):
            out.append(lv.name)
        elif isinstance(lv, (P.Index, P.Part)):
            self._lv_names(lv.base, out)
        elif isinstance(lv, P.Concat):
            for p in lv.parts:
                self._lv_names(p, out)

    def _stmt_rw(self, st, r, w):
        if isinstance(st, P.Block):
            for s in st.stmts:
                self._stmt_rw(s, r, w)
        elif isinstance(st, P.If):
            tmp = []
            self.design._ids(st.cond, tmp)
            r.update(tmp)
            self._stmt_rw(st.then, r, w)
            if st.els is not None:
                self._stmt_rw(st.els, r, w)
        elif isinstance(st, P.Case):
            tmp = []
            self.design._ids(st.expr, tmp)
            for exprs, s in st.items:
                for e in exprs:
                    self.design._ids(e, tmp)
                self._stmt_rw(s, r, w)
            r.update(tmp)
            if st.default is not None:
                self._stmt_rw(st.default, r, w)
        elif isinstance(st, P.PAssign):
            tmp = []
            self.design._ids(st.rhs, tmp)
            r.update(tmp)
            self._lv_names(st.lhs, w)

    def _order_cont(self):
        """Topological order of the continuous processes (Kahn); leftovers (cycles) keep list order."""
        n = len(self.cont)
        rw = [self._rw(p) for p in self.cont]
        writers = {}
        for i, (r, w) in enumerate(rw):
            for x in w:
                writers.setdefault(x, []).append(i)
        succ = [set() for _ in range(n)]
        indeg = [0] * n
        for i, (r, w) in enumerate(rw):
            for x in r:
                for j in writers.get(x, ()):
                    if j != i and i not in succ[j]:
                        succ[j].add(i)
                        indeg[i] += 1
        order = []
        ready = [i for i in range(n) if indeg[i] == 0]
        while ready:
            i = ready.pop()
            order.append(i)
            for j in succ[i]:
                indeg[j] -= 1
                if indeg[j] == 0:
                    ready.append(j)
        self.comb_cycle = len(order) < n
        left = [i for i in range(n) if indeg[i] > 0]
        self.cont = [self.cont[i] for i in order + left]

    def _power_up(self):
        def walk(sc):
            for n, e in sc.mi.reg_inits:
                s = sc.mi.syms[n]
                sc.vals[n] = self.eval_assign(sc, e, s.width)
            for c in sc.children.values():
                walk(c)
        walk(self.top)
        for sc, ini in self.inits:
            nb = []
            self.exec_stmt(sc, ini.body, nb)
            self._apply_nb(nb)
        self.settle()

    # ------------------------------------------------------------------ typing
    def typeof(self, sc, e):
        key = (id(e), id(sc.mi))
        t = self._tcache.get(key)
        if t is None:
            t = self._typeof(sc, e)
            self._tcache[key] = t
        return t

    def _typeof(self, sc, e):
        mi = sc.mi
        if isinstance(e, P.Num):
            if e.width is None:
                if self.big_literal == 'extend' and e.val >= (1 << 31):
                    return (e.val.bit_length() + 1, e.signed)
                return (32, e.signed)
            return (e.width, e.signed)
        if isinstance(e, P.Id):
            s = mi.syms.get(e.name)
            if s is None:
                raise Indeterminate('undeclared identifier %s in %s' % (e.name, mi.name))
            if s.kind == 'param':
                return (32, True)
            return (s.width, s.signed)
        if isinstance(e, P.Index):
            if isinstance(e.base, P.Id):
                s = mi.syms.get(e.base.name)
                if s is not None and s.arr is not None:
                    return (s.width, False)
            return (1, False)
        if isinstance(e, P.Part):
            a = const_eval(e.msb, sc.params)
            b = const_eval(e.lsb, sc.params)
            if a is None or b is None:
                raise Indeterminate('non-constant part select')
            return (abs(a - b) + 1, False)
        if isinstance(e, P.Concat):
            return (sum(self.typeof(sc, p)[0] for p in e.parts), False)
        if isinstance(e, P.Repl):
            n = const_eval(e.count, sc.params)
            if n is None or n < 0:
                raise Indeterminate('non-constant replication count')
            return (n * self.typeof(sc, e.inner)[0], False)
        if isinstance(e, P.Unary):
            if e.op in ('!', '&', '|', '^', '~&', '~|', '~^', '^~'):
                return (1, False)
            return self.typeof(sc, e.e)
        if isinstance(e, P.Binary):
            if e.op in ('==', '!=', '===', '!==', '<', '<=', '>', '>=', '&&', '||'):
                return (1, False)
            if e.op in ('<<', '>>', '<<<', '>>>', '**'):
                return self.typeof(sc, e.l)
            a = self.typeof(sc, e.l)
            b = self.typeof(sc, e.r)
            return (max(a[0], b[0]), a[1] and b[1])
        if isinstance(e, P.Ternary):
            a = self.typeof(sc, e.a)
            b = self.typeof(sc, e.b)
            return (max(a[0], b[0]), a[1] and b[1])
        if isinstance(e, P.SysCall):
            w = self.typeof(sc, e.args[0])[0]
            return (w, e.name == '$signed')
        raise Indeterminate('expression kind %s' % type(e).__name__)

    # ------------------------------------------------------------------ evaluation
    def eval_assign(self, sc, rhs, lhs_width, lhs=None):
        w, s = self.typeof(sc, rhs)
        W = max(w, lhs_width)
        v = self.ev(sc, rhs, W, s)
        if self.track and isinstance(lhs, P.Id):
            sym = sc.mi.syms.get(lhs.name)
            if sym is not None and sym.kind == 'integer' and (v & _mask(lhs_width)) != v:
                self.domain_exits += 1      # a local / state variable is given a value that does not fit its 32 bits
        return v & _mask(lhs_width)

    def eval_self(self, sc, e):
        w, s = self.typeof(sc, e)
        return self.ev(sc, e, w, s), w, s

    def _ext(self, v, w, W, signed):
        """value v of width w -> width W under propagated type `signed`."""
        if W <= w:
            return v & _mask(W)
        if signed and w > 0 and (v >> (w - 1)) & 1:
            return (v | (_mask(W) & ~_mask(w))) & _mask(W)
        return v

    def _chk(self, sized, exact, W):
        """C02 domain filter bookkeeping: sized value vs unbounded value."""
        if self.track and exact is not None:
            if exact < 0 or exact != sized:
                self.domain_exits += 1

    def ev(self, sc, e, W, S):
        """Evaluate e in a context of width W and propagated signedness S. Returns the W-bit value."""
        t = type(e)
        if t is P.Num:
            if e.xz:
                self._note_x('xz_literal')
            w = e.width
            if w is None:
                w = 32
                v = e.val & _mask(32)
                if e.val >= (1 << 31):
                    # an unsized decimal is a *signed* value of "at least 32 bits": a literal that does not fit a signed
                    # 32-bit integer is sized and signed differently by different tools (indeterminate on its own; a caller
                    # may run the two extreme readings side by side and judge what both agree on)
                    if self.big_literal == 'extend':
                        w = e.val.bit_length() + 1
                        v = e.val
                    elif self.big_literal != 'wrap32':
                        self._note_x('unsized_literal_over_31_bits')
            else:
                v = e.val
            return self._ext(v, w, W, S)
        if t is P.Id:
            s = sc.mi.syms.get(e.name)
            if s is None:
                raise Indeterminate('undeclared identifier %s' % e.name)
            if s.kind == 'param':
                return self._ext(sc.params[e.name] & _mask(32), 32, W, S)
            if s.arr is not None:
                raise Indeterminate('memory %s used without index' % e.name)
            v = sc.vals[e.name]
            if self.track and s.kind == 'integer' and v >= (1 << 31):
                self.domain_exits += 1
            return self._ext(v, s.width, W, S)
        if t is P.Index:
            return self._ext(self._index(sc, e), self.typeof(sc, e)[0], W, False)
        if t is P.Part:
            base = e.base
            if not isinstance(base, P.Id):
                raise Indeterminate('part select of an expression')
            s = sc.mi.syms.get(base.name)
            a = const_eval(e.msb, sc.params)
            b = const_eval(e.lsb, sc.params)
            hi, lo = max(a, b) - s.lsb, min(a, b) - s.lsb
            if lo < 0 or hi >= s.width:
                self._note_x('part_select_out_of_range')
            v = (sc.vals[base.name] >> max(lo, 0)) & _mask(hi - lo + 1)
            return self._ext(v, hi - lo + 1, W, False)
        if t is P.Concat:
            v = 0
            tot = 0
            for p in e.parts:
                pv, pw, _ = self.eval_self(sc, p)
                v = (v << pw) | pv
                tot += pw
            return self._ext(v, tot, W, False)
        if t is P.Repl:
            n = const_eval(e.count, sc.params)
            pv, pw, _ = self.eval_self(sc, e.inner)
            v = 0
            for _ in range(n):
                v = (v << pw) | pv
            return self._ext(v, n * pw, W, False)
        if t is P.Unary:
            op = e.op
            if op in ('-', '+', '~'):
                a = self.ev(sc, e.e, W, S)
                if op == '-':
                    r = (-a) & _mask(W)
                    if self.track:
                        self.domain_exits += 1 if a != 0 else 0   # a negative intermediate value
                elif op == '~':
                    r = (~a) & _mask(W)
                    if self.track:
                        self.domain_exits += 1                     # Python ~x is negative: outside the domain
                else:
                    r = a
                return r
            a, w, _ = self.eval_self(sc, e.e)
            if op == '!':
                r = int(a == 0)
            elif op == '&':
                r = int(a == _mask(w))
            elif op == '|':
                r = int(a != 0)
            elif op == '^':
                r = bin(a).count('1') & 1
            elif op == '~&':
                r = int(a != _mask(w))
            elif op == '~|':
                r = int(a == 0)
            else:
                r = (bin(a).count('1') & 1) ^ 1
            return r
        if t is P.Binary:
            op = e.op
            if op in ('+', '-', '*', '&', '|', '^', '~^', '^~', '/', '%'):
                a = self.ev(sc, e.l, W, S)
                b = self.ev(sc, e.r, W, S)
                if op == '+':
                    x = a + b
                elif op == '-':
                    x = a - b
                elif op == '*':
                    x = a * b
                elif op == '&':
                    x = a & b
                elif op == '|':
                    x = a | b
                elif op == '^':
                    x = a ^ b
                elif op in ('~^', '^~'):
                    x = ~(a ^ b)
                else:
                    if b == 0:
                        self._note_x('division_by_zero')
                        return 0
                    if S:
                        sa = a - (1 << W) if (a >> (W - 1)) & 1 else a
                        sb = b - (1 << W) if (b >> (W - 1)) & 1 else b
                        q = abs(sa) // abs(sb)
                        if (sa < 0) != (sb < 0):
                            q = -q
                        x = q if op == '/' else sa - sb * q
                    else:
                        x = a // b if op == '/' else a % b
                r = x & _mask(W)
                if self.track and (x < 0 or x != r or (S and (r >> (W - 1)) & 1)):
                    # negative, truncated, or (in a signed context) a value Verilog reads as negative
                    self.domain_exits += 1
                return r
            if op in ('<<', '>>', '<<<', '>>>'):
                a = self.ev(sc, e.l, W, S)
                n, _, _ = self.eval_self(sc, e.r)
                if op in ('<<', '<<<'):
                    x = a << n if n < 4096 else 0
                    r = x & _mask(W)
                    if self.track and (x != r or (S and (r >> (W - 1)) & 1)):
                        self.domain_exits += 1
                    return r
                if op == '>>>' and S and W > 0 and (a >> (W - 1)) & 1:
                    sa = a - (1 << W)
                    return (sa >> n) & _mask(W) if n < 4096 else _mask(W)
                return a >> n if n < 4096 else 0
            if op in ('==', '!=', '===', '!==', '<', '<=', '>', '>='):
                tl = self.typeof(sc, e.l)
                tr = self.typeof(sc, e.r)
                w = max(tl[0], tr[0])
                s = tl[1] and tr[1]
                a = self.ev(sc, e.l, w, s)
                b = self.ev(sc, e.r, w, s)
                if s:
                    a = a - (1 << w) if (a >> (w - 1)) & 1 else a
                    b = b - (1 << w) if (b >> (w - 1)) & 1 else b
                if op in ('==', '==='):
                    return int(a == b)
                if op in ('!=', '!=='):
                    return int(a != b)
                if op == '<':
                    return int(a < b)
                if op == '<=':
                    return int(a <= b)
                if op == '>':
                    return int(a > b)
                return int(a >= b)
            if op in ('&&', '||'):
                a, _, _ = self.eval_self(sc, e.l)
                b, _, _ = self.eval_self(sc, e.r)
                if self.track and (a > 1 or b > 1):
                    # Python's and/or return an operand, Verilog's return a truth value: only equal on {0,1}
                    self.boolop_nonbool = getattr(self, 'boolop_nonbool', 0) + 1
                return int(bool(a) and bool(b)) if op == '&&' else int(bool(a) or bool(b))
            raise Indeterminate('operator %s' % op)
        if t is P.Ternary:
            c, _, _ = self.eval_self(sc, e.c)
            return self.ev(sc, e.a if c != 0 else e.b, W, S)
        if t is P.SysCall:
            a, w, _ = self.eval_self(sc, e.args[0])
            return self._ext(a, w, W, S)
        raise Indeterminate('expression kind %s' % t.__name__)

    def _index(self, sc, e):
        base = e.base
        if not isinstance(base, P.Id):
            raise Indeterminate('select of an expression')
        s = sc.mi.syms.get(base.name)
        if s is None:
            raise Indeterminate('undeclared identifier %s' % base.name)
        i, _, _ = self.eval_self(sc, e.idx)
        if s.arr is not None:
            if not (s.arr[0] <= i <= s.arr[1]):
                self._note_x('memory_index_out_of_range')
                return 0
            return sc.mems[base.name][i]
        if s.kind == 'param':
            return (sc.params[base.name] >> i) & 1
        i -= s.lsb
        if i < 0 or i >= s.width:
            self._note_x('bit_select_out_of_range')
            return 0
        return (sc.vals[base.name] >> i) & 1

    # ------------------------------------------------------------------ assignment
    def lv_width(self, sc, lv):
        return self.typeof(sc, lv)[0]

    def store(self, sc, lv, v, idx=None):
        """Immediate store; returns True if something changed. idx: pre-evaluated index (non-blocking updates)."""
        t = type(lv)
        if t is P.Id:
            s = sc.mi.syms.get(lv.name)
            if s is None:
                raise Indeterminate('undeclared identifier %s' % lv.name)
            if self.track and s.kind == 'integer' and v >= (1 << 31):
                self.domain_exits += 1      # a local / state variable is given a value outside the 32-bit signed domain
            v &= _mask(s.width)
            if sc.vals.get(lv.name) != v:
                sc.vals[lv.name] = v
                return True
            return False
        if t is P.Index:
            s = sc.mi.syms.get(lv.base.name)
            if idx is not None:
                i = idx
            else:
                i, _, _ = self.eval_self(sc, lv.idx)
            if s.arr is not None:
                if not (s.arr[0] <= i <= s.arr[1]):
                    self._note_x('memory_write_out_of_range')
                    return False
                v &= _mask(s.width)
                if sc.mems[s.name][i] != v:
                    sc.mems[s.name][i] = v
                    return True
                return False
            i -= s.lsb
            if i < 0 or i >= s.width:
                self._note_x('bit_write_out_of_range')
                return False
            old = sc.vals[s.name]
            new = (old & ~(1 << i)) | ((v & 1) << i)
            sc.vals[s.name] = new
            return new != old
        if t is P.Part:
            s = sc.mi.syms.get(lv.base.name)
            a = const_eval(lv.msb, sc.params)
            b = const_eval(lv.lsb, sc.params)
            hi, lo = max(a, b) - s.lsb, min(a, b) - s.lsb
            if lo < 0 or hi >= s.width:
                self._note_x('part_write_out_of_range')
                hi = min(hi, s.width - 1)
                lo = max(lo, 0)
            m = _mask(hi - lo + 1) << lo
            old = sc.vals[s.name]
            new = (old & ~m) | ((v << lo) & m)
            sc.vals[s.name] = new
            return new != old
        if t is P.Concat:
            ch = False
            widths = [self.lv_width(sc, p) for p in lv.parts]
            pos = sum(widths)
            for p, w in zip(lv.parts, widths):
                pos -= w
                ch = self.store(sc, p, (v >> pos) & _mask(w)) or ch
            return ch
        raise Indeterminate('lvalue kind %s' % t.__name__)

    def exec_stmt(self, sc, st, nb):
        t = type(st)
        if t is P.Block:
            for s in st.stmts:
                self.exec_stmt(sc, s, nb)
        elif t is P.If:
            c, _, _ = self.eval_self(sc, st.cond)
            if c != 0:
                self.exec_stmt(sc, st.then, nb)
            elif st.els is not None:
                self.exec_stmt(sc, st.els, nb)
        elif t is P.Case:
            tw = self.typeof(sc, st.expr)
            for exprs, body in st.items:
                hit = False
                for e in exprs:
                    te = self.typeof(sc, e)
                    w = max(tw[0], te[0])
                    s = tw[1] and te[1]
                    if self.ev(sc, st.expr, w, s) == self.ev(sc, e, w, s):
                        hit = True
                        break
                if hit:
                    self.exec_stmt(sc, body, nb)
                    return
            if st.default is not None:
                self.exec_stmt(sc, st.default, nb)
        elif t is P.PAssign:
            lw = self.lv_width(sc, st.lhs)
            v = self.eval_assign(sc, st.rhs, lw, st.lhs)
            if st.blocking:
                self.store(sc, st.lhs, v)
            else:
                # the lhs index is evaluated now, the update happens with the others
                idx = None
                if isinstance(st.lhs, P.Index):
                    idx, _, _ = self.eval_self(sc, st.lhs.idx)
                nb.append((sc, st.lhs, v, idx))
        elif t is P.Null:
            pass
        else:
            raise Indeterminate('statement kind %s' % t.__name__)

    def _apply_nb(self, nb):
        ch = False
        for sc, lv, v, idx in nb:
            ch = self.store(sc, lv, v, idx) or ch
        return ch

    # ------------------------------------------------------------------ time
    def settle(self):
        for it in range(self.MAX_SETTLE):
            changed = False
            for kind, sc, a, b, lsc in self.cont:
                if kind == 'assign':
                    lw = self.typeof(lsc, a)[0]
                    v = self.eval_assign(sc, b, lw)
                    if self.store(lsc, a, v):
                        changed = True
                else:
                    nb = []
                    self.exec_stmt(sc, a.body, nb)
                    # several non-blocking assignments to one target in a combinational block: only the net effect counts
                    before = {}
                    for s2, lv, v, idx in nb:
                        names = []
                        self._lv_names(lv, names)
                        for n in names:
                            k = (id(s2), n)
                            if k not in before:
                                before[k] = (s2, n, list(s2.mems[n]) if n in s2.mems else s2.vals.get(n))
                    self._apply_nb(nb)
                    for s2, n, old in before.values():
                        now = s2.mems[n] if n in s2.mems else s2.vals.get(n)
                        if now != old:
                            changed = True
                            break
            if not changed:
                return it + 1
            if not self.comb_cycle and it >= 1:
                # an acyclic ordered network is stable after the first full pass; the second pass proved it
                pass
        raise Indeterminate('combinational network did not settle in %d passes' % self.MAX_SETTLE)

    def posedge(self):
        nb = []
        for k, (sc, al, cname) in enumerate(self.seq):
            if k in self.dead_seq:
                continue
            self.exec_stmt(sc, al.body, nb)
        self._apply_nb(nb)
        self.settle()

    def set_input(self, name, value):
        s = self.top.mi.syms.get(name)
        if s is None or s.dir != 'input':
            raise KeyError(name)
        self.top.vals[name] = value & _mask(s.width)

    def get(self, name):
        return self.top.vals[name]

    def step(self, inputs):
        for k, v in inputs.items():
            self.set_input(k, v)
        self.settle()
        self.posedge()

    def peek(self, path):
        sc = self.top
        parts = path.split('.')
        for p in parts[:-1]:
            sc = sc.children[p]
        return sc.vals[parts[-1]]

    def scopes(self):
        out = []

        def walk(sc):
            out.append(sc)
            for c in sc.children.values():
                walk(c)
        walk(self.top)
        return out
