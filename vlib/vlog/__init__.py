"""E4: Verilog-subset front end (lexer, parser, elaborator/well-formedness checker, 2-state cycle interpreter).

Trusted base of C01/C02/C03/C19.  Semantics: DESIGN.md Appendix A.  Anything outside the subset is a
parse error (C03) or `indeterminate` (C01/C02), never a guess.
"""
from .parser import parse, ParseError  # noqa
from .elab import Design, check_design  # noqa
from .interp import Interp, Indeterminate  # noqa
