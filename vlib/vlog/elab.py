"""Resolution / elaboration / well-formedness checks (the C03 clauses) over parsed modules.

check_design(text, blackboxes=()) -> Design with .diags: list of Diag(code, module, detail).
Codes (each one a distinct way in which the emitted text is not a closed, legal design):
  parse:<code>            the text does not parse (syntax / reserved_word / unsupported / lex)
  module_defined_twice    two module definitions with one name
  undefined_module        instance of a module that is neither defined nor a declared black box
  duplicate_declaration   identifier declared twice in one module (ports, nets, regs, integers, params, instances)
  undeclared_identifier   identifier used but not declared in its module
  port_not_found          named connection to a port the definition does not have
  port_connected_twice    one port named twice in an instance
  port_width_mismatch     connected expression width != port width
  output_to_non_net       instance output connected to something that is not a net lvalue
  input_unconnected       definition input left unconnected by an instance
  multiple_drivers        two drivers on (overlapping bits of) one net
  undriven_net            wire / output port that is read or exported but has no driver at all
  wire_assigned_procedurally / reg_driven_continuously / reg_multiple_always / assign_to_input
  param_no_default        parameter declared without a value (not legal in IEEE 1364)
  select_out_of_range     constant bit/part select outside the declared range (leniency: [0] of a scalar)
"""
from . import parser as P
from .lexer import KEYWORDS_1364


class Diag:
    __slots__ = ('code', 'module', 'detail', 'info')

    def __init__(self, code, module, detail, info=None):
        self.code, self.module, self.detail = code, module, detail
        self.info = info or {}

    def __repr__(self):
        return '%s[%s]: %s' % (self.code, self.module, self.detail)

    def as_dict(self):
        return dict(code=self.code, module=self.module, detail=self.detail, info=self.info)


class Sym:
    __slots__ = ('name', 'kind', 'width', 'lsb', 'arr', 'dir', 'decl', 'signed')

    def __init__(self, name, kind, width, lsb=0, arr=None, dir=None, decl=None, signed=False):
        self.name = name
        self.kind = kind      # wire, reg, integer, param, instance
        self.width = width
        self.lsb = lsb
        self.arr = arr        # (lo, hi) for memories
        self.dir = dir        # input/output/inout for ports
        self.decl = decl
        self.signed = signed


class ModInfo:
    def __init__(self, mod):
        self.mod = mod
        self.name = mod.name
        self.syms = {}
        self.ports = []          # names in order
        self.instances = []      # Instance nodes
        self.assigns = []        # Assign nodes (incl. wire initialisers as Assign)
        self.always = []
        self.initials = []
        self.reg_inits = []      # (name, expr)
        self.params = {}         # name -> default expr (or None)


def const_eval(e, params=None):
    """Constant expression for ranges / replication counts / parameter values; None if not constant."""
    if isinstance(e, P.Num):
        return None if e.xz else e.val
    if isinstance(e, P.Id):
        if params and e.name in params and params[e.name] is not None:
            v = params[e.name]
            return v if isinstance(v, int) else const_eval(v, params)
        return None
    if isinstance(e, P.Unary):
        v = const_eval(e.e, params)
        if v is None:
            return None
        return {'-': -v, '+': v, '~': ~v, '!': int(not v)}.get(e.op)
    if isinstance(e, P.Binary):
        a = const_eval(e.l, params)
        b = const_eval(e.r, params)
        if a is None or b is None:
            return None
        try:
            return {'+': a + b, '-': a - b, '*': a * b, '/': None if b == 0 else int(a / b) if (a < 0) != (b < 0) else a // b,
                    '%': None if b == 0 else a % b, '<<': a << b if b >= 0 else None, '>>': a >> b if b >= 0 else None,
                    '&': a & b, '|': a | b, '^': a ^ b}.get(e.op)
        except Exception:
            return None
    return None


class Design:
    def __init__(self, text, blackboxes=()):
        self.text = text
        self.blackboxes = set(blackboxes)
        self.diags = []
        self.mods = {}
        self.order = []
        self.parse_ok = False
        try:
            mods = P.parse(text)
            self.parse_ok = True
        except P.ParseError as e:
            self.diags.append(Diag('parse:' + e.code, '?', str(e)))
            mods = []
        except RecursionError:
            self.diags.append(Diag('parse:too_deep', '?', 'expression nesting exceeds the parser recursion budget'))
            mods = []
        for m in mods:
            if m.name in self.mods:
                self.diags.append(Diag('module_defined_twice', m.name, 'second definition at line %d' % m.line))
                continue
            self.mods[m.name] = self._collect(m)
            self.order.append(m.name)
        for name in self.order:
            self._check_module(self.mods[name])

    def d(self, code, mod, detail, **info):
        self.diags.append(Diag(code, mod, detail, info))

    # ---- declarations
    def _range(self, rng, mi, what):
        if rng is None:
            return 1, 0
        m = const_eval(rng[0], mi.params)
        l = const_eval(rng[1], mi.params)
        if m is None or l is None:
            self.d('non_constant_range', mi.name, what)
            return 1, 0
        return abs(m - l) + 1, min(m, l)

    def _declare(self, mi, sym):
        if sym.name in mi.syms:
            old = mi.syms[sym.name]
            self.d('duplicate_declaration', mi.name, '%s declared as %s and again as %s' % (
                sym.name, old.kind + ('/' + old.dir if old.dir else ''), sym.kind + ('/' + sym.dir if sym.dir else '')),
                name=sym.name, first=old.kind, first_dir=old.dir, second=sym.kind, second_dir=sym.dir)
            return
        mi.syms[sym.name] = sym

    def _collect(self, m):
        mi = ModInfo(m)
        for pname, default in m.params:
            if default is None:
                self.d('param_no_default', m.name, pname)
            mi.params[pname] = default
            self._declare(mi, Sym(pname, 'param', 32, signed=True))
        for p in m.ports:
            w, lsb = self._range(p.rng, mi, 'port ' + p.name)
            kind = 'reg' if p.is_reg else 'wire'
            self._declare(mi, Sym(p.name, kind, w, lsb, dir=p.dir, decl=p))
            mi.ports.append(p.name)
        for it in m.items:
            if isinstance(it, P.Decl):
                if it.kind in ('parameter', 'localparam'):
                    mi.params[it.name] = it.init
                    self._declare(mi, Sym(it.name, 'param', 32, signed=True, decl=it))
                    continue
                if it.kind == 'integer':
                    self._declare(mi, Sym(it.name, 'integer', 32, 0, signed=True, decl=it))
                else:
                    w, lsb = self._range(it.rng, mi, it.kind + ' ' + it.name)
                    arr = None
                    if it.arr is not None:
                        a = const_eval(it.arr[0], mi.params)
                        b = const_eval(it.arr[1], mi.params)
                        if a is None or b is None:
                            self.d('non_constant_range', mi.name, 'memory ' + it.name)
                            a, b = 0, 0
                        arr = (min(a, b), max(a, b))
                    self._declare(mi, Sym(it.name, it.kind, w, lsb, arr=arr, decl=it))
                if it.init is not None:
                    if it.kind == 'wire':
                        mi.assigns.append(P.Assign(P.Id(it.name), it.init, it.line))
                    else:
                        mi.reg_inits.append((it.name, it.init))
            elif isinstance(it, P.Assign):
                mi.assigns.append(it)
            elif isinstance(it, P.Instance):
                self._declare(mi, Sym(it.name, 'instance', 0, decl=it))
                mi.instances.append(it)
            elif isinstance(it, P.Always):
                mi.always.append(it)
            elif isinstance(it, P.Initial):
                mi.initials.append(it)
        return mi

    # ---- expression walking
    def _ids(self, e, out):
        if e is None:
            return
        if isinstance(e, P.Id):
            out.append(e.name)
        elif isinstance(e, P.Index):
            self._ids(e.base, out); self._ids(e.idx, out)
        elif isinstance(e, P.Part):
            self._ids(e.base, out); self._ids(e.msb, out); self._ids(e.lsb, out)
        elif isinstance(e, P.Concat):
            for p in e.parts:
                self._ids(p, out)
        elif isinstance(e, P.Repl):
            self._ids(e.count, out); self._ids(e.inner, out)
        elif isinstance(e, P.Unary):
            self._ids(e.e, out)
        elif isinstance(e, P.Binary):
            self._ids(e.l, out); self._ids(e.r, out)
        elif isinstance(e, P.Ternary):
            self._ids(e.c, out); self._ids(e.a, out); self._ids(e.b, out)
        elif isinstance(e, P.SysCall):
            for a in e.args:
                self._ids(a, out)

    def _use(self, mi, e, reads):
        ids = []
        self._ids(e, ids)
        for n in ids:
            s = mi.syms.get(n)
            if s is None:
                self.d('undeclared_identifier', mi.name, n)
            elif s.kind == 'instance':
                self.d('undeclared_identifier', mi.name, '%s is an instance, used as a net' % n)
            else:
                reads.add(n)
        self._check_selects(mi, e)

    def _check_selects(self, mi, e):
        if isinstance(e, (P.Index, P.Part)) and isinstance(e.base, P.Id):
            s = mi.syms.get(e.base.name)
            if s is not None and s.kind in ('wire', 'reg') and s.arr is None:
                if isinstance(e, P.Index):
                    i = const_eval(e.idx, mi.params)
                    if i is not None and not (s.lsb <= i < s.lsb + s.width):
                        self.d('select_out_of_range', mi.name, '%s[%d] on %d-bit net' % (s.name, i, s.width))
                else:
                    a = const_eval(e.msb, mi.params)
                    b = const_eval(e.lsb, mi.params)
                    if a is not None and b is not None and not (s.lsb <= min(a, b) and max(a, b) < s.lsb + s.width):
                        self.d('select_out_of_range', mi.name, '%s[%d:%d] on %d-bit net' % (s.name, a, b, s.width))
        if isinstance(e, P.Repl):
            n = const_eval(e.count, mi.params)
            if n is None:
                self.d('non_constant_replication', mi.name, repr(e.count))
            elif n < 0:
                self.d('negative_replication', mi.name, 'replication count %d' % n)
        for k in getattr(e, '__slots__', ()):
            v = getattr(e, k)
            if isinstance(v, P.Node):
                self._check_selects(mi, v)
            elif isinstance(v, list):
                for x in v:
                    if isinstance(x, P.Node):
                        self._check_selects(mi, x)

    def expr_width(self, mi, e):
        """Self-determined width (None when unknown, e.g. undeclared identifier)."""
        if isinstance(e, P.Num):
            return e.width if e.width is not None else 32
        if isinstance(e, P.Id):
            s = mi.syms.get(e.name)
            if s is None or s.kind == 'instance':
                return None
            return s.width
        if isinstance(e, P.Index):
            if isinstance(e.base, P.Id):
                s = mi.syms.get(e.base.name)
                if s is not None and s.arr is not None:
                    return s.width
            return 1
        if isinstance(e, P.Part):
            a = const_eval(e.msb, mi.params)
            b = const_eval(e.lsb, mi.params)
            if a is None or b is None:
                return None
            return abs(a - b) + 1
        if isinstance(e, P.Concat):
            tot = 0
            for p in e.parts:
                w = self.expr_width(mi, p)
                if w is None:
                    return None
                tot += w
            return tot
        if isinstance(e, P.Repl):
            n = const_eval(e.count, mi.params)
            w = self.expr_width(mi, e.inner)
            if n is None or w is None:
                return None
            return n * w
        if isinstance(e, P.Unary):
            if e.op in ('!', '&', '|', '^', '~&', '~|', '~^', '^~'):
                return 1
            return self.expr_width(mi, e.e)
        if isinstance(e, P.Binary):
            if e.op in ('==', '!=', '===', '!==', '<', '<=', '>', '>=', '&&', '||'):
                return 1
            if e.op in ('<<', '>>', '<<<', '>>>', '**'):
                return self.expr_width(mi, e.l)
            a = self.expr_width(mi, e.l)
            b = self.expr_width(mi, e.r)
            if a is None or b is None:
                return None
            return max(a, b)
        if isinstance(e, P.Ternary):
            a = self.expr_width(mi, e.a)
            b = self.expr_width(mi, e.b)
            if a is None or b is None:
                return None
            return max(a, b)
        if isinstance(e, P.SysCall):
            return self.expr_width(mi, e.args[0])
        return None

    def design_lv_names(self, lv, out):
        if isinstance(lv, P.Id):
            out.append(lv.name)
        elif isinstance(lv, (P.Index, P.Part)):
            self.design_lv_names(lv.base, out)

    # ---- lvalues -> (name, lo, hi) bit ranges
    def _lv_targets(self, mi, lv, out):
        if isinstance(lv, P.Id):
            s = mi.syms.get(lv.name)
            if s is None:
                self.d('undeclared_identifier', mi.name, lv.name)
                return
            if s.kind in ('param', 'instance'):
                self.d('assign_to_non_net', mi.name, lv.name)
                return
            out.append((lv.name, 0, s.width - 1, False))
        elif isinstance(lv, P.Index):
            if not isinstance(lv.base, P.Id):
                self.d('unsupported_lvalue', mi.name, repr(lv))
                return
            s = mi.syms.get(lv.base.name)
            if s is None:
                self.d('undeclared_identifier', mi.name, lv.base.name)
                return
            reads = set()
            self._use(mi, lv.idx, reads)
            if s.arr is not None:
                out.append((s.name, 0, s.width - 1, True))
                return
            i = const_eval(lv.idx, mi.params)
            if i is None:
                out.append((s.name, 0, s.width - 1, True))
            else:
                if not (s.lsb <= i < s.lsb + s.width):
                    self.d('select_out_of_range', mi.name, '%s[%d] on %d-bit net' % (s.name, i, s.width))
                out.append((s.name, i - s.lsb, i - s.lsb, False))
        elif isinstance(lv, P.Part):
            if not isinstance(lv.base, P.Id):
                self.d('unsupported_lvalue', mi.name, repr(lv))
                return
            s = mi.syms.get(lv.base.name)
            if s is None:
                self.d('undeclared_identifier', mi.name, lv.base.name)
                return
            a = const_eval(lv.msb, mi.params)
            b = const_eval(lv.lsb, mi.params)
            if a is None or b is None:
                self.d('non_constant_range', mi.name, 'part select of ' + s.name)
                return
            if not (s.lsb <= min(a, b) and max(a, b) < s.lsb + s.width):
                self.d('select_out_of_range', mi.name, '%s[%d:%d] on %d-bit net' % (s.name, a, b, s.width))
            out.append((s.name, min(a, b) - s.lsb, max(a, b) - s.lsb, False))
        elif isinstance(lv, P.Concat):
            for p in lv.parts:
                self._lv_targets(mi, p, out)
        else:
            self.d('unsupported_lvalue', mi.name, repr(lv))

    def _stmt(self, mi, st, reads, writes):
        if isinstance(st, P.Block):
            for s in st.stmts:
                self._stmt(mi, s, reads, writes)
        elif isinstance(st, P.If):
            self._use(mi, st.cond, reads)
            self._stmt(mi, st.then, reads, writes)
            if st.els is not None:
                self._stmt(mi, st.els, reads, writes)
        elif isinstance(st, P.Case):
            self._use(mi, st.expr, reads)
            for exprs, s in st.items:
                for e in exprs:
                    self._use(mi, e, reads)
                self._stmt(mi, s, reads, writes)
            if st.default is not None:
                self._stmt(mi, st.default, reads, writes)
        elif isinstance(st, P.PAssign):
            self._use(mi, st.rhs, reads)
            t = []
            self._lv_targets(mi, st.lhs, t)
            for x in t:
                writes.append(x)

    # ---- per-module checks
    def _check_module(self, mi):
        name = mi.name
        reads = set()
        drivers = {}     # net -> list of (lo, hi, kind, who)

        maybe_driven = set()

        def drive(net, lo, hi, kind, who):
            drivers.setdefault(net, []).append((lo, hi, kind, who))

        for pn in mi.ports:
            s = mi.syms[pn]
            if s.dir == 'input' and s.decl is not None and s.name == pn:
                drive(pn, 0, s.width - 1, 'input', 'port')
        for a in mi.assigns:
            self._use(mi, a.rhs, reads)
            t = []
            self._lv_targets(mi, a.lhs, t)
            for (n, lo, hi, dyn) in t:
                s = mi.syms.get(n)
                if s is None:
                    continue
                if s.kind in ('reg', 'integer'):
                    self.d('reg_driven_continuously', name, n)
                if s.dir == 'input':
                    self.d('assign_to_input', name, n)
                    continue
                drive(n, lo, hi, 'assign', 'assign@%d' % a.line)
        for n, e in mi.reg_inits:
            self._use(mi, e, reads)
        for k, al in enumerate(mi.always):
            if al.sens != '*':
                for edge, e in al.sens:
                    self._use(mi, e, reads)
            w = []
            self._stmt(mi, al.body, reads, w)
            seen = set()
            for (n, lo, hi, dyn) in w:
                s = mi.syms.get(n)
                if s is None:
                    continue
                if s.kind == 'wire':
                    if n not in seen:
                        self.d('wire_assigned_procedurally', name, n)
                elif n not in seen:
                    drive(n, 0, s.width - 1, 'always', 'always#%d' % k)
                seen.add(n)
        for ini in mi.initials:
            w = []
            self._stmt(mi, ini.body, reads, w)
            for (n, lo, hi, dyn) in w:
                s = mi.syms.get(n)
                if s is not None and s.kind == 'wire':
                    self.d('wire_assigned_procedurally', name, n)
        for inst in mi.instances:
            target = self.mods.get(inst.module)
            if target is None and inst.module in [m for m in self.order]:
                target = self.mods[inst.module]
            seenp = set()
            for pn, e in inst.conns:
                if pn in seenp:
                    self.d('port_connected_twice', name, '%s.%s' % (inst.name, pn), inst=inst.name, port=pn, target=inst.module)
                seenp.add(pn)
            if target is None:
                if inst.module not in self.blackboxes:
                    self.d('undefined_module', name, '%s (instance %s)' % (inst.module, inst.name))
                for pn, e in inst.conns:
                    if e is not None:
                        self._use(mi, e, reads)
                        # direction unknown: the net may be driven by the unknown module
                        tmp = []
                        if isinstance(e, (P.Id, P.Index, P.Part)):
                            self.design_lv_names(e, tmp)
                        maybe_driven.update(tmp)
                continue
            # parameters
            for pn, pv in inst.params:
                if pn is not None and pn not in target.params:
                    self.d('param_not_found', name, '%s.%s' % (inst.name, pn))
                self._use(mi, pv, reads)
            for pn, e in inst.conns:
                ps = target.syms.get(pn)
                if ps is None or ps.dir is None:
                    self.d('port_not_found', name, 'instance %s of %s has no port %s' % (inst.name, inst.module, pn), inst=inst.name, target=inst.module, port=pn)
                    if e is not None:
                        self._use(mi, e, reads)
                    continue
                if e is None:
                    if ps.dir == 'input':
                        self.d('input_unconnected', name, '%s.%s' % (inst.name, pn))
                    continue
                w = self.expr_width(mi, e)
                if w is not None and w != ps.width:
                    self.d('port_width_mismatch', name, '%s.%s is %d bits, connected expression is %d bits' % (inst.name, pn, ps.width, w),
                           inst=inst.name, port=pn, target=inst.module)
                if ps.dir == 'input':
                    self._use(mi, e, reads)
                else:
                    t = []
                    if isinstance(e, (P.Id, P.Index, P.Part, P.Concat)):
                        self._lv_targets(mi, e, t)
                    else:
                        self.d('output_to_non_net', name, '%s.%s' % (inst.name, pn))
                    for (n, lo, hi, dyn) in t:
                        s = mi.syms.get(n)
                        if s is None:
                            continue
                        if s.kind in ('reg', 'integer'):
                            self.d('reg_driven_continuously', name, n)
                        if s.dir == 'input':
                            self.d('assign_to_input', name, n)
                            continue
                        drive(n, lo, hi, 'instance' if ps.dir == 'output' else 'inout', '%s.%s' % (inst.name, pn))
                    if ps.dir == 'inout':
                        self._use(mi, e, reads)
            for pn in target.ports:
                if target.syms[pn].dir == 'input' and pn not in seenp:
                    self.d('input_unconnected', name, '%s.%s' % (inst.name, pn))
        # driver table judgement
        for n, s in mi.syms.items():
            if s.kind not in ('wire', 'reg', 'integer'):
                continue
            dl = drivers.get(n, [])
            if s.dir == 'inout':
                continue
            if s.kind == 'reg' or s.kind == 'integer':
                blocks = set(who for (_, _, kind, who) in dl if kind == 'always')
                # a memory written from two always blocks is the usual true-dual-port RAM template: not judged
                if len(blocks) > 1 and s.arr is None:
                    self.d('reg_multiple_always', name, '%s assigned in %s' % (n, sorted(blocks)))
                if s.dir == 'output' and not dl and s.kind == 'reg' and not any(x == n for x, _ in mi.reg_inits):
                    self.d('undriven_net', name, 'output reg %s is never assigned' % n, net=n, dir=s.dir)
                continue
            # wires: overlapping drivers
            for i in range(len(dl)):
                for j in range(i + 1, len(dl)):
                    a, b = dl[i], dl[j]
                    if a[0] <= b[1] and b[0] <= a[1] and not (a[2] == 'inout' and b[2] == 'inout'):
                        self.d('multiple_drivers', name, '%s driven by %s and %s' % (n, a[3], b[3]))
            if not dl and n not in maybe_driven:
                if s.dir == 'output' or n in reads:
                    self.d('undriven_net', name, '%s%s has no driver' % ('output ' if s.dir == 'output' else '', n), net=n, dir=s.dir)


def check_design(text, blackboxes=()):
    return Design(text, blackboxes)
