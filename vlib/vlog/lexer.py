import re

KEYWORDS_1364 = set('''always and assign automatic begin buf bufif0 bufif1 case casex casez cell cmos config deassign default
defparam design disable edge else end endcase endconfig endfunction endgenerate endmodule endprimitive endspecify endtable
endtask event for force forever fork function generate genvar highz0 highz1 if ifnone incdir include initial inout input
instance integer join large liblist library localparam macromodule medium module nand negedge nmos nor noshowcancelled not
notif0 notif1 or output parameter pmos posedge primitive pull0 pull1 pulldown pullup pulsestyle_onevent pulsestyle_ondetect
rcmos real realtime reg release repeat rnmos rpmos rtran rtranif0 rtranif1 scalared showcancelled signed small specify
specparam strong0 strong1 supply0 supply1 table task time tran tranif0 tranif1 tri tri0 tri1 triand trior trireg unsigned
use uwire vectored wait wand weak0 weak1 while wire wor xnor xor'''.split())


class LexError(Exception):
    pass


class Tok:
    __slots__ = ('kind', 'val', 'line')

    def __init__(self, kind, val, line):
        self.kind = kind   # id, kw, num, op, str, sys, eof
        self.val = val
        self.line = line

    def __repr__(self):
        return '%s(%r)@%d' % (self.kind, self.val, self.line)


_OPS = ['<<<', '>>>', '===', '!==', '<<', '>>', '<=', '>=', '==', '!=', '&&', '||', '~&', '~|', '~^', '^~', '**',
        '+', '-', '*', '/', '%', '&', '|', '^', '~', '!', '<', '>', '?', ':', '(', ')', '[', ']', '{', '}', ',', ';', '.', '@', '#', '=']
_TOKEN_RE = re.compile(r'''
    (?P<ws>\s+)
  | (?P<lc>//[^\n]*)
  | (?P<bc>/\*.*?\*/)
  | (?P<num>(?:\d[\d_]*)?\s*'[sS]?[bBoOdDhH]\s*[0-9a-fA-FxXzZ?_]+ | \d[\d_]*(?:\.\d+)?)
  | (?P<id>[A-Za-z_][A-Za-z0-9_$]*)
  | (?P<esc>\\[^\s]+)
  | (?P<sys>\$[A-Za-z_][A-Za-z0-9_$]*)
  | (?P<str>"(?:[^"\\]|\\.)*")
  | (?P<op>%s)
''' % '|'.join(re.escape(o) for o in _OPS), re.X | re.S)


def lex(text):
    toks = []
    pos = 0
    line = 1
    n = len(text)
    while pos < n:
        m = _TOKEN_RE.match(text, pos)
        if not m:
            raise LexError('line %d: unexpected character %r' % (line, text[pos]))
        kind = m.lastgroup
        val = m.group(kind)
        if kind in ('ws', 'lc', 'bc'):
            pass
        elif kind == 'id':
            toks.append(Tok('kw' if val in KEYWORDS_1364 else 'id', val, line))
        elif kind == 'esc':
            toks.append(Tok('id', val[1:], line))
        else:
            toks.append(Tok(kind, val, line))
        line += val.count('\n')
        pos = m.end()
    toks.append(Tok('eof', None, line))
    return toks
