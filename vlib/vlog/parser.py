"""Recursive-descent parser for the Verilog subset py4hw can emit (DESIGN.md E4)."""
from .lexer import lex, LexError, KEYWORDS_1364


class ParseError(Exception):
    def __init__(self, msg, code='syntax', line=None):
        super().__init__(msg)
        self.code = code
        self.line = line


# ------------------------------------------------------------------ AST

class Node:
    __slots__ = ()

    def __repr__(self):
        return '%s(%s)' % (type(self).__name__, ', '.join('%s=%r' % (k, getattr(self, k)) for k in self.__slots__ if not k.startswith('_')))


class Module(Node):
    __slots__ = ('name', 'params', 'ports', 'items', 'line')

    def __init__(self, name, params, ports, items, line):
        self.name, self.params, self.ports, self.items, self.line = name, params, ports, items, line


class Port(Node):
    __slots__ = ('dir', 'is_reg', 'rng', 'name')

    def __init__(self, dir, is_reg, rng, name):
        self.dir, self.is_reg, self.rng, self.name = dir, is_reg, rng, name


class Decl(Node):
    __slots__ = ('kind', 'rng', 'name', 'arr', 'init', 'line')   # kind: wire/reg/integer/parameter/localparam

    def __init__(self, kind, rng, name, arr, init, line):
        self.kind, self.rng, self.name, self.arr, self.init, self.line = kind, rng, name, arr, init, line


class Assign(Node):
    __slots__ = ('lhs', 'rhs', 'line')

    def __init__(self, lhs, rhs, line):
        self.lhs, self.rhs, self.line = lhs, rhs, line


class Instance(Node):
    __slots__ = ('module', 'params', 'name', 'conns', 'line')

    def __init__(self, module, params, name, conns, line):
        self.module, self.params, self.name, self.conns, self.line = module, params, name, conns, line


class Always(Node):
    __slots__ = ('sens', 'body', 'line')   # sens: '*' or list of (edge, expr)

    def __init__(self, sens, body, line):
        self.sens, self.body, self.line = sens, body, line


class Initial(Node):
    __slots__ = ('body', 'line')

    def __init__(self, body, line):
        self.body, self.line = body, line


class Block(Node):
    __slots__ = ('stmts',)

    def __init__(self, stmts):
        self.stmts = stmts


class If(Node):
    __slots__ = ('cond', 'then', 'els')

    def __init__(self, cond, then, els):
        self.cond, self.then, self.els = cond, then, els


class Case(Node):
    __slots__ = ('expr', 'items', 'default')   # items: list of ([exprs], stmt)

    def __init__(self, expr, items, default):
        self.expr, self.items, self.default = expr, items, default


class PAssign(Node):
    __slots__ = ('lhs', 'rhs', 'blocking', 'line')

    def __init__(self, lhs, rhs, blocking, line):
        self.lhs, self.rhs, self.blocking, self.line = lhs, rhs, blocking, line


class Null(Node):
    __slots__ = ()


class Num(Node):
    __slots__ = ('val', 'width', 'signed', 'xz', 'text')

    def __init__(self, val, width, signed, xz, text):
        self.val, self.width, self.signed, self.xz, self.text = val, width, signed, xz, text


class Id(Node):
    __slots__ = ('name',)

    def __init__(self, name):
        self.name = name


class Index(Node):
    __slots__ = ('base', 'idx')

    def __init__(self, base, idx):
        self.base, self.idx = base, idx


class Part(Node):
    __slots__ = ('base', 'msb', 'lsb')

    def __init__(self, base, msb, lsb):
        self.base, self.msb, self.lsb = base, msb, lsb


class Concat(Node):
    __slots__ = ('parts',)

    def __init__(self, parts):
        self.parts = parts


class Repl(Node):
    __slots__ = ('count', 'inner')

    def __init__(self, count, inner):
        self.count, self.inner = count, inner


class Unary(Node):
    __slots__ = ('op', 'e')

    def __init__(self, op, e):
        self.op, self.e = op, e


class Binary(Node):
    __slots__ = ('op', 'l', 'r')

    def __init__(self, op, l, r):
        self.op, self.l, self.r = op, l, r


class Ternary(Node):
    __slots__ = ('c', 'a', 'b')

    def __init__(self, c, a, b):
        self.c, self.a, self.b = c, a, b


class SysCall(Node):
    __slots__ = ('name', 'args')

    def __init__(self, name, args):
        self.name, self.args = name, args


# ------------------------------------------------------------------ parser

_BINPREC = [
    ['||'], ['&&'], ['|', '~|'], ['^', '~^', '^~'], ['&', '~&'], ['==', '!=', '===', '!=='],
    ['<', '<=', '>', '>='], ['<<', '>>', '<<<', '>>>'], ['+', '-'], ['*', '/', '%'], ['**'],
]


def parse_number(text):
    t = text.replace('_', '').replace(' ', '').replace('\t', '').replace('\n', '')
    if "'" not in t:
        if '.' in t:
            raise ParseError('real literal %s not in the subset' % text, 'unsupported')
        return Num(int(t), None, True, False, text)
    size, rest = t.split("'", 1)
    signed = False
    if rest[0] in 'sS':
        signed = True
        rest = rest[1:]
    base = rest[0].lower()
    digits = rest[1:].lower()
    width = int(size) if size else None
    xz = any(c in digits for c in 'xz?')
    if xz:
        val = 0
    else:
        val = int(digits, {'b': 2, 'o': 8, 'd': 10, 'h': 16}[base])
    if width is not None:
        val &= (1 << width) - 1
    return Num(val, width if width is not None else None, signed, xz, text)


class Parser:
    def __init__(self, text):
        try:
            self.toks = lex(text)
        except LexError as e:
            raise ParseError(str(e), 'lex')
        self.i = 0

    # -- token helpers
    @property
    def t(self):
        return self.toks[self.i]

    def peek(self, k=1):
        return self.toks[min(self.i + k, len(self.toks) - 1)]

    def at(self, val, kind=None):
        t = self.t
        if t.val != val:
            return False
        if kind is None:
            return t.kind in ('op', 'kw')
        return t.kind == kind

    def accept(self, val):
        if self.at(val):
            self.i += 1
            return True
        return False

    def expect(self, val):
        if not self.accept(val):
            self.err('expected %r, found %r' % (val, self.t.val))

    def err(self, msg, code='syntax'):
        raise ParseError('line %d: %s' % (self.t.line, msg), code, self.t.line)

    def ident(self, what='identifier'):
        t = self.t
        if t.kind == 'id':
            self.i += 1
            return t.val
        if t.kind == 'kw':
            self.err('reserved word %r used as %s' % (t.val, what), 'reserved_word')
        self.err('expected %s, found %r' % (what, t.val))

    # -- top
    def parse_source(self):
        mods = []
        while self.t.kind != 'eof':
            self.skip_attrs()
            if self.at('module') or self.at('macromodule'):
                mods.append(self.parse_module())
            else:
                self.err('expected module, found %r' % (self.t.val,))
        return mods

    def skip_attrs(self):
        # (* attr = "v", ... *)
        while self.at('(') and self.peek().val == '*' and self.peek(2).val != ')':
            self.i += 2
            depth = 0
            while True:
                if self.t.kind == 'eof':
                    self.err('unterminated attribute instance')
                if self.at('*') and self.peek().val == ')':
                    self.i += 2
                    break
                self.i += 1

    def parse_range(self):
        self.expect('[')
        msb = self.parse_expr()
        self.expect(':')
        lsb = self.parse_expr()
        self.expect(']')
        return (msb, lsb)

    def parse_module(self):
        line = self.t.line
        self.i += 1
        name = self.ident('module name')
        params = []
        if self.accept('#'):
            self.expect('(')
            while True:
                self.accept('parameter')
                if self.at('['):
                    self.parse_range()
                pname = self.ident('parameter name')
                default = None
                if self.accept('='):
                    default = self.parse_expr()
                params.append((pname, default))
                if not self.accept(','):
                    break
            self.expect(')')
        ports = []
        nonansi = []
        if self.accept('('):
            if not self.at(')'):
                last_dir = None
                last_reg = False
                last_rng = None
                while True:
                    self.skip_attrs()
                    if self.t.kind == 'kw' and self.t.val in ('input', 'output', 'inout'):
                        last_dir = self.t.val
                        self.i += 1
                        last_reg = False
                        last_rng = None
                        if self.accept('wire'):
                            pass
                        elif self.accept('reg'):
                            last_reg = True
                        if self.accept('signed'):
                            self.err('signed ports are not in the subset', 'unsupported')
                        if self.at('['):
                            last_rng = self.parse_range()
                        pname = self.ident('port name')
                        ports.append(Port(last_dir, last_reg, last_rng, pname))
                    else:
                        pname = self.ident('port name')
                        if last_dir is None:
                            nonansi.append(pname)
                        else:
                            ports.append(Port(last_dir, last_reg, last_rng, pname))
                    if not self.accept(','):
                        break
            self.expect(')')
        self.expect(';')
        if nonansi:
            self.err('non-ANSI port lists are not in the subset', 'unsupported')
        items = []
        while not self.at('endmodule'):
            if self.t.kind == 'eof':
                self.err('missing endmodule')
            items.extend(self.parse_item())
        self.expect('endmodule')
        return Module(name, params, ports, items, line)

    def parse_item(self):
        self.skip_attrs()
        t = self.t
        line = t.line
        if t.kind == 'kw':
            if t.val in ('wire', 'reg', 'integer'):
                return self.parse_decl()
            if t.val in ('parameter', 'localparam'):
                self.i += 1
                if self.at('['):
                    self.parse_range()
                out = []
                while True:
                    n = self.ident('parameter name')
                    self.expect('=')
                    e = self.parse_expr()
                    out.append(Decl(t.val, None, n, None, e, line))
                    if not self.accept(','):
                        break
                self.expect(';')
                return out
            if t.val == 'assign':
                self.i += 1
                out = []
                while True:
                    lhs = self.parse_lvalue()
                    self.expect('=')
                    rhs = self.parse_expr()
                    out.append(Assign(lhs, rhs, line))
                    if not self.accept(','):
                        break
                self.expect(';')
                return out
            if t.val == 'always':
                self.i += 1
                self.expect('@')
                sens = self.parse_sens()
                body = self.parse_stmt()
                return [Always(sens, body, line)]
            if t.val == 'initial':
                self.i += 1
                return [Initial(self.parse_stmt(), line)]
            if t.val in ('input', 'output', 'inout'):
                self.err('non-ANSI port declarations are not in the subset', 'unsupported')
            self.err('unexpected keyword %r at module item level' % t.val)
        if t.kind == 'id':
            return [self.parse_instance()]
        self.err('unexpected token %r at module item level' % (t.val,))

    def parse_decl(self):
        line = self.t.line
        kind = self.t.val
        self.i += 1
        if self.accept('signed'):
            self.err('signed declarations are not in the subset', 'unsupported')
        rng = None
        if self.at('['):
            rng = self.parse_range()
        out = []
        while True:
            n = self.ident('%s name' % kind)
            arr = None
            if self.at('['):
                arr = self.parse_range()
            init = None
            if self.accept('='):
                init = self.parse_expr()
            out.append(Decl(kind, rng, n, arr, init, line))
            if not self.accept(','):
                break
        self.expect(';')
        return out

    def parse_sens(self):
        if self.accept('*'):
            return '*'
        self.expect('(')
        if self.accept('*'):
            self.expect(')')
            return '*'
        lst = []
        while True:
            edge = None
            if self.accept('posedge'):
                edge = 'posedge'
            elif self.accept('negedge'):
                edge = 'negedge'
            lst.append((edge, self.parse_expr()))
            if self.accept('or') or self.accept(','):
                continue
            break
        self.expect(')')
        return lst

    def parse_instance(self):
        line = self.t.line
        mod = self.ident('module name')
        params = []
        if self.accept('#'):
            self.expect('(')
            if not self.at(')'):
                while True:
                    if self.accept('.'):
                        pn = self.ident('parameter name')
                        self.expect('(')
                        pv = self.parse_expr()
                        self.expect(')')
                        params.append((pn, pv))
                    else:
                        params.append((None, self.parse_expr()))
                    if not self.accept(','):
                        break
            self.expect(')')
        name = self.ident('instance name')
        self.expect('(')
        conns = []
        if not self.at(')'):
            while True:
                if self.accept('.'):
                    pn = self.ident('port name')
                    self.expect('(')
                    e = None
                    if not self.at(')'):
                        e = self.parse_expr()
                    self.expect(')')
                    conns.append((pn, e))
                else:
                    self.err('positional port connections are not in the subset', 'unsupported')
                if not self.accept(','):
                    break
        self.expect(')')
        self.expect(';')
        return Instance(mod, params, name, conns, line)

    # -- statements
    def parse_stmt(self):
        self.skip_attrs()
        t = self.t
        if self.accept(';'):
            return Null()
        if self.accept('begin'):
            if self.accept(':'):
                self.ident('block name')
            stmts = []
            while not self.at('end'):
                if self.t.kind == 'eof':
                    self.err('missing end')
                stmts.append(self.parse_stmt())
            self.expect('end')
            return Block(stmts)
        if self.accept('if'):
            self.expect('(')
            c = self.parse_expr()
            self.expect(')')
            th = self.parse_stmt()
            el = None
            if self.accept('else'):
                el = self.parse_stmt()
            return If(c, th, el)
        if self.at('case') or self.at('casez') or self.at('casex'):
            if not self.at('case'):
                self.err('casez/casex are not in the subset', 'unsupported')
            self.i += 1
            self.expect('(')
            e = self.parse_expr()
            self.expect(')')
            items = []
            default = None
            while not self.at('endcase'):
                if self.t.kind == 'eof':
                    self.err('missing endcase')
                if self.accept('default'):
                    self.accept(':')
                    if default is not None:
                        self.err('two default items in one case')
                    default = self.parse_stmt()
                    continue
                exprs = [self.parse_expr()]
                while self.accept(','):
                    exprs.append(self.parse_expr())
                self.expect(':')
                items.append((exprs, self.parse_stmt()))
            self.expect('endcase')
            return Case(e, items, default)
        if t.kind == 'kw':
            self.err('statement keyword %r is not in the subset' % t.val, 'unsupported' if t.val in ('for', 'while', 'repeat', 'forever', 'wait', 'disable', 'fork') else 'syntax')
        if t.kind == 'sys':
            self.err('system task %s is not in the subset' % t.val, 'unsupported')
        line = t.line
        lhs = self.parse_lvalue()
        if self.accept('='):
            blocking = True
        elif self.accept('<='):
            blocking = False
        else:
            self.err('expected = or <= in procedural assignment, found %r' % (self.t.val,))
        if self.at('#') or self.at('@'):
            self.err('intra-assignment timing controls are not in the subset', 'unsupported')
        rhs = self.parse_expr()
        self.expect(';')
        return PAssign(lhs, rhs, blocking, line)

    def parse_lvalue(self):
        if self.accept('{'):
            parts = [self.parse_lvalue()]
            while self.accept(','):
                parts.append(self.parse_lvalue())
            self.expect('}')
            return Concat(parts)
        e = Id(self.ident())
        while self.at('['):
            self.i += 1
            a = self.parse_expr()
            if self.accept(':'):
                b = self.parse_expr()
                self.expect(']')
                e = Part(e, a, b)
            else:
                self.expect(']')
                e = Index(e, a)
        return e

    # -- expressions
    def parse_expr(self):
        c = self.parse_bin(0)
        if self.accept('?'):
            a = self.parse_expr()
            self.expect(':')
            b = self.parse_expr()
            return Ternary(c, a, b)
        return c

    def parse_bin(self, level):
        if level >= len(_BINPREC):
            return self.parse_unary()
        ops = _BINPREC[level]
        l = self.parse_bin(level + 1)
        while self.t.kind == 'op' and self.t.val in ops:
            op = self.t.val
            self.i += 1
            r = self.parse_bin(level + 1)
            l = Binary(op, l, r)
        return l

    def parse_unary(self):
        t = self.t
        if t.kind == 'op' and t.val in ('+', '-', '~', '!', '&', '|', '^', '~&', '~|', '~^', '^~'):
            self.i += 1
            return Unary(t.val, self.parse_unary())
        return self.parse_primary()

    def parse_primary(self):
        t = self.t
        if t.kind == 'num':
            self.i += 1
            return parse_number(t.val)
        if t.kind == 'str':
            self.err('string literals are not in the subset', 'unsupported')
        if t.kind == 'sys':
            self.i += 1
            args = []
            if self.accept('('):
                if not self.at(')'):
                    args.append(self.parse_expr())
                    while self.accept(','):
                        args.append(self.parse_expr())
                self.expect(')')
            if t.val not in ('$signed', '$unsigned'):
                self.err('system function %s is not in the subset' % t.val, 'unsupported')
            if len(args) != 1:
                self.err('%s takes one argument' % t.val)
            return SysCall(t.val, args)
        if self.accept('('):
            e = self.parse_expr()
            self.expect(')')
            return e
        if self.accept('{'):
            first = self.parse_expr()
            if self.at('{'):
                # replication {n{...}}
                self.i += 1
                parts = [self.parse_expr()]
                while self.accept(','):
                    parts.append(self.parse_expr())
                self.expect('}')
                self.expect('}')
                return Repl(first, Concat(parts))
            parts = [first]
            while self.accept(','):
                parts.append(self.parse_expr())
            self.expect('}')
            return Concat(parts)
        if t.kind == 'id':
            self.i += 1
            e = Id(t.val)
            while self.at('['):
                self.i += 1
                a = self.parse_expr()
                if self.accept(':'):
                    b = self.parse_expr()
                    self.expect(']')
                    e = Part(e, a, b)
                else:
                    self.expect(']')
                    e = Index(e, a)
            if self.at('('):
                self.err('function calls are not in the subset', 'unsupported')
            return e
        if t.kind == 'kw':
            self.err('reserved word %r used in an expression' % t.val, 'reserved_word')
        self.err('unexpected token %r in expression' % (t.val,))


def parse(text):
    """Returns the list of Module nodes; raises ParseError (code: syntax/lex/reserved_word/unsupported)."""
    return Parser(text).parse_source()
