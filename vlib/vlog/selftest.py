"""Hand-computed IEEE 1364-2005 vectors (DESIGN.md Appendix A table). Must pass before C01/C02/C03 are trusted."""
from .elab import check_design
from .interp import Interp


def _mod(body, ports):
    return 'module t(%s);\n%s\nendmodule\n' % (', '.join(ports), body)


def _run(text, inputs, outs, top='t', clocks=0):
    d = check_design(text)
    assert d.parse_ok, d.diags
    it = Interp(d, top)
    for k, v in inputs.items():
        it.set_input(k, v)
    it.settle()
    for _ in range(clocks):
        it.posedge()
    return [it.get(o) for o in outs], it


CASES = []


def case(name):
    def deco(f):
        CASES.append((name, f))
        return f
    return deco


@case('1 add 9-bit')
def _():
    r, _ = _run(_mod('wire [8:0] w = a + b; assign r = w;', ['input [7:0] a', 'input [7:0] b', 'output [8:0] r']), dict(a=0xFF, b=1), ['r'])
    assert r == [0x100], r


@case('2 carry lost in 8-bit context')
def _():
    r, _ = _run(_mod('assign r = (a + b) >> 1;', ['input [7:0] a', 'input [7:0] b', 'output [7:0] r']), dict(a=0xFF, b=0xFF), ['r'])
    assert r == [0x7F], r


@case('3 9-bit context keeps carry')
def _():
    r, _ = _run(_mod('assign r = (a + b) >> 1;', ['input [7:0] a', 'input [7:0] b', 'output [8:0] r']), dict(a=0xFF, b=0xFF), ['r'])
    assert r == [0xFF], r


@case('4 ~ in wider context')
def _():
    r, _ = _run(_mod('assign r = ~a;', ['input [7:0] a', 'output [15:0] r']), dict(a=0x0F), ['r'])
    assert r == [0xFFF0], r


@case('5 (a == -1) on unsigned 8-bit')
def _():
    r, _ = _run(_mod('assign r = (a == -1) ? 1 : 0;', ['input [7:0] a', 'output r']), dict(a=0xFF), ['r'])
    assert r == [0], r


@case('6 signed*signed')
def _():
    r, _ = _run(_mod('assign r = $signed(a) * $signed(b);', ['input [7:0] a', 'input [7:0] b', 'output [15:0] r']), dict(a=0xFF, b=2), ['r'])
    assert r == [0xFFFE], r


@case('7 signed*unsigned is unsigned')
def _():
    r, _ = _run(_mod('assign r = $signed(a) * b;', ['input [7:0] a', 'input [7:0] b', 'output [15:0] r']), dict(a=0xFF, b=2), ['r'])
    assert r == [0x01FE], r


@case('8 constants into part select')
def _():
    r, _ = _run(_mod('assign k[7:0] = 300; assign m[7:0] = -2; assign n[63:0] = -2;', ['output [7:0] k', 'output [7:0] m', 'output [63:0] n']), {}, ['k', 'm', 'n'])
    assert r == [0x2C, 0xFE, (1 << 64) - 2], r


@case('9 sign extension by replication')
def _():
    r, _ = _run(_mod('assign r = { { 8 { a[7] } }, a };', ['input [7:0] a', 'output [15:0] r']), dict(a=0x80), ['r'])
    assert r == [0xFF80], r


@case('10 borrow into 9 bits')
def _():
    r, _ = _run(_mod('assign r = a - b;', ['input [7:0] a', 'input [7:0] b', 'output [8:0] r']), dict(a=0, b=1), ['r'])
    assert r == [0x1FF], r


@case('11 wide select is true when non-zero')
def _():
    r, _ = _run(_mod('assign r = (s) ? a : b;', ['input [1:0] s', 'input [7:0] a', 'input [7:0] b', 'output [7:0] r']), dict(s=2, a=7, b=9), ['r'])
    assert r == [7], r


@case('12 integer arithmetic')
def _():
    t = _mod('''integer x; reg lt; reg [31:0] sr; reg [31:0] sra;
initial begin x = 5; x = x - 7; lt = (x < 0); sr = x >> 1; sra = x >>> 1; end
assign o1 = lt; assign o2 = sr; assign o3 = sra;''', ['output o1', 'output [31:0] o2', 'output [31:0] o3'])
    r, _ = _run(t, {}, ['o1', 'o2', 'o3'])
    assert r == [1, 0x7FFFFFFF, 0xFFFFFFFF], r


@case('13 4-bit wrap')
def _():
    r, _ = _run(_mod('reg [3:0] q = 15; always @(posedge clk) q <= q + 1; assign r = q;', ['input clk', 'output [3:0] r']), {}, ['r'], clocks=1)
    assert r == [0], r


@case('14 non-blocking swap')
def _():
    r, _ = _run(_mod('reg [3:0] a = 1; reg [3:0] b = 2; always @(posedge clk) begin a <= b; b <= a; end assign ra = a; assign rb = b;',
                     ['input clk', 'output [3:0] ra', 'output [3:0] rb']), {}, ['ra', 'rb'], clocks=1)
    assert r == [2, 1], r


@case('15 blocking then non-blocking')
def _():
    r, _ = _run(_mod('integer x; reg [3:0] z = 0; initial x = 0; always @(posedge clk) begin x = y; z <= x; end assign r = z;',
                     ['input clk', 'input [3:0] y', 'output [3:0] r']), dict(y=3), ['r'], clocks=1)
    assert r == [3], r


@case('16 case')
def _():
    t = _mod('reg [3:0] q = 0; always @(posedge clk) begin case (s) 0: q<=1; 1: begin q<=2; end default: q<=3; endcase end assign r = q;',
             ['input clk', 'input [1:0] s', 'output [3:0] r'])
    for s, e in [(0, 1), (1, 2), (2, 3)]:
        r, _ = _run(t, dict(s=s), ['r'], clocks=1)
        assert r == [e], (s, r)


@case('17 memory read-before-write')
def _():
    t = _mod('''reg [7:0] mem [0:3]; reg [7:0] rd;
always @(posedge clk) begin if (we) mem[wa] <= wd; rd <= mem[ra]; end assign r = rd;''',
             ['input clk', 'input we', 'input [1:0] wa', 'input [1:0] ra', 'input [7:0] wd', 'output [7:0] r'])
    d = check_design(t)
    it = Interp(d, 't')
    it.step(dict(we=1, wa=2, ra=2, wd=0x55))
    assert it.get('r') == 0, it.get('r')
    it.step(dict(we=0, wa=0, ra=2, wd=0))
    assert it.get('r') == 0x55


@case('18 division by zero is indeterminate')
def _():
    r, it = _run(_mod('assign r = a / b;', ['input [7:0] a', 'input [7:0] b', 'output [7:0] r']), dict(a=5, b=0), ['r'])
    assert it.x_events > 0
    d = check_design(_mod('assign r = a / b;', ['input [7:0] a', 'input [7:0] b', 'output [7:0] r']))
    it = Interp(d, 't')            # power-up settles with b = 0: counted
    x0 = it.x_events
    it.set_input('a', 7); it.set_input('b', 2); it.settle()
    assert it.get('r') == 3 and it.x_events == x0


@case('19 out-of-range select is indeterminate')
def _():
    d = check_design(_mod('assign r = a[9];', ['input [7:0] a', 'output r']))
    assert any(x.code == 'select_out_of_range' for x in d.diags), d.diags
    it = Interp(d, 't')
    assert it.x_events > 0


@case('20 three distinct C03 diagnostics')
def _():
    d = check_design(_mod('assign r = a; assign r = b;', ['input a', 'input b', 'output r']))
    assert [x.code for x in d.diags] == ['multiple_drivers'], d.diags
    d = check_design(_mod('assign r = a & zz;', ['input a', 'output r']))
    assert [x.code for x in d.diags] == ['undeclared_identifier'], d.diags
    d = check_design(_mod('assign r = a;', ['input a', 'output r']) * 2)
    assert [x.code for x in d.diags] == ['module_defined_twice'], d.diags


@case('21 hierarchy, port binding, width mismatch, undefined module')
def _():
    t = '''module top(input clk, input [3:0] a, output [3:0] q);
wire [3:0] w_n;
assign w_n = ~a;
R4 i_r(.clk(clk),.d(w_n),.q(q));
endmodule
module R4(input clk, input [3:0] d, output [3:0] q);
reg [3:0] rq = 5;
always @(posedge clk)
   rq <= d;
assign q = rq;
endmodule
'''
    d = check_design(t)
    assert not d.diags, d.diags
    it = Interp(d, 'top')
    assert it.get('q') == 5
    it.step(dict(a=3))
    assert it.get('q') == 12
    assert it.clock_names == {'clk'}
    d = check_design(t.replace('.d(w_n)', '.d(a[1:0])'))
    assert [x.code for x in d.diags] == ['port_width_mismatch'], d.diags
    d = check_design(t.replace('R4 i_r', 'R5 i_r'))
    assert [x.code for x in d.diags] == ['undefined_module'], d.diags
    d = check_design(t.replace('R4 i_r', 'R5 i_r'), blackboxes=['R5'])
    assert not d.diags
    d = check_design(t.replace('.q(q)', '.qq(q)'))
    assert sorted(x.code for x in d.diags) == ['port_not_found', 'undriven_net'], d.diags


@case('22 reserved words, bad module names, comments, attributes, else-if, sized literals')
def _():
    d = check_design('module m(input begin, output r); assign r = begin; endmodule')
    assert d.diags and d.diags[0].code == 'parse:reserved_word', d.diags
    d = check_design('module Reg8_v-1(input a, output r); assign r = a; endmodule')
    assert d.diags and d.diags[0].code.startswith('parse:'), d.diags
    t = '''// c
module m(input clk, input [1:0] s, output reg [7:0] r);
(* ramstyle = "no_rw_check" *) reg [7:0] mem [0:1];
reg [0:0] count = 0;
initial begin
   mem[0] =  8'h48; /* x */
   mem[1] =  8'h69;
end
always @(posedge clk) begin
   if (s == 0) begin r <= mem[count]; end else if (s == 1) begin count <= (count + 1) % 2; end
   else r <= 8'hFF;
end
endmodule'''
    d = check_design(t)
    assert not d.diags, d.diags
    it = Interp(d, 'm')
    it.step(dict(s=0)); assert it.get('r') == 0x48
    it.step(dict(s=1)); it.step(dict(s=0)); assert it.get('r') == 0x69
    it.step(dict(s=1)); it.step(dict(s=0)); assert it.get('r') == 0x48
    it.step(dict(s=2)); assert it.get('r') == 0xFF


@case('23 always @(*) with non-blocking, signed compare of integers, %, shifts by wide amounts')
def _():
    t = _mod('''always @(*) begin if (a > b) r <= a - b; else r <= b - a; end
assign m = a % 3; assign sh = a << b; assign big = a >> 200;''',
             ['input [7:0] a', 'input [7:0] b', 'output reg [7:0] r', 'output [7:0] m', 'output [7:0] sh', 'output [7:0] big'])
    r, _ = _run(t, dict(a=3, b=10), ['r', 'm', 'sh', 'big'])
    assert r == [7, 0, 0, 0], r
    r, _ = _run(t, dict(a=200, b=1), ['r', 'm', 'sh', 'big'])
    assert r == [199, 2, 144, 0], r


@case('24 domain tracking')
def _():
    t = _mod('assign r = (a + b) >> 1;', ['input [7:0] a', 'input [7:0] b', 'output [7:0] r'])
    d = check_design(t)
    it = Interp(d, 't', track=True)
    it.domain_exits = 0
    it.set_input('a', 1); it.set_input('b', 2); it.settle()
    assert it.domain_exits == 0
    it.set_input('a', 255); it.set_input('b', 255); it.settle()
    assert it.domain_exits > 0


def run(verbose=False):
    ok = True
    for name, f in CASES:
        try:
            f()
            if verbose:
                print('  ok  ', name)
        except Exception as e:  # noqa
            ok = False
            import traceback
            print('vlog selftest FAILED:', name, '->', repr(e))
            traceback.print_exc()
    print('vlog selftest: %d cases, %s' % (len(CASES), 'all passed' if ok else 'FAILURES'))
    return ok


if __name__ == '__main__':
    import sys
    sys.exit(0 if run(True) else 1)
