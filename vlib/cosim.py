"""Lockstep co-simulation of a py4hw design and the Verilog text generated for it (C01, used by C02/C19 too).

A *design* is built by a builder function  build(hw, mk) -> Design  where the Design names the dut object, its
input wires (undriven wires of the HWSystem that the harness pokes) and its output wires.
"""
import random

from .common import muted
from . import vlog


class Dut:
    """Factory for the harness structural wrapper classes (created lazily: needs py4hw imported)."""
    _classes = {}

    @classmethod
    def cls(cls, name='Dut'):
        import py4hw
        if name not in cls._classes:
            cls._classes[name] = type(name, (py4hw.Logic,), {})
        return cls._classes[name]


class Design:
    def __init__(self, hw, dut, ins, outs, label, meta=None):
        self.hw = hw
        self.dut = dut
        self.ins = ins      # list of wires (top-level inputs, poked)
        self.outs = outs    # list of wires (top-level outputs)
        self.label = label
        self.meta = meta or {}


def wrap_ports(dut, ins, outs):
    for w in ins:
        dut.addIn(w.name, w)
    for w in outs:
        dut.addOut(w.name, w)


def generate(design, root=None):
    import py4hw
    with muted():
        gen = py4hw.VerilogGenerator(design.dut)
        text = gen.getVerilogForHierarchy(root)
    return text


class Refused(Exception):
    pass


class Outcome:
    """Result of one co-simulation."""
    def __init__(self):
        self.status = None          # 'compared' | 'refused' | 'invalid_text' | 'indeterminate'
        self.detail = None
        self.mismatch = None        # dict describing the first mismatch
        self.cycles = 0
        self.compared = 0           # output comparisons performed
        self.x_skipped = 0
        self.text = None
        self.diags = []
        self.toggled = 0            # outputs that took >= 2 distinct values
        self.modules = 0


def port_name(modinfo, name):
    if name in modinfo.syms and modinfo.syms[name].dir is not None:
        return name
    r = 'reserved_' + name
    if r in modinfo.syms and modinfo.syms[r].dir is not None:
        return r
    return None


def cosim(design, vectors, sequential, top_name=None, text=None, stop_on_x=True):
    """vectors: list of dict wire-name -> value (one per cycle / per evaluation).
    sequential: clk(1) after each vector, else propagateAll only."""
    out = Outcome()
    if text is None:
        try:
            text = generate(design)
        except Exception as e:   # the generator refused the design
            out.status = 'refused'
            out.detail = repr(e)[:300]
            return out
    out.text = text
    d = vlog.check_design(text)
    out.diags = d.diags
    out.modules = len(d.mods)
    fatal = [x for x in d.diags if x.code.startswith('parse:') or x.code in (
        'module_defined_twice', 'undefined_module', 'undeclared_identifier', 'port_not_found', 'duplicate_declaration')]
    # an undeclared name used as a plain port connection is an implicit scalar net (IEEE 1364 6.10): C03 reports the missing declaration,
    # but the text still has a defined behaviour and that behaviour is what C01 compares
    implicit = set()
    for mi_ in d.mods.values():
        for inst in mi_.instances:
            for pn, e in inst.conns:
                if isinstance(e, vlog.parser.Id) and e.name not in mi_.syms:
                    implicit.add((mi_.name, e.name))
    fatal = [x for x in fatal if not (x.code == 'undeclared_identifier' and (x.module, x.detail) in implicit)]
    if fatal:
        out.status = 'invalid_text'
        out.detail = repr(fatal[0])
        return out
    out.implicit_nets = sorted(implicit)
    # tri-state logic (z literals, inout ports) is outside the 2-state subset of the interpreter
    import re
    if re.search(r"'[bB][zZ]", text) or any(sy.dir == 'inout' for mi_ in d.mods.values() for sy in mi_.syms.values()):
        out.status = 'indeterminate'
        out.detail = 'tri-state logic (inout port / z literal)'
        return out
    top = top_name or type(design.dut).__name__
    if top not in d.mods:
        out.status = 'invalid_text'
        out.detail = 'top module %s not in emitted text (modules: %s)' % (top, list(d.mods)[:5])
        return out
    # unsized decimal literals that do not fit 32 bits: the standard only promises "at least 32 bits". Two interpreters run side by
    # side, one sizing the literal to hold its value (what tools do) and one keeping 32 bits; only a simulator value that differs
    # from both readings is a mismatch
    import re
    big = any(int(m) >= (1 << 31) for m in re.findall(r"(?<![\w'.])\d{10,}(?![\w'.])", text))
    it2 = None
    try:
        it = vlog.Interp(d, top, big_literal='extend' if big else 'x')
        if big:
            it2 = vlog.Interp(d, top, big_literal='wrap32')
            out.big_literals = True
    except vlog.Indeterminate as e:
        out.status = 'indeterminate'
        out.detail = str(e)
        return out
    out.interp = it
    mi = d.mods[top]
    inmap = {}
    pnames = design.meta.get('port_names', {})
    for w in design.ins:
        pn = port_name(mi, pnames.get(w.name, w.name))
        if pn is None or mi.syms[pn].dir != 'input':
            out.status = 'invalid_text'
            out.detail = 'input port for wire %s missing in module header' % w.name
            return out
        inmap[w.name] = pn
    outmap = {}
    for w in design.outs:
        pn = port_name(mi, pnames.get(w.name, w.name))
        if pn is None or mi.syms[pn].dir != 'output':
            out.status = 'invalid_text'
            out.detail = 'output port for wire %s missing in module header' % w.name
            return out
        outmap[w.name] = pn
    try:
        with muted():
            sim = design.hw.getSimulator()
    except Exception as e:
        out.status = 'sim_error'
        out.detail = repr(e)[:300]
        return out
    seen = {w.name: set() for w in design.outs}

    def compare(when, cyc, vec):
        for w in design.outs:
            a = w.get()
            b = it.get(outmap[w.name])
            seen[w.name].add(a)
            out.compared += 1
            if a != b and (it2 is None or a != it2.get(outmap[w.name])):
                out.mismatch = dict(when=when, cycle=cyc, output=w.name, width=w.getWidth(), simulator=a, verilog=b, inputs=vec)
                return False
        return True

    out.status = 'compared'

    def range_x():
        """an out-of-range select / memory index in the emitted text: 4-state Verilog reads x there while the simulator has a
        defined value -- reported (never seen on the unchanged tree), unlike division by zero which the property excludes"""
        for k in it.x_kinds:
            if 'out_of_range' in k:
                return k
        return None
    x0 = it.x_events
    try:
        # power-up: all inputs 0
        if x0 == 0:
            if not compare('power-up', 0, {}):
                return out
        else:
            out.x_skipped += 1
            if sequential and stop_on_x:
                out.detail = 'x at power-up: %s' % it.x_kinds
                return out
        for cyc, vec in enumerate(vectors):
            for w in design.ins:
                v = vec.get(w.name, 0)
                w.put(v)
                it.set_input(inmap[w.name], v)
                if it2 is not None:
                    it2.set_input(inmap[w.name], v)
            xb = it.x_events
            with muted():
                sim.propagateAll()
            it.settle()
            if it2 is not None:
                it2.settle()
            if it.x_events != xb:
                out.x_skipped += 1
                if range_x():
                    out.mismatch = dict(when='settled', cycle=cyc + 1, output='(x)', width=0, simulator=0, verilog=-1, inputs=vec, x_kind=range_x())
                    return out
                if sequential and stop_on_x:
                    out.detail = 'x source reached: %s' % it.x_kinds
                    return out
                if not sequential:
                    continue
            elif not compare('settled', cyc + 1, vec):
                return out
            if sequential:
                with muted():
                    sim.clk(1)
                it.posedge()
                if it2 is not None:
                    it2.posedge()
                if it.x_events != xb:
                    out.x_skipped += 1
                    if range_x():
                        out.mismatch = dict(when='after-edge', cycle=cyc + 1, output='(x)', width=0, simulator=0, verilog=-1, inputs=vec, x_kind=range_x())
                        return out
                    if stop_on_x:
                        out.detail = 'x source reached: %s' % it.x_kinds
                        return out
                elif not compare('after-edge', cyc + 1, vec):
                    return out
            out.cycles += 1
    except vlog.Indeterminate as e:
        out.status = 'indeterminate'
        out.detail = str(e)
    except Exception as e:   # the py4hw simulator itself raised (judged by C09/C04, not here)
        out.status = 'sim_error'
        out.detail = repr(e)[:300]
    finally:
        out.toggled = sum(1 for s in seen.values() if len(s) >= 2)
        out.x_kinds = dict(it.x_kinds)
    return out


def gen_vectors(ins, rnd, n, exhaustive_bits=0):
    """Boundary vectors first, then random; exhaustive when the total input width is small."""
    import itertools
    widths = [(w.name, w.getWidth()) for w in ins]
    tot = sum(w for _, w in widths)
    if widths and exhaustive_bits and tot <= exhaustive_bits:
        return [dict(zip([n_ for n_, _ in widths], vals)) for vals in itertools.product(*[range(1 << w) for _, w in widths])]
    vecs = []

    def allv(f):
        return {n_: f(w) for n_, w in widths}
    vecs.append(allv(lambda w: 0))
    vecs.append(allv(lambda w: (1 << w) - 1))
    vecs.append(allv(lambda w: 1))
    vecs.append(allv(lambda w: 1 << (w - 1)))
    vecs.append(allv(lambda w: 0x5555555555555555555555 & ((1 << w) - 1)))
    vecs.append(allv(lambda w: 0xAAAAAAAAAAAAAAAAAAAAAA & ((1 << w) - 1)))
    vecs.append(allv(lambda w: ((1 << w) - 1) ^ 1))
    while len(vecs) < n:
        mode = rnd.random()
        v = {}
        for n_, w in widths:
            if mode < 0.6:
                v[n_] = rnd.getrandbits(w)
            else:
                v[n_] = rnd.choice([0, 1, (1 << w) - 1, 1 << (w - 1), rnd.getrandbits(w), (1 << w) - 2]) & ((1 << w) - 1)
        vecs.append(v)
    return vecs[:max(n, 7)]


def gen_control_vectors(ins, rnd, n):
    """For sequential designs: 1-bit inputs follow per-signal duty cycles (holds, bursts, storms)."""
    duty = {w.name: rnd.choice([0.05, 0.3, 0.5, 0.95]) for w in ins}
    vecs = []
    for _ in range(n):
        v = {}
        for w in ins:
            ww = w.getWidth()
            if ww == 1:
                v[w.name] = int(rnd.random() < duty[w.name])
            else:
                r = rnd.random()
                v[w.name] = rnd.getrandbits(ww) if r < 0.7 else rnd.choice([0, 1, (1 << ww) - 1, 1 << (ww - 1)])
        vecs.append(v)
    return vecs


def localise(design, it):
    """After a mismatch: compare every internal net that exists on both sides and name the blocks whose inputs all agree
    but whose output differs (the places where simulator and emitted text part ways).
    Returns list of dicts(block=<class name>, inst=<path>, net=<verilog path>, simulator=, verilog=)."""
    import py4hw
    import py4hw.rtl_generation as rg
    gen = py4hw.VerilogGenerator(design.dut)
    culprits = []

    def net_value(scope_path, obj, wire):
        """value of `wire` as named in the scope of structural object obj, or None"""
        try:
            rg.clearWireNamesCache()
            names = rg.getWireNames(obj)
        except Exception:
            return None
        n = names.get(wire)
        if n is None:
            return None
        sc = it.top
        try:
            for p in scope_path:
                sc = sc.children[p]
        except KeyError:
            return None
        if n in sc.vals:
            return sc.vals[n]
        if 'reserved_' + n in sc.vals:
            return sc.vals['reserved_' + n]
        return None

    def walk(obj, path):
        for name, c in obj.children.items():
            ins_ok = True
            any_in = False
            for p in c.inPorts:
                if p.wire is None:
                    continue
                v = net_value(path, obj, p.wire)
                if v is None:
                    continue
                any_in = True
                if v != p.wire.get():
                    ins_ok = False
            bad_out = None
            for p in c.outPorts:
                if p.wire is None:
                    continue
                v = net_value(path, obj, p.wire)
                if v is not None and v != p.wire.get():
                    bad_out = (p, v)
            if bad_out is not None and ins_ok:
                if gen.isInlinable(c) or not c.children:
                    culprits.append(dict(block=type(c).__name__, inst='/'.join(path + [name]), port=bad_out[0].name,
                                         simulator=bad_out[0].wire.get(), verilog=bad_out[1],
                                         inputs={p.name: p.wire.get() for p in c.inPorts if p.wire is not None},
                                         widths={p.name: p.wire.getWidth() for p in list(c.inPorts) + list(c.outPorts) if p.wire is not None}))
                    continue
            if c.children and not gen.isInlinable(c):
                # descend: the instance scope in the interpreter is i_<name>
                walk(c, path + ['i_' + name])
                if bad_out is not None and ins_ok and not any(x['inst'].startswith('/'.join(path + [name])) for x in culprits):
                    culprits.append(dict(block=type(c).__name__, inst='/'.join(path + [name]), port=bad_out[0].name,
                                         simulator=bad_out[0].wire.get(), verilog=bad_out[1], note='no inner culprit found',
                                         inputs={p.name: p.wire.get() for p in c.inPorts if p.wire is not None},
                                         widths={p.name: p.wire.getWidth() for p in list(c.inPorts) + list(c.outPorts) if p.wire is not None}))
    try:
        walk(design.dut, [])
    finally:
        rg.clearWireNamesCache()
    return culprits


def localise_pre_edge(make_design, vectors, cycle, sequential):
    """Mismatch seen after the edge of `cycle` (1-based): rebuild, replay the earlier cycles, apply the inputs of that cycle,
    settle both sides and compare the internal nets *before* the edge (that is where a wrong next-state value is visible)."""
    des = make_design()
    out = cosim(des, vectors[:cycle - 1], sequential)
    if out.mismatch is not None or out.status != 'compared' or not hasattr(out, 'interp'):
        return []
    it = out.interp
    mi_ports = {w.name: port_name(it.top.mi, w.name) for w in des.ins}
    vec = vectors[cycle - 1] if cycle - 1 < len(vectors) else {}
    for w in des.ins:
        v = vec.get(w.name, 0)
        w.put(v)
        it.set_input(mi_ports[w.name], v)
    with muted():
        des.hw.getSimulator().propagateAll()
    it.settle()
    return localise(des, it)


def first_divergence(make_design, vectors, sequential, limit=None):
    """Rebuild and re-run in lockstep, comparing the *internal* nets at every settled point and after every edge;
    returns (cycle, when, culprits) for the first point where any block with agreeing inputs has a disagreeing output."""
    des = make_design()
    out = cosim(des, [], sequential)
    if out.status != 'compared' or not hasattr(out, 'interp'):
        return None
    it = out.interp
    ports = {w.name: port_name(it.top.mi, w.name) for w in des.ins}
    sim = des.hw.getSimulator()
    c = localise(des, it)
    if c:
        return (0, 'power-up', c)
    for cyc, vec in enumerate(vectors[:limit] if limit else vectors):
        for w in des.ins:
            v = vec.get(w.name, 0)
            w.put(v)
            it.set_input(ports[w.name], v)
        with muted():
            sim.propagateAll()
        it.settle()
        c = localise(des, it)
        if c:
            return (cyc + 1, 'settled', c)
        if sequential:
            with muted():
                sim.clk(1)
            it.posedge()
            c = localise(des, it)
            if c:
                return (cyc + 1, 'after-edge', c)
    return None
