"""C13 -- single-precision blocks judged with exact rationals (DESIGN.md section C13).

ONE HWSystem holds all five blocks (FPAdder_SP, FPMult_SP, FPComparator_SP plain and absolute, InttoFP_SP, FPtoInt_SP).
A *step* pokes four undriven wires (a, b -> adder / multiplier / comparators; ia -> InttoFP_SP; fa -> FPtoInt_SP), runs
Simulator.propagateAll() once and reads every output with Wire.get().  Every operand pair is stepped in both orders
(a,b) and (b,a) so that commutativity is judged on real outputs.  The oracle uses fractions.Fraction on the decoded
operands only; nothing from py4hw.helper is called.
"""
import itertools
import math
import time
from fractions import Fraction

from .common import muted, rng, stable_hash

LEVEL = 'exploration'
RULE = ('operand pairs of normal single-precision encodings: every exponent gap 0..253 (gaps 0..40 densely: several exponent '
        'positions x 6x6 mantissa boundary patterns {0,1,0x400000,0x7FFFFE,0x7FFFFF,random} x sign combinations; gaps 41..253 each '
        'with sampled mantissa pairs), in both operand orders, so the larger operand is a as well as b; cancellation pairs (opposite '
        'sign, same or adjacent exponent, mantissas 1..2**k ulp apart), products at the edges of the normal range, equal and negated '
        'operands, random pairs; integers 0, +-1, +-2**k, +-(2**k +- 1), INT_MIN, INT_MAX, 2**24 +- 1, random of every bit length; '
        'float->int operands with exponent fields 100..165 x mantissa boundaries, exact odd/even integers, k+0.5, +-2**31 neighbours. '
        'evaluations = block outputs judged.  Non-trivial: operand pair with exponent gap >= 1 or opposite signs; integer with >= 25 '
        'significant bits; float->int operand with |x| >= 1.  History class: the long-lived rig driven with returns to earlier operands (A,A; A,swap,A; A,pair sharing one operand,A; A,B,A,B for every pair of a 6-value pool; '
        'a walk on 6-value pools of all four ports), same judges.  Output-width class: a reduced pass (every 32nd pair; 64th in thorough) with all flag '
        'output wires 2, 4 and 8 bits wide, same judges.  Distinct by content (a, b | integer | pattern); in the thorough tier only the cases whose content '
        'hash is 0 mod 4 are registered, so distinct_nontrivial is a lower bound there (keeps the merged set small)')
SHARDS = {'quick': 1, 'thorough': 16}
TIMEOUT = {'quick': 600, 'thorough': 3000}
MIN_NONTRIVIAL = {'quick': 10000, 'thorough': 200000}

M23 = 0x7FFFFF
MANTS = (0, 1, 0x400000, 0x7FFFFE, 0x7FFFFF)


# --------------------------------------------------------------------------- reference: exact values of sp patterns

def enc(s, e, m):
    return (s << 31) | (e << 23) | m


def parts(v):
    return v >> 31, (v >> 23) & 255, v & M23


def is_normal_pat(v):
    return 1 <= ((v >> 23) & 255) <= 254


def val(v):
    """Exact rational of a finite single-precision pattern (zero / subnormal included); None for inf / NaN."""
    s, e, m = parts(v)
    if e == 255:
        return None
    if e == 0:
        r = Fraction(m, 1 << 23) * Fraction(1, 1 << 126)
    elif e >= 127:
        r = Fraction(((1 << 23) | m) << (e - 127), 1 << 23)
    else:
        r = Fraction((1 << 23) | m, 1 << (23 + 127 - e))
    return -r if s else r


TWO = Fraction(2)
MIN_NORMAL = Fraction(1, 1 << 126)
MAX_LIMIT = Fraction(1 << 128)


def is_normal_val(x):
    return MIN_NORMAL <= abs(x) < MAX_LIMIT


def floor_log2(x):
    ax = abs(x)
    e = ax.numerator.bit_length() - ax.denominator.bit_length()
    if TWO ** e > ax:
        e -= 1
    elif TWO ** (e + 1) <= ax:
        e += 1
    return e


def ulp_of(x):
    """Unit in the last place of the single-precision binade that holds x (the subnormal spacing below 2**-126)."""
    if x == 0:
        return Fraction(1, 1 << 149)
    return TWO ** (max(floor_log2(x), -126) - 23)


def ulp_pat(v):
    e = (v >> 23) & 255
    return TWO ** (max(e, 1) - 127 - 23)


def trunc24(i):
    """i truncated toward zero to 24 significant bits, and whether anything was discarded."""
    ai = abs(i)
    if ai == 0:
        return 0, False
    sh = max(0, ai.bit_length() - 24)
    tr = (ai >> sh) << sh
    return (tr if i > 0 else -tr), tr != ai


# --------------------------------------------------------------------------- bit-level replica of the adder's datapath.
# Used ONLY to label a failure that was already established by the exact oracle (which mechanism produced the wrong
# word); it never decides pass/fail.

def adder_datapath(a, b, ediff_bits):
    if (a & 0x7FFFFFFF) < (b & 0x7FFFFFFF):
        a, b = b, a
    sa, ea, fa = parts(a)
    sb, eb, fb = parts(b)
    ma = ((1 if ea else 0) << 23) | fa
    mb = ((1 if eb else 0) << 23) | fb
    ediff = (ea - eb) & ((1 << ediff_bits) - 1)
    mb3 = mb >> ediff
    mr = ((ma + mb3) if sa == sb else (ma - mb3)) & 0x1FFFFFF
    clz = 25 - mr.bit_length()
    mr2 = (mr << clz) & 0x1FFFFFF
    er = (ea - clz + 1) & 0xFF
    return (sa << 31) | (er << 23) | ((mr2 >> 1) & M23)


# --------------------------------------------------------------------------- the circuit

class Rig:
    def __init__(self, fw=1):
        # fw = width of every flag output wire (gt/eq/lt of both comparators, p_lost of InttoFP_SP, p_lost/denorm/invalid of
        # FPtoInt_SP).  A flag wire wider than one bit is legal -- the 0/1 is zero-extended into it.
        self.fw = fw
        import py4hw
        hw = py4hw.HWSystem()
        W = hw.wire
        self.a, self.b, self.ia, self.fa = W('a', 32), W('b', 32), W('ia', 32), W('fa', 32)
        self.radd, self.rmul = W('radd', 32), W('rmul', 32)
        self.cmp = [W(n, fw) for n in ('gt', 'eq', 'lt')]
        self.cmpabs = [W(n, fw) for n in ('agt', 'aeq', 'alt')]
        self.fi, self.i_lost = W('fi', 32), W('i_lost', fw)
        self.fo, self.f_lost, self.f_denorm, self.f_invalid = W('fo', 32), W('f_lost', fw), W('f_denorm', fw), W('f_invalid', fw)
        with muted():
            py4hw.FPAdder_SP(hw, 'add', self.a, self.b, self.radd)
            py4hw.FPMult_SP(hw, 'mul', self.a, self.b, self.rmul)
            py4hw.FPComparator_SP(hw, 'cmp', self.a, self.b, *self.cmp)
            py4hw.FPComparator_SP(hw, 'cmpabs', self.a, self.b, *self.cmpabs, absolute=True)
            py4hw.InttoFP_SP(hw, 'i2f', self.ia, self.fi, self.i_lost)
            py4hw.FPtoInt_SP(hw, 'f2i', self.fa, self.fo, self.f_lost, self.f_denorm, self.f_invalid)
            self.sim = hw.getSimulator()
        self.leaves = len(getattr(self.sim, 'propagatables', []))

    def step(self, a, b, ia, fa):
        self.a.put(a)
        self.b.put(b)
        self.ia.put(ia & 0xFFFFFFFF)
        self.fa.put(fa)
        with muted():
            self.sim.propagateAll()
        return dict(add=self.radd.get(), mul=self.rmul.get(), cmp=tuple(w.get() for w in self.cmp),
                    cmpabs=tuple(w.get() for w in self.cmpabs), i2f=self.fi.get(), i_lost=self.i_lost.get(),
                    f2i=self.fo.get(), f_lost=self.f_lost.get(), f_invalid=self.f_invalid.get(), f_denorm=self.f_denorm.get())


_RIGS = {}


def rig(fw=1):
    if fw not in _RIGS:
        _RIGS[fw] = Rig(fw)
    return _RIGS[fw]


# --------------------------------------------------------------------------- judges (pure: observed outputs -> violations)

def V(key, fields, expected, observed, what):
    return dict(key=key, fields=fields, expected=expected, observed=observed, what=what)


def ulps_bucket(err, ulp):
    q = err / ulp
    if q < 1:
        return '<1ulp'
    if q < 2:
        return '1..2ulp'
    if q < 4:
        return '2..4ulp'
    if q < 1 << 10:
        return '4..2**10ulp'
    return '>=2**10ulp'


def judge_pair(a, b, out, stats):
    """a, b normal patterns; out = observed outputs of one step."""
    vs = []
    va, vb = val(a), val(b)
    ea, eb = (a >> 23) & 255, (b >> 23) & 255
    gap = abs(ea - eb)
    gap_class = 'gap<32' if gap < 32 else 'gap>=32'
    signs = 'same_sign' if (a >> 31) == (b >> 31) else 'opposite_sign'
    tag = 'a=%#010x b=%#010x' % (a, b)
    # ---- comparators: exact order of the real values
    for mode, got, x, y in (('plain', out['cmp'], va, vb), ('absolute', out['cmpabs'], abs(va), abs(vb))):
        exp = (int(x > y), int(x == y), int(x < y))
        stats['cmp_' + mode] += 1
        if tuple(got) != exp:
            rel = 'gt_lt_swapped' if tuple(got) == (exp[2], exp[1], exp[0]) else ('not_one_hot' if sum(got) != 1 else 'other')
            vs.append(V('fpcmp_order', dict(block='FPComparator_SP', mode=mode, clause='order', signs=signs,
                                           differ_in='exponent' if ea != eb else ('mantissa' if (a ^ b) & M23 else 'sign_only'), relation=rel),
                        dict(zip(('gt', 'eq', 'lt'), exp)), dict(zip(('gt', 'eq', 'lt'), got)),
                        'FPComparator_SP(%s) %s: expected gt,eq,lt=%r observed %r' % (mode, tag, exp, tuple(got))))
    # ---- multiplier
    p = va * vb
    if is_normal_val(p):
        stats['mul_judged'] += 1
        r = out['mul']
        vr = val(r)
        if vr is None:
            vs.append(V('fpmul_nonfinite', dict(block='FPMult_SP', clause='finite', relation='inf_or_nan_word'), float(p), hex(r),
                        'FPMult_SP %s: exact product %r is normal, output word %#010x is inf/NaN' % (tag, float(p), r)))
        else:
            u = max(ulp_of(p), ulp_of(vr))
            err = abs(vr - p)
            if err >= u:
                vs.append(V('fpmul_error_bound', dict(block='FPMult_SP', clause='error<1ulp', relation=ulps_bucket(err, u),
                                                      sign='wrong_sign' if (vr < 0) != (p < 0) else 'sign_ok'), float(p), hex(r),
                            'FPMult_SP %s: exact %r returned %#010x = %r, error %.3g ulp' % (tag, float(p), r, float(vr), float(err / u))))
    else:
        stats['mul_result_not_normal'] += 1
    # ---- adder
    s = va + vb
    if s != 0 and is_normal_val(s):
        stats['add_judged'] += 1
        stats['add_judged_' + gap_class] += 1
        r = out['add']
        vr = val(r)
        big = a if abs(va) >= abs(vb) else b
        u = ulp_pat(big)
        fail = None
        if vr is None:
            fail = ('finite', 'inf_or_nan_word')
        elif ((r >> 31) == 1) != (s < 0):
            fail = ('sign', 'sign_wrong')
        elif abs(vr - s) >= 2 * u:
            fail = ('error<2ulp', ulps_bucket(abs(vr - s), u))
        if fail:
            # label the mechanism: does the word equal what the datapath produces with a 5-bit exponent difference
            # while an 8-bit one would have produced something else?
            mech = 'other'
            try:
                if gap >= 32 and r == adder_datapath(a, b, 5) and r != adder_datapath(a, b, 8):
                    mech = 'word_equals_datapath_with_exponent_difference_mod_32'
            except Exception:
                pass
            key = 'fpadd_expgap_wrap' if mech != 'other' else 'fpadd_' + {'finite': 'nonfinite', 'sign': 'sign', 'error<2ulp': 'error_bound'}[fail[0]]
            vs.append(V(key, dict(block='FPAdder_SP', clause=fail[0], gap_class=gap_class, signs=signs, relation=fail[1], mechanism=mech),
                        float(s), hex(r),
                        'FPAdder_SP %s (exponent gap %d, %s): exact sum %r returned %#010x = %r [%s %s]' % (
                            tag, gap, signs, float(s), r, float(vr) if vr is not None else None, fail[0], fail[1])))
    else:
        stats['add_result_zero_or_not_normal'] += 1
    return vs


def judge_commutative(a, b, out_ab, out_ba, stats):
    vs = []
    va, vb = val(a), val(b)
    tag = 'a=%#010x b=%#010x' % (a, b)
    p = va * vb
    if is_normal_val(p):
        stats['mul_commutativity_judged'] += 1
        if out_ab['mul'] != out_ba['mul']:
            vs.append(V('fpmul_commutative', dict(block='FPMult_SP', clause='commutative', relation='r(a,b)!=r(b,a)'), hex(out_ab['mul']), hex(out_ba['mul']),
                        'FPMult_SP %s: r(a,b)=%#010x r(b,a)=%#010x' % (tag, out_ab['mul'], out_ba['mul'])))
    s = va + vb
    if s != 0 and is_normal_val(s):
        stats['add_commutativity_judged'] += 1
        if out_ab['add'] != out_ba['add']:
            gap = abs(((a >> 23) & 255) - ((b >> 23) & 255))
            vs.append(V('fpadd_commutative', dict(block='FPAdder_SP', clause='commutative', gap_class='gap<32' if gap < 32 else 'gap>=32',
                                                 relation='r(a,b)!=r(b,a)'), hex(out_ab['add']), hex(out_ba['add']),
                        'FPAdder_SP %s: r(a,b)=%#010x r(b,a)=%#010x' % (tag, out_ab['add'], out_ba['add'])))
    return vs


def judge_int(i, out, stats):
    """i: signed 32-bit integer poked into InttoFP_SP."""
    vs = []
    stats['i2f_judged'] += 1
    expv, lost = trunc24(i)
    r = out['i2f']
    vr = val(r)
    sig = abs(i).bit_length()
    cls = 'zero' if i == 0 else ('int_min' if i == -(1 << 31) else ('<=24_bits' if sig <= 24 else '>=25_bits'))
    if vr is None or vr != expv or (i != 0 and ((r >> 31) == 1) != (i < 0)):
        rel = 'other'
        if vr is not None and expv != 0 and vr != 0:
            q = vr / expv
            if q == -1:
                rel = 'sign_wrong'
            elif q in (2, Fraction(1, 2)):
                rel = 'observed=expected*2' if q == 2 else 'observed=expected/2'
            elif abs(vr - expv) == ulp_of(Fraction(expv)):
                rel = 'off_by_one_ulp'
        elif vr == 0 and expv != 0:
            rel = 'observed_zero'
        vs.append(V('inttofp_value', dict(block='InttoFP_SP', clause='value', int_class=cls, relation=rel), float(expv), hex(r),
                    'InttoFP_SP i=%d: expected %r (truncated to 24 bits) returned %#010x = %r' % (i, float(expv), r, None if vr is None else float(vr))))
    if out['i_lost'] != int(lost):
        vs.append(V('inttofp_plost', dict(block='InttoFP_SP', clause='p_lost', int_class=cls, relation='spurious' if out['i_lost'] else 'missing'),
                    int(lost), out['i_lost'], 'InttoFP_SP i=%d: p_lost expected %d observed %d' % (i, int(lost), out['i_lost'])))
    return vs


def f2i_class(x):
    if abs(x) >= 1 << 31:
        return '|x|>=2**31'
    if x.denominator != 1:
        return 'fraction_only' if abs(x) < 1 else 'integer_plus_fraction'
    return 'odd_integer' if x.numerator & 1 else 'even_integer'


def judge_f2i(f, out, stats):
    """f: normal pattern poked into FPtoInt_SP."""
    vs = []
    x = val(f)
    cls = f2i_class(x)
    tag = 'x=%#010x (%r)' % (f, float(x))
    stats['f2i_' + cls] += 1
    if abs(x) >= 1 << 31:
        if out['f_invalid'] != 1:
            vs.append(V('fptoint_invalid', dict(block='FPtoInt_SP', clause='invalid', value_class=cls, relation='missing'), 1, out['f_invalid'],
                        'FPtoInt_SP %s: |x| >= 2**31 but invalid = %d' % (tag, out['f_invalid'])))
        return vs
    t = math.trunc(x)
    if out['f2i'] != (t & 0xFFFFFFFF):
        got = out['f2i']
        sg = got - (1 << 32) if got >> 31 else got
        rel = 'other'
        if sg == -t and t:
            rel = 'sign_wrong'
        elif sg == math.floor(x) and t != math.floor(x):
            rel = 'floor_instead_of_trunc'
        elif abs(sg - t) == 1:
            rel = 'off_by_one'
        elif t and sg in (2 * t, t // 2):
            rel = 'scaled_by_2'
        vs.append(V('fptoint_value', dict(block='FPtoInt_SP', clause='value', value_class=cls, relation=rel), t, sg,
                    'FPtoInt_SP %s: expected trunc = %d observed %d (word %#010x)' % (tag, t, sg, got)))
    lost = int(x != t)
    if out['f_lost'] != lost:
        rel = 'spurious' if out['f_lost'] else 'missing'
        key = 'fptoint_plost_lsb' if (cls == 'odd_integer' and rel == 'spurious') else 'fptoint_plost'
        vs.append(V(key, dict(block='FPtoInt_SP', clause='p_lost', value_class=cls, relation=rel), lost, out['f_lost'],
                    'FPtoInt_SP %s: p_lost expected %d observed %d [%s]' % (tag, lost, out['f_lost'], cls)))
    if out['f_invalid'] != 0:
        vs.append(V('fptoint_invalid', dict(block='FPtoInt_SP', clause='invalid', value_class=cls, relation='spurious'), 0, out['f_invalid'],
                    'FPtoInt_SP %s: |x| < 2**31 but invalid = %d' % (tag, out['f_invalid'])))
    return vs


# --------------------------------------------------------------------------- operand generators

def pair_cases(tier, seed, shard):
    """Yields (a, b, class).  The structured part is enumerated completely and sliced by shard; random parts are salted."""
    rnd = rng(seed, 'C13', 'pairs', shard)
    i, nsh = shard if shard else (0, 1)
    quick = tier == 'quick'
    k = 0

    def mine():
        nonlocal k
        k += 1
        return k % nsh == i

    def rm():
        return rnd.getrandbits(23)

    sign_sets = [((0, 0), (0, 1)), ((1, 1), (1, 0))]
    # A. dense gaps 0..40: several exponent positions, 6x6 mantissas
    for gap in range(0, 41):
        eas = sorted({gap + 1, min(254, 127 + gap // 2), 254, min(254, gap + 24)} | ({150, 200, gap + 2} if not quick else set()))
        for n, ea in enumerate(eas):
            eb = ea - gap
            if not (1 <= eb <= 254 and 1 <= ea <= 254):
                continue
            ms = list(MANTS) + [rm()]
            for ma in ms:
                for mb in list(MANTS) + [rm()]:
                    for sa, sb in sign_sets[0] + sign_sets[1]:
                        if mine():
                            yield enc(sa, ea, ma), enc(sb, eb, mb), 'dense_gap'
    # B. every gap 41..253
    for gap in range(41, 254):
        eas = sorted({gap + 1, 254} | ({(gap + 255) // 2} if not quick else set()))
        for n, ea in enumerate(eas):
            eb = ea - gap
            if not (1 <= eb <= 254):
                continue
            ms = list(MANTS) + [rm()]
            pairs = [(rnd.choice(ms), rnd.choice(ms)) for _ in range(5 if quick else 14)] + [(0, 0), (M23, M23)]
            for ma, mb in pairs:
                for sa, sb in sign_sets[(gap + n) & 1]:
                    if mine():
                        yield enc(sa, ea, ma), enc(sb, eb, mb), 'wide_gap'
    # C. cancellation: opposite signs, close magnitudes (down to 1 ulp apart)
    es = [24, 25, 26, 30, 47, 48, 100, 126, 127, 128, 150, 200, 253, 254] + [rnd.randint(24, 254) for _ in range(6 if quick else 40)]
    for e in es:
        for m in (0, 1, 0x400000, 0x7FFFFE, 0x7FFFFF, rm(), rm()):
            deltas = [1, 2, 3] + [1 << j for j in range(2, 23, 3 if quick else 1)] + [rnd.getrandbits(rnd.randint(1, 22)) | 1]
            for d in deltas:
                for m2 in (m + d, m - d):
                    if 0 <= m2 <= M23 and mine():
                        s = rnd.getrandbits(1)
                        yield enc(s, e, m), enc(1 - s, e, m2), 'cancellation'
            # across the binade boundary: 2**k - 1ulp(lower) against 2**k
            if e > 25 and mine():
                s = rnd.getrandbits(1)
                yield enc(s, e, 0), enc(1 - s, e - 1, M23), 'cancellation'
                yield enc(s, e, 1), enc(1 - s, e - 1, M23 - 1), 'cancellation'
    # D. equal and negated operands
    for _ in range(150 if quick else 1500):
        v = enc(rnd.getrandbits(1), rnd.randint(1, 254), rnd.choice(list(MANTS) + [rm(), rm()]))
        if mine():
            yield v, v, 'equal'
            yield v, v ^ (1 << 31), 'negated'
    # E. products at the edges of the normal range (exponent sums around 127+1 and 127+254) and mantissa products around 2
    sq = (0x3504F3, 0x3504F4, 0x3504F2, 0, 1, M23, M23 - 1, 0x400000)
    for tgt in (126, 127, 128, 129, 253 + 127, 254 + 127, 255 + 127, 380, 381):
        for _ in range(12 if quick else 120):
            ea = rnd.randint(max(1, tgt - 254), min(254, tgt - 1))
            eb = tgt - ea
            if 1 <= eb <= 254 and mine():
                yield enc(rnd.getrandbits(1), ea, rnd.choice(sq + (rm(),))), enc(rnd.getrandbits(1), eb, rnd.choice(sq + (rm(),))), 'product_edge'
    # F. random: small gaps with random mantissas, then fully random normal operands
    # (the random generator is salted with the shard, so every shard draws its own share directly)
    for _ in range(8000 if quick else 1920000 // nsh):
        ea = rnd.randint(1, 254)
        eb = min(254, max(1, ea + rnd.randint(-27, 27)))
        yield enc(rnd.getrandbits(1), ea, rm()), enc(rnd.getrandbits(1), eb, rm()), 'random_small_gap'
    for _ in range(8000 if quick else 1440000 // nsh):
        yield enc(rnd.getrandbits(1), rnd.randint(1, 254), rm()), enc(rnd.getrandbits(1), rnd.randint(1, 254), rm()), 'random'


def int_boundary():
    vals = [0, 1, -1, 2, -2, 3, -3, 0x7FFFFFFF, -0x80000000, -0x7FFFFFFF, 0x7FFFFF80, 0x7FFFFFC0, 0x7FFFFF7F, 0x7FFFFF81,
            16777215, 16777216, 16777217, 16777218, 33554431, 33554432, 33554433, -16777217, -33554433]
    for k in range(1, 32):
        for d in (-1, 0, 1):
            for sg in (1, -1):
                v = sg * ((1 << k) + d)
                if -(1 << 31) <= v < (1 << 31):
                    vals.append(v)
        # 25+ significant bits with the discarded part exactly 1, exactly all ones, and a single middle bit
        if k >= 25:
            top = 1 << (k - 1)
            for low in (1, (1 << (k - 24)) - 1, 1 << (k - 25)):
                for sg in (1, -1):
                    vals.append(sg * (top | (0xFFFFFF << (k - 24)) & ((1 << k) - 1) | low))
                    vals.append(sg * (top | low))
    out = []
    seen = set()
    for v in vals:
        if -(1 << 31) <= v < (1 << 31) and v not in seen:
            seen.add(v)
            out.append(v)
    return out


def int_stream(seed, shard):
    rnd = rng(seed, 'C13', 'ints', shard)
    b = int_boundary()
    i, nsh = shard if shard else (0, 1)
    for k, v in enumerate(b):
        if k % nsh == i:
            yield v
    while True:
        n = rnd.randint(1, 32)
        v = rnd.getrandbits(n) | (1 << (n - 1))
        if rnd.getrandbits(1):
            v = -v
        if -(1 << 31) <= v < (1 << 31):
            yield v
        yield rnd.getrandbits(32) - (1 << 31)


def float_of_int(i):
    """sp pattern of an integer that is exactly representable (|i| < 2**24 or a multiple of a power of two)."""
    import struct
    return struct.unpack('<I', struct.pack('<f', float(i)))[0]


def f2i_boundary():
    import struct
    pats = []
    for e in range(100, 166):
        for m in MANTS + (0x000001 << 10, 0x600000, 0x200000):
            for s in (0, 1):
                pats.append(enc(s, e, m))
    ints = list(range(1, 40)) + [(1 << k) + d for k in range(2, 24) for d in (-1, 0, 1)] + [(1 << 24) - 1, (1 << 24) - 2, 1 << 24, 1 << 30, (1 << 31) - 128, (1 << 31) - 256]
    for v in ints:
        for sg in (1, -1):
            pats.append(float_of_int(sg * v))
    for v in [0.5, 1.5, 2.5, 3.5, 0.75, 1.25, 1023.5, 8388607.5, 4194303.5, 4194303.75, 0.99999994, 1.0000001, 2147483520.0, 2147483648.0, 4294967296.0, 1e10]:
        for sg in (1, -1):
            pats.append(struct.unpack('<I', struct.pack('<f', sg * v))[0])
    return [p for p in dict.fromkeys(pats) if is_normal_pat(p)]


def f2i_stream(seed, shard):
    rnd = rng(seed, 'C13', 'f2i', shard)
    i, nsh = shard if shard else (0, 1)
    for k, v in enumerate(f2i_boundary()):
        if k % nsh == i:
            yield v
    while True:
        r = rnd.random()
        if r < 0.4:
            # exact integers of every size (odd and even)
            n = rnd.randint(1, 24)
            v = rnd.getrandbits(n) | (1 << (n - 1))
            v <<= rnd.randint(0, 31 - n) if rnd.getrandbits(1) else 0
            yield float_of_int(-v if rnd.getrandbits(1) else v)
        elif r < 0.8:
            yield enc(rnd.getrandbits(1), rnd.randint(100, 165), rnd.choice(MANTS + (rnd.getrandbits(23), rnd.getrandbits(23))))
        else:
            yield enc(rnd.getrandbits(1), rnd.randint(1, 254), rnd.getrandbits(23))


# --------------------------------------------------------------------------- driver

class Stats(dict):
    def __missing__(self, k):
        return 0


NT_SUBSAMPLE = 4     # thorough tier: only cases with content hash = 0 mod 4 are registered as distinct non-trivial (lower bound)
PER_MECHANISM = 3
FLAG_WIDTHS = (2, 4, 8)


def report(run, case, viols):
    seen = run.__dict__.setdefault('_mechanisms', {})
    for v in viols:
        mech = stable_hash([v['key'], v['fields']])
        if seen.get(mech, 0) >= PER_MECHANISM:
            run.count('violations_same_mechanism_not_recorded')
            continue
        if run.violation(v['key'], v['fields'], dict(case, block=v['fields'].get('block'), clause=v['fields'].get('clause')),
                         expected=v['expected'], observed=v['observed'], what=v['what']):
            seen[mech] = seen.get(mech, 0) + 1


def run_check(run, tier, seed, shard):
    run.assume('domain: finite normal operands only (exponent field 1..254); zero, subnormal, inf and NaN operands are not generated')
    run.assume('"unit in the last place" for the multiplier = the larger of ulp(exact product) and ulp(returned value); for the adder '
               'the bound is 2 ulp of the operand of larger magnitude; sums that are exactly zero or not normal are not judged')
    run.assume('FPtoInt_SP: |x| >= 2**31 (including -2**31) must raise invalid; below that invalid must be 0, r = trunc(x) mod 2**32, '
               'p_lost <=> x is not an integer')
    run.assume('flag outputs (gt/eq/lt, p_lost, invalid, denorm) on wires wider than one bit must read the zero-extended 0/1; denorm itself is '
               'only required to be 0 or 1 (the statement says nothing about its value)')
    run.assume('InttoFP_SP: value = the integer truncated toward zero to 24 significant bits (compared as a rational, so +0 and -0 words '
               'both stand for 0), p_lost <=> a non-zero bit was discarded')
    R = rig()

    def nt(h):
        if tier == 'quick' or h % NT_SUBSAMPLE == 0:
            run.nt(h)
    stats = Stats()
    gaps = Stats()
    classes = Stats()
    ints = int_stream(seed, shard)
    f2is = f2i_stream(seed, shard)
    deadline = time.time() + (500 if tier == 'quick' else 2400)
    npairs = 0
    for a, b, cls in pair_cases(tier, seed, shard):
        if run.too_many:
            break
        if npairs % 128 == 0 and time.time() > deadline:
            run.inconclusive.append('watchdog hit after %d operand pairs' % npairs)
            break
        npairs += 1
        classes[cls] += 1
        gap = abs(((a >> 23) & 255) - ((b >> 23) & 255))
        gaps[str(gap)] += 1
        outs = []
        for x, y in ((a, b), (b, a)):
            i, f = next(ints), next(f2is)
            try:
                out = R.step(x, y, i, f)
            except Exception as e:
                run.violation('fp_sim_raises', dict(relation='raises:' + type(e).__name__), dict(kind='step', a=hex(x), b=hex(y), ia=i, fa=hex(f)),
                              observed=repr(e)[:200], what='propagateAll raises %r' % (e,))
                outs = None
                break
            outs.append(out)
            case = dict(kind='step', a=hex(x), b=hex(y), ia=i, fa=hex(f))
            viols = judge_pair(x, y, out, stats) + judge_int(i, out, stats) + judge_f2i(f, out, stats)
            run.ev(6)
            if viols:
                report(run, case, viols)
            if abs(i).bit_length() >= 25:
                nt(hash((1, i)))
            if ((f >> 23) & 255) >= 127:
                nt(hash((2, f)))
        if outs:
            viols = judge_commutative(a, b, outs[0], outs[1], stats)
            if viols:
                report(run, dict(kind='pair', a=hex(a), b=hex(b)), viols)
        if gap >= 1 or (a >> 31) != (b >> 31):
            nt(hash((3, a, b)))
            nt(hash((3, b, a)))
        if npairs % 2503 == 1:
            run.sample(dict(kind='step', pair_class=cls, a=hex(b), b=hex(a), exponent_gap=gap, ia=i, fa=hex(f), note='second step of the pair (operands swapped)',
                            observed={k: (hex(v) if isinstance(v, int) and v > 9 else v) for k, v in (outs[1] if outs else {}).items()}))
    # ---- history class: the SAME long-lived rig is driven with sequences that keep returning to earlier operands (A,A; A,B,A; A,swap(A),A;
    # A,pair sharing one operand,A; a walk on a small pool), every port drawn from a pool of 6 values so that returns are frequent.  The blocks
    # are combinational: the answer for an operand tuple must not depend on what was applied before; same judges as the main pass
    hist = Stats()
    hrnd = rng(seed, 'C13', 'history', shard)
    pa = [0x3F800000, 0xBF800000, enc(0, 1, 0), enc(1, 254, M23)] + [enc(hrnd.getrandbits(1), hrnd.randint(100, 150), hrnd.getrandbits(23)) for _ in range(2)]
    pi = [0, 1, -1, -0x80000000] + [hrnd.choice(int_boundary()), hrnd.getrandbits(32) - (1 << 31)]
    fb = f2i_boundary()
    pf = [0x3F800000, 0xBF800000, 0x4F000000, 0x3F000000] + [hrnd.choice(fb), hrnd.choice(fb)]

    def hseq():
        for x in pa:
            for y in pa:
                A = (x, y)
                x2, y2 = hrnd.choice([v for v in pa if v != x]), hrnd.choice([v for v in pa if v != y])
                for shape, seq in (('A_A', (A, A)), ('A_swap_A', (A, (y, x), A)), ('A_share_a_A', (A, (x, y2), A)), ('A_share_b_A', (A, (x2, y), A)),
                                   ('A_B_A_B', (A, (x2, y2), A, (x2, y2)))):
                    # the integer / float->int ports: held, or changed and brought back, independently of the pair
                    i0, f0 = hrnd.choice(pi), hrnd.choice(pf)
                    for k, q in enumerate(seq):
                        back = k == 0 or k == len(seq) - 1 or hrnd.getrandbits(1)
                        yield shape, q[0], q[1], (i0 if back else hrnd.choice(pi)), (f0 if back else hrnd.choice(pf))
        x, y, i, f = pa[0], pa[1], pi[0], pf[0]
        for _ in range(600 if tier == 'quick' else 6000):
            k = hrnd.randrange(5)
            if k == 0:
                x = hrnd.choice(pa)
            elif k == 1:
                y = hrnd.choice(pa)
            elif k == 2:
                i = hrnd.choice(pi)
            elif k == 3:
                f = hrnd.choice(pf)
            yield 'pool_walk', x, y, i, f
    seen_t = set()
    trail = []
    if shard is None or shard[0] == 0:
        for shape, x, y, i, f in hseq():
            if run.too_many:
                break
            trail.append([hex(x), hex(y), i, hex(f)])
            try:
                out = R.step(x, y, i, f)
            except Exception as e:
                run.violation('fp_sim_raises', dict(relation='raises:' + type(e).__name__, workload='history'), dict(kind='history', seq=trail[-32:]),
                              observed=repr(e)[:200], what='propagateAll raises %r in a history workload' % (e,))
                break
            viols = judge_pair(x, y, out, stats) + judge_int(i, out, stats) + judge_f2i(f, out, stats)
            run.ev(6)
            hist['steps_' + shape] += 1
            for nm, key in (('pair', (x, y)), ('integer', ('i', i)), ('float_to_int_operand', ('f', f))):
                if key in seen_t:
                    hist['step_returns_to_an_earlier_' + nm] += 1
                seen_t.add(key)
            nt(hash((4, len(trail), x, y, i, f)))
            if viols:
                for v in viols:
                    v['fields'] = dict(v['fields'], workload='history')
                    v['what'] += ' -- step %d of a history workload on the long-lived rig (%s); previous steps: %s' % (len(trail) - 1, shape, trail[-4:-1])
                report(run, dict(kind='history', seq=trail[-32:]), viols)
    run.extra['history_class'] = dict(hist)
    if (shard is None or shard[0] == 0) and not run.too_many and not run.violations:
        for k in ('steps_A_A', 'steps_A_swap_A', 'steps_A_share_a_A', 'steps_A_share_b_A', 'steps_A_B_A_B', 'steps_pool_walk',
                  'step_returns_to_an_earlier_pair', 'step_returns_to_an_earlier_integer', 'step_returns_to_an_earlier_float_to_int_operand'):
            if not hist[k]:
                run.inconclusive.append('history class never exercised: %s' % k)
    # ---- output-width class: the same blocks with every flag output on a wire of 2, 4, 8 bits (1 bit is the main pass above);
    # each flag must still read the zero-extended 0/1, so the same judges apply unchanged
    wide = Stats()
    stride = 32 if tier == 'quick' else 64
    for fw in FLAG_WIDTHS:
        if run.too_many or time.time() > deadline:
            break
        try:
            Rw = rig(fw)
        except Exception as e:
            run.violation('fp_build_raises', dict(relation='raises:' + type(e).__name__, flag_wires='%d_bits' % fw), dict(kind='build', flag_width=fw),
                          observed=repr(e)[:200], what='the five blocks with %d-bit flag wires do not build: %r' % (fw, e))
            continue
        wstats = Stats()
        for a, b, cls in itertools.islice(pair_cases(tier, seed, shard), fw % stride, None, stride):
            for x, y in ((a, b), (b, a)):
                i, f = next(ints), next(f2is)
                out = Rw.step(x, y, i, f)
                viols = judge_pair(x, y, out, wstats) + judge_int(i, out, wstats) + judge_f2i(f, out, wstats)
                if out['f_denorm'] > 1:
                    viols.append(V('fptoint_denorm', dict(block='FPtoInt_SP', clause='denorm_flag_is_0_or_1', relation='upper_bits_of_flag_wire_set'), '0 or 1', out['f_denorm'],
                                   'FPtoInt_SP x=%#010x: denorm flag on a %d-bit wire reads %d' % (f, fw, out['f_denorm'])))
                run.ev(6)
                wide['steps_%d_bit_flags' % fw] += 1
                if viols:
                    flags = [out['i_lost'], out['f_lost'], out['f_invalid'], out['f_denorm']] + list(out['cmp']) + list(out['cmpabs'])
                    for v in viols:
                        v['fields']['flag_wires'] = '%d_bits' % fw
                        v['what'] += ' [all flag wires %d bits wide]' % fw
                        if any(t > 1 for t in flags):
                            v['fields']['upper_bits_of_a_flag_wire_set'] = True
                    report(run, dict(kind='step', a=hex(x), b=hex(y), ia=i, fa=hex(f), flag_width=fw), viols)
            if run.too_many:
                break
    run.extra['wide_flag_wire_pass'] = dict(wide)
    run.extra['blocks_in_one_system'] = ['FPAdder_SP', 'FPMult_SP', 'FPComparator_SP', 'FPComparator_SP(absolute)', 'InttoFP_SP', 'FPtoInt_SP']
    run.extra['leaves_per_propagate'] = '%d leaf blocks evaluated by every propagateAll()' % R.leaves
    run.extra['operand_pairs'] = npairs
    run.extra['propagations'] = 2 * npairs
    run.extra['pair_classes'] = dict(classes)
    run.extra['judged'] = dict(stats)
    run.extra['exponent_gap_histogram'] = dict(gaps)
    if shard is None:
        _floors(run, stats, gaps)


def post_merge(run, tier, seed):
    st = Stats()
    st.update(run.extra.get('judged', {}))
    _floors(run, st, run.extra.get('exponent_gap_histogram', {}))


def _floors(run, stats, gaps):
    if run.too_many or run.violations:
        return
    for k in ('cmp_plain', 'cmp_absolute', 'mul_judged', 'add_judged', 'add_judged_gap>=32', 'add_commutativity_judged', 'i2f_judged',
              'f2i_odd_integer', 'f2i_even_integer', 'f2i_integer_plus_fraction', 'f2i_|x|>=2**31'):
        if stats[k] == 0:
            run.inconclusive.append('deciding monitor never reached: %s' % k)
    have = {int(g) for g in gaps}
    missing = [g for g in range(254) if g not in have]
    if missing:
        run.inconclusive.append('exponent gaps never generated: %s' % missing[:10])
    run.extra['exponent_gaps_covered'] = '%d distinct gaps (%d..%d)' % (len(have), min(have), max(have)) if have else 'none'


def replay(run, case):
    c = case['case']
    R = rig(c.get('flag_width', 1))
    stats = Stats()
    hexi = lambda v: int(v, 16) if isinstance(v, str) else v
    viols = []
    if c['kind'] == 'history':
        for j, (a, b, i, f) in enumerate(c['seq']):
            a, b, f = hexi(a), hexi(b), hexi(f)
            out = R.step(a, b, i, f)
            vv = judge_pair(a, b, out, stats) + judge_int(i, out, stats) + judge_f2i(f, out, stats)
            print('replay history step %d a=%#010x b=%#010x ia=%d fa=%#010x ->' % (j, a, b, i, f), out)
            viols += vv
    elif c['kind'] == 'step':
        a, b, i, f = hexi(c['a']), hexi(c['b']), c['ia'], hexi(c['fa'])
        out = R.step(a, b, i, f)
        viols = judge_pair(a, b, out, stats) + judge_int(i, out, stats) + judge_f2i(f, out, stats)
        print('replay step a=%#010x b=%#010x ia=%d fa=%#010x ->' % (a, b, i, f), out)
    else:
        a, b = hexi(c['a']), hexi(c['b'])
        o1 = R.step(a, b, 0, 0x3F800000)
        o2 = R.step(b, a, 0, 0x3F800000)
        viols = judge_commutative(a, b, o1, o2, stats)
        print('replay pair a=%#010x b=%#010x -> add %#010x / %#010x, mul %#010x / %#010x' % (a, b, o1['add'], o2['add'], o1['mul'], o2['mul']))
    blk = c.get('block')
    rel = [v for v in viols if blk is None or v['fields'].get('block') == blk] or viols
    for v in rel:
        print('  ', v['key'], v['what'])
    if rel:
        print('VIOLATION property=%s replay=%s' % (run.prop, 'replayed'))
    return 1 if rel else 0
