"""E2 block catalogue, combinational part.

One entry per library block: how to build it for a configuration tuple, which configurations
are legal (from the constructor's own asserts / docstring), and an *independent* reference
written with Python integers only (never calling py4hw helpers).

build(parent, cfg, mk) -> (ins, outs): `mk(name, width)` creates a wire in the scope that owns
the nets (the HWSystem for plain sweeps, the enclosing scope for wrapped duts); the block is
instantiated under `parent`.
ref(cfg, vals) -> list of expected outputs before reduction mod 2**width (None = not specified).
"""
import functools
import itertools
import math
import operator

from .common import mask, sgn, boundary_values


class Entry:
    def __init__(self, name, prop, build, ref, quick, thorough=None, domain=None, stateless=True, tags=()):
        self.name = name
        self.prop = prop
        self.build = build
        self.ref = ref
        self.quick = list(quick)
        self.thorough = list(thorough) if thorough is not None else list(quick)
        self.domain = domain
        self.tags = set(tags)
        # configurations of a named boundary family (see CLASSES): a consumer that caps the number of configurations per block keeps these
        self.keep = []
        # configurations that build and run but whose output VALUE no documentation defines: only range-type monitors (C06) use them
        self.range_only = []
        # the quick tier always includes, for every numeric position of the configuration, a configuration reaching the smallest
        # value any thorough configuration has there (minimum legal widths / counts / constants are where special cases live)
        def flat(c):
            out = []
            for x in (c if isinstance(c, (tuple, list)) else (c,)):
                if isinstance(x, (tuple, list)):
                    out.append(len(x))
                    out.extend(flat(x))
                elif isinstance(x, bool) or not isinstance(x, int):
                    out.append(None)
                else:
                    out.append(x)
            return out
        fq = [flat(c) for c in self.quick]
        for c in self.thorough:
            f = flat(c)
            for i, v in enumerate(f):
                if v is None:
                    continue
                cur = [g[i] for g in fq if len(g) > i and g[i] is not None]
                if cur and v < min(cur) and c not in self.quick:
                    self.quick.append(c)
                    fq.append(f)
                    break

    def configs(self, tier):
        return self.thorough if tier == 'thorough' else self.quick


ENTRIES = []


def add(*a, **k):
    e = Entry(*a, **k)
    ENTRIES.append(e)
    return e


def by_prop(prop):
    return [e for e in ENTRIES if e.prop == prop]


# configuration classes: label -> {entry name: [cfg, ...]}; CONTROL_PINS: entry name -> f(cfg) -> indices (in the ins list) of the
# control inputs documented / used as one bit
CLASSES = {}
CONTROL_PINS = {}


def classify(name, cfg):
    return [k for k, d in CLASSES.items() if cfg in d.get(name, ())]


def by_name(name):
    for e in ENTRIES:
        if e.name == name:
            return e
    raise KeyError(name)


_HOSTILE = [None]


class _HostileLists:
    """py4hw seen through a caller that reuses its own list objects: every list handed to a block constructor is the caller's scratch
    list, and it is emptied / reordered / refilled as soon as the constructor returns. A block is defined by the wires on its ports,
    so nothing the caller does to its own list afterwards may change the block."""

    def __init__(self, mode):
        self.mode = mode
        self.lists_seen = 0

    def __getattr__(self, name):
        import py4hw
        obj = getattr(py4hw, name)
        if not isinstance(obj, type):
            return obj
        outer = self

        def ctor(*a, **k):
            scratch = []

            def conv(x):
                if isinstance(x, list):
                    y = list(x)
                    scratch.append(y)
                    return y
                return x
            inst = obj(*[conv(x) for x in a], **{n: conv(x) for n, x in k.items()})
            for y in scratch:
                outer.lists_seen += 1
                m = outer.mode
                if m == 'clear' or len(y) < 2:
                    y.clear()
                elif m == 'reverse':
                    y.reverse()
                elif m == 'rotate':
                    y.append(y.pop(0))
                else:
                    y[:] = [y[0]] * len(y)
            return inst
        return ctor


class hostile_lists:
    def __init__(self, mode):
        self.h = _HostileLists(mode)

    def __enter__(self):
        _HOSTILE[0] = self.h
        return self.h

    def __exit__(self, *a):
        _HOSTILE[0] = None


def P():
    if _HOSTILE[0] is not None:
        return _HOSTILE[0]
    import py4hw
    return py4hw


# --------------------------------------------------------------------------- helpers for references

def tdiv(a, b):
    q = abs(a) // abs(b)
    return -q if (a < 0) != (b < 0) else q


def rol(v, n, w):
    n %= w
    return ((v << n) | (v >> (w - n))) & ((1 << w) - 1)


def ror(v, n, w):
    n %= w
    return ((v >> n) | (v << (w - n))) & ((1 << w) - 1)


def clz(v, w):
    return w - v.bit_length()


def bcd(v, digits):
    return sum(((v // 10 ** i) % 10) << (4 * i) for i in range(digits))


def catm(ws, v):
    r = 0
    for w, x in zip(ws, v):
        r = (r << w) | x
    return r


# --------------------------------------------------------------------------- width grids
SMALL = [1, 2, 3, 4, 5]
GRID = [1, 2, 3, 4, 5, 7, 8, 9]
SPOT = [16, 31, 32, 33, 64]


def trip(ws, extra_r=()):
    return [(a, b, r) for a in ws for b in ws for r in list(ws) + list(extra_r)]


TRIP_Q = trip([1, 2, 3, 5], (8,)) + [(8, 8, 8), (8, 8, 16), (16, 16, 16), (32, 32, 32), (33, 31, 64), (64, 64, 64), (64, 64, 128), (9, 7, 8)]
TRIP_T = trip(GRID) + [(a, b, r) for a in SPOT for b in SPOT for r in SPOT] + [(64, 64, 128), (33, 31, 65), (8, 16, 12)]


# --------------------------------------------------------------------------- C07 arithmetic

def _two(cls_name, **kw):
    def b(parent, cfg, mk):
        a, b_, r = cfg[:3]
        A = mk('a', a); B = mk('b', b_); R = mk('r', r)
        getattr(P(), cls_name)(parent, 'd', A, B, R, **kw)
        return [A, B], [R]
    return b


def _one(cls_name, **kw):
    def b(parent, cfg, mk):
        a, r = cfg[:2]
        A = mk('a', a); R = mk('r', r)
        getattr(P(), cls_name)(parent, 'd', A, R, **kw)
        return [A], [R]
    return b


def b_add(parent, cfg, mk):
    a, b, r, ci, co = cfg
    A = mk('a', a); B = mk('b', b); R = mk('r', r)
    ins = [A, B]; outs = [R]
    CI = mk('ci', ci) if ci else None        # ci = width of the carry-in wire (the constructors accept any width: it is a third addend)
    CO = mk('co', 1) if co else None
    P().Add(parent, 'd', A, B, R, ci=CI, co=CO)
    if ci:
        ins.append(CI)
    if co:
        outs.append(CO)
    return ins, outs


def r_add(cfg, v):
    a, b, r, ci, co = cfg
    tot = v[0] + v[1] + (v[2] if ci else 0)
    return [tot] + ([tot >> r] if co else [])


# Add: AddCarryIn asserts rw >= aw. Carry out is bit rw of the exact sum (needs rw >= bw too, or the
# exact sum has more than one bit above rw: then "carry" is still bit rw of the exact sum).
add('Add', 'C07', b_add, r_add,
    [(a, b, r, ci, co) for a, b, r in TRIP_Q if r >= a for ci in (0, 1) for co in (0, 1)],
    [(a, b, r, ci, co) for a, b, r in TRIP_T if r >= a for ci in (0, 1) for co in (0, 1)])


def b_addci(parent, cfg, mk):
    a, b, r = cfg[:3]
    A = mk('a', a); B = mk('b', b); R = mk('r', r); CI = mk('ci', cfg[3] if len(cfg) > 3 else 1)
    P().AddCarryIn(parent, 'd', A, B, R, CI)
    return [A, B, CI], [R]


add('AddCarryIn', 'C07', b_addci, lambda c, v: [v[0] + v[1] + v[2]],
    [t for t in TRIP_Q if t[2] >= t[0]], [t for t in TRIP_T if t[2] >= t[0]])
def b_subbi(parent, cfg, mk):
    a, b, r = cfg
    A = mk('a', a); B = mk('b', b); R = mk('r', r); BI = mk('bi', 1)
    P().SubBorrowIn(parent, 'd', A, B, R, BI)
    return [A, B, BI], [R]


add('SubBorrowIn', 'C07', b_subbi, lambda c, v: [v[0] - v[1] - v[2]],
    [t for t in TRIP_Q if t[2] >= t[0]], [t for t in TRIP_T if t[2] >= t[0]])
add('Sub', 'C07', _two('Sub'), lambda c, v: [v[0] - v[1]], TRIP_Q, TRIP_T)
add('Mul', 'C07', _two('Mul'), lambda c, v: [v[0] * v[1]], TRIP_Q, TRIP_T)
add('SignedMul', 'C07', _two('SignedMul'), lambda c, v: [sgn(v[0], c[0]) * sgn(v[1], c[1])], TRIP_Q, TRIP_T)
add('Div', 'C07', _two('Div'), lambda c, v: [v[0] // v[1]], TRIP_Q, TRIP_T, domain=lambda c, v: v[1] != 0)
add('Mod', 'C07', _two('Mod'), lambda c, v: [v[0] % v[1]], TRIP_Q, TRIP_T, domain=lambda c, v: v[1] != 0)
_SGN_Q = [t for t in TRIP_Q if t[2] >= t[0] and t[2] >= t[1]]
_SGN_T = [t for t in TRIP_T if t[2] >= t[0] and t[2] >= t[1]]
add('SignedAdd', 'C07', _two('SignedAdd'), lambda c, v: [sgn(v[0], c[0]) + sgn(v[1], c[1])], _SGN_Q, _SGN_T)
add('SignedSub', 'C07', _two('SignedSub'), lambda c, v: [sgn(v[0], c[0]) - sgn(v[1], c[1])], _SGN_Q, _SGN_T)
# SignedDiv: |a|/|b| with sign fix-up = truncation toward zero (what Test_SignedDiv pins).
# Width combinations: result at least as wide as the dividend (the quotient's magnitude fits).
_SD_Q = [(w, w, w) for w in [2, 3, 4, 5, 8, 16, 32]] + [(4, 3, 5), (3, 4, 4), (8, 4, 8), (5, 8, 8)]
_SD_T = [(a, b, r) for a in GRID + [16, 32] for b in GRID + [16, 32] for r in GRID + [16, 32, 64] if r >= a and a >= 2 and b >= 2]
add('SignedDiv', 'C07', _two('SignedDiv'), lambda c, v: [tdiv(sgn(v[0], c[0]), sgn(v[1], c[1]))], _SD_Q, _SD_T,
    domain=lambda c, v: v[1] != 0)

_PAIR_Q = [(a, r) for a in [1, 2, 3, 5, 8] for r in [1, 2, 3, 5, 8, 9]] + [(16, 16), (32, 32), (31, 33), (64, 64), (32, 64), (64, 32)]
_PAIR_T = [(a, r) for a in GRID + SPOT for r in GRID + SPOT]
add('Neg', 'C07', _one('Neg'), lambda c, v: [-v[0]], _PAIR_Q, _PAIR_T)
add('Abs', 'C07', _one('Abs'), lambda c, v: [abs(sgn(v[0], c[0]))], _PAIR_Q, _PAIR_T)


def b_abs_inv(parent, cfg, mk):
    a, r = cfg
    A = mk('a', a); R = mk('r', r); I = mk('inv', 1)
    P().Abs(parent, 'd', A, R, inverted=I)
    return [A], [R, I]


add('Abs+inverted', 'C07', b_abs_inv, lambda c, v: [abs(sgn(v[0], c[0])), int(sgn(v[0], c[0]) < 0)], _PAIR_Q, _PAIR_T)
add('SignExtend', 'C07', _one('SignExtend'), lambda c, v: [sgn(v[0], c[0])], _PAIR_Q, _PAIR_T)
add('ZeroExtend', 'C07', _one('ZeroExtend'), lambda c, v: [v[0]], _PAIR_Q, _PAIR_T)


def b_sign(parent, cfg, mk):
    A = mk('a', cfg[0]); R = mk('r', 1)
    P().Sign(parent, 'd', A, R)
    return [A], [R]


add('Sign', 'C07', b_sign, lambda c, v: [v[0] >> (c[0] - 1)], [(w,) for w in [1, 2, 3, 5, 8, 16, 32, 64]], [(w,) for w in GRID + SPOT])


def _shc(cls_name):
    def b(parent, cfg, mk):
        a, n, r = cfg
        A = mk('a', a); R = mk('r', r)
        getattr(P(), cls_name)(parent, 'd', A, n, R)
        return [A], [R]
    return b


def _shc_grid(ws):
    out = []
    for a in ws:
        for n in sorted({0, 1, a - 1, a, a + 1, 2 * a, 2 * a + 1, 3 * a}):
            if n < 0:
                continue
            for r in sorted({1, a, a + 2, max(1, a - 1)}):
                out.append((a, n, r))
    return out


add('ShiftLeftConstant', 'C07', _shc('ShiftLeftConstant'), lambda c, v: [v[0] << c[1]], _shc_grid([1, 3, 4, 8, 32]), _shc_grid(GRID + SPOT))
add('ShiftRightConstant', 'C07', _shc('ShiftRightConstant'), lambda c, v: [v[0] >> c[1]], _shc_grid([1, 3, 4, 8, 32]), _shc_grid(GRID + SPOT))
# rotations by a constant: amounts 0..width, result as wide as the operand
_ROT_Q = [(a, n, a) for a in [1, 3, 4, 8, 32] for n in sorted({0, 1, a // 2, a - 1, a}) if n >= 0]
_ROT_T = [(a, n, a) for a in GRID + SPOT for n in (range(0, a + 1) if a <= 9 else sorted({0, 1, 2, a // 2, a - 2, a - 1, a}))]
add('RotateLeftConstant', 'C07', _shc('RotateLeftConstant'), lambda c, v: [rol(v[0], c[1], c[0])], _ROT_Q, _ROT_T)
add('RotateRightConstant', 'C07', _shc('RotateRightConstant'), lambda c, v: [ror(v[0], c[1], c[0])], _ROT_Q, _ROT_T)


def _shv(cls_name, **kw):
    def b(parent, cfg, mk):
        a, bw, r = cfg[:3]
        A = mk('a', a); B = mk('b', bw); R = mk('r', r)
        getattr(P(), cls_name)(parent, 'd', A, B, R, **kw)
        return [A, B], [R]
    return b


_SHV_Q = [(a, bw, a) for a in [1, 2, 4, 5, 8] for bw in [1, 2, 3, 4]] + [(4, 2, 2), (32, 5, 32), (32, 6, 32), (16, 3, 16)]
_SHV_T = [(a, bw, a) for a in GRID + [16, 32] for bw in [1, 2, 3, 4, 5, 6]] + [(a, bw, r) for a in [4, 8] for bw in [2, 3] for r in [2, 3, 4, 8]] + [(64, 6, 64), (64, 7, 64)]
add('ShiftLeft', 'C07', _shv('ShiftLeft'), lambda c, v: [v[0] << v[1]], _SHV_Q + [(4, 3, 8), (8, 3, 16)], _SHV_T + [(4, 3, 8), (8, 3, 16), (8, 4, 32)])
add('ShiftRight', 'C07', _shv('ShiftRight'), lambda c, v: [v[0] >> v[1]], _SHV_Q, _SHV_T)
# arithmetic shift right only specified for rw <= aw
add('ShiftRight(arith=True)', 'C07', _shv('ShiftRight', arithmetic=True), lambda c, v: [sgn(v[0], c[0]) >> v[1]],
    [t for t in _SHV_Q if t[2] <= t[0]], [t for t in _SHV_T if t[2] <= t[0]])


def b_shaw(parent, cfg, mk):
    a, bw, r = cfg
    A = mk('a', a); B = mk('b', bw); R = mk('r', r); AR = mk('ar', 1)
    P().ShiftRight(parent, 'd', A, B, R, arithmetic=AR)
    return [A, B, AR], [R]


add('ShiftRight(arith=wire)', 'C07', b_shaw, lambda c, v: [(sgn(v[0], c[0]) if v[2] else v[0]) >> v[1]],
    [t for t in _SHV_Q if t[2] <= t[0]], [t for t in _SHV_T if t[2] <= t[0]])
# variable rotations: amounts up to the data width; configurations with 2**(wb-1) <= aw
_ROTV_Q = [(a, bw, a) for a in [2, 4, 8, 5] for bw in [1, 2, 3] if (1 << (bw - 1)) <= a]
_ROTV_T = [(a, bw, a) for a in [2, 3, 4, 5, 7, 8, 9, 16, 32] for bw in [1, 2, 3, 4, 5] if (1 << (bw - 1)) <= a]
add('RotateLeft', 'C07', _shv('RotateLeft'), lambda c, v: [rol(v[0], v[1], c[0])], _ROTV_Q, _ROTV_T, domain=lambda c, v: v[1] <= c[0])
add('RotateRight', 'C07', _shv('RotateRight'), lambda c, v: [ror(v[0], v[1], c[0])], _ROTV_Q, _ROTV_T, domain=lambda c, v: v[1] <= c[0])


def b_clz(parent, cfg, mk):
    a, r = cfg
    A = mk('a', a); R = mk('r', r); Z = mk('z', 1)
    P().CountLeadingZeros(parent, 'd', A, R, Z)
    return [A], [R, Z]


# result must be able to hold the count of an all-zero input (the data width)
_CLZ_Q = [(2, 2), (3, 2), (4, 3), (5, 3), (7, 3), (8, 4), (8, 6), (9, 4), (16, 5), (32, 6)]
_CLZ_T = _CLZ_Q + [(a, r) for a in range(2, 34) for r in [a.bit_length(), a.bit_length() + 2]] + [(64, 7), (1, 1)]
add('CountLeadingZeros', 'C07', b_clz, lambda c, v: [clz(v[0], c[0]), int(v[0] == 0)], _CLZ_Q, _CLZ_T)


def b_bcd(parent, cfg, mk):
    a, r = cfg
    A = mk('a', a); R = mk('r', r)
    P().BinaryToBCD(parent, 'd', A, R)
    return [A], [R]


add('BinaryToBCD', 'C07', b_bcd, lambda c, v: [bcd(v[0], c[1] // 4)], [(4, 8), (7, 12), (8, 12), (8, 8), (10, 16), (3, 4), (2, 4), (1, 4), (2, 8)],
    [(4, 8), (7, 12), (8, 12), (8, 8), (10, 16), (4, 4), (5, 8), (12, 16), (13, 16), (14, 20), (3, 4), (2, 4), (1, 4), (2, 8), (1, 8), (3, 12)])


# --------------------------------------------------------------------------- C08 logic / selection / comparison

def _nary(cls_name):
    def b(parent, cfg, mk):
        n, w = cfg
        ins = [mk('i%d' % k, w) for k in range(n)]
        R = mk('r', w)
        getattr(P(), cls_name)(parent, 'd', ins, R)
        return ins, [R]
    return b


_NW_Q = [(n, w) for n in range(1, 7) for w in [1, 2, 3, 4] if n * w <= 12] + [(2, 8), (3, 16), (5, 32), (7, 1), (8, 1)]
_NW_T = [(n, w) for n in range(1, 9) for w in [1, 2, 3, 4, 5, 8] if n * w <= 16] + [(2, 8), (3, 16), (5, 32), (9, 64), (12, 1), (16, 1), (4, 33)]
add('And', 'C08', _nary('And'), lambda c, v: [functools.reduce(operator.and_, v)], _NW_Q, _NW_T)
add('Or', 'C08', _nary('Or'), lambda c, v: [functools.reduce(operator.or_, v)], _NW_Q, _NW_T)
add('Xor', 'C08', _nary('Xor'), lambda c, v: [functools.reduce(operator.xor, v)], [x for x in _NW_Q if x[0] >= 2], [x for x in _NW_T if x[0] >= 2])
add('Nor', 'C08', _nary('Nor'), lambda c, v: [~functools.reduce(operator.or_, v)], _NW_Q, _NW_T)


def _g2(cls_name):
    def b(parent, cfg, mk):
        w = cfg[0]
        # optional 2nd element: result wire of a different width (value reduced / zero-extended)
        A = mk('a', w); B = mk('b', w); R = mk('r', cfg[1] if len(cfg) > 1 else w)
        getattr(P(), cls_name)(parent, 'd', A, B, R)
        return [A, B], [R]
    return b


_W1_Q = [(w,) for w in [1, 2, 3, 4, 5, 8, 32]]
_W1_T = [(w,) for w in GRID + SPOT]
for nm, f in [('And2', lambda a, b: a & b), ('Or2', lambda a, b: a | b), ('Xor2', lambda a, b: a ^ b),
              ('Nand2', lambda a, b: ~(a & b)), ('Nor2', lambda a, b: ~(a | b))]:
    # a result wire of another width is only catalogued for the non-inverting gates: for inverting ones the documentation
    # does not say whether the missing operand bits count as 0 (high result bits 1) -- C01 probes those separately
    mixed = nm in ('And2', 'Or2')
    add(nm, 'C08', _g2(nm), (lambda f: lambda c, v: [f(v[0], v[1])])(f), _W1_Q + ([(4, 6), (4, 2), (8, 9)] if mixed else []),
        _W1_T + ([(4, 6), (4, 2), (8, 9), (8, 16), (3, 1)] if mixed else []))


def b_not(parent, cfg, mk):
    a, r = cfg
    A = mk('a', a); R = mk('r', r)
    P().Not(parent, 'd', A, R)
    return [A], [R]


# Not/Buf: same-width is the documented use
add('Not', 'C08', b_not, lambda c, v: [~v[0]], [(w, w) for w in [1, 2, 3, 5, 8, 32]] + [(4, 2)], [(w, w) for w in GRID + SPOT] + [(4, 2), (8, 1)])
add('Buf', 'C08', _one('Buf'), lambda c, v: [v[0]], [(w, w) for w in [1, 2, 3, 5, 8, 32]] + [(4, 6), (4, 2)], [(w, w) for w in GRID + SPOT] + [(4, 6), (4, 2), (8, 16), (8, 1)])


def _red(cls_name):
    def b(parent, cfg, mk):
        A = mk('a', cfg[0]); R = mk('r', 1)
        getattr(P(), cls_name)(parent, 'd', A, R)
        return [A], [R]
    return b


add('AndBits', 'C08', _red('AndBits'), lambda c, v: [int(v[0] == (1 << c[0]) - 1)], [(w,) for w in [1, 2, 3, 5, 8, 13]], [(w,) for w in GRID + [13, 16, 32]])
add('OrBits', 'C08', _red('OrBits'), lambda c, v: [int(v[0] != 0)], [(w,) for w in [1, 2, 3, 5, 8, 13]], [(w,) for w in GRID + [13, 16, 32]])


def b_mux(parent, cfg, mk):
    k, w = cfg
    S = mk('s', k)
    ins = [mk('i%d' % j, w) for j in range(1 << k)]
    R = mk('r', w)
    P().Mux(parent, 'd', S, ins, R)
    return [S] + ins, [R]


add('Mux', 'C08', b_mux, lambda c, v: [v[1 + v[0]]], [(1, 1), (1, 3), (2, 1), (2, 2), (3, 1), (2, 8), (3, 4)], [(1, 1), (1, 3), (2, 1), (2, 2), (3, 1), (2, 8), (3, 4), (4, 1), (4, 3), (1, 32), (3, 16)])


def b_demux(parent, cfg, mk):
    k, w = cfg
    A = mk('a', w); S = mk('s', k)
    outs = [mk('o%d' % j, w) for j in range(1 << k)]
    P().Demux(parent, 'd', A, S, outs)
    return [A, S], outs


add('Demux', 'C08', b_demux, lambda c, v: [v[0] if j == v[1] else 0 for j in range(1 << c[0])], [(1, 1), (1, 3), (2, 2), (3, 2)], [(1, 1), (1, 3), (2, 2), (3, 2), (2, 8), (3, 5), (4, 1), (1, 32)])


def b_dec(parent, cfg, mk):
    A = mk('a', cfg[0])
    outs = [mk('o%d' % j, 1) for j in range(1 << cfg[0])]
    P().Decoder(parent, 'd', A, outs)
    return [A], outs


add('Decoder', 'C08', b_dec, lambda c, v: [int(j == v[0]) for j in range(1 << c[0])], [(1,), (2,), (3,), (4,), (5,), (6,), (7,)], [(1,), (2,), (3,), (4,), (5,), (6,), (7,), (8,), (9,)])


def _sel_ins(cls_name):
    def b(parent, cfg, mk):
        n, w = cfg
        sels = [mk('s%d' % j, 1) for j in range(n)]
        ins = [mk('i%d' % j, w) for j in range(n)]
        R = mk('r', w)
        getattr(P(), cls_name)(parent, 'd', sels, ins, R)
        return sels + ins, [R]
    return b


_OH_Q = [(2, 2), (3, 2), (4, 1), (2, 8), (5, 3)]
_OH_T = _OH_Q + [(1, 3), (6, 2), (8, 1), (3, 16), (4, 32)]
# one-hot mux / Select: documented domain = exactly one select bit set
add('OneHotMux', 'C08', _sel_ins('OneHotMux'), lambda c, v: [sum(v[c[0] + j] for j in range(c[0]) if v[j])], _OH_Q, _OH_T,
    domain=lambda c, v: sum(v[:c[0]]) == 1)
add('Select', 'C08', _sel_ins('Select'), lambda c, v: [sum(v[c[0] + j] for j in range(c[0]) if v[j])], _OH_Q, _OH_T,
    domain=lambda c, v: sum(v[:c[0]]) == 1)


def b_ohd(parent, cfg, mk):
    n, w = cfg
    sels = [mk('s%d' % j, 1) for j in range(n)]
    A = mk('a', w)
    outs = [mk('o%d' % j, w) for j in range(n)]
    P().OneHotDemux(parent, 'd', sels, A, outs)
    return sels + [A], outs


add('OneHotDemux', 'C08', b_ohd, lambda c, v: [v[c[0]] if v[j] else 0 for j in range(c[0])], _OH_Q, _OH_T,
    domain=lambda c, v: sum(v[:c[0]]) <= 1)


def b_sd(parent, cfg, mk):
    n, w = cfg
    sels = [mk('s%d' % j, 1) for j in range(n)]
    ins = [mk('i%d' % j, w) for j in range(n)]
    D = mk('df', w); R = mk('r', w)
    P().SelectDefault(parent, 'd', sels, ins, D, R)
    return sels + ins + [D], [R]


add('SelectDefault', 'C08', b_sd, lambda c, v: [next((v[c[0] + j] for j in range(c[0]) if v[j]), v[2 * c[0]])],
    [(1, 2), (2, 2), (3, 1), (4, 1), (2, 8)], [(1, 2), (2, 2), (3, 1), (4, 1), (2, 8), (5, 2), (6, 1), (3, 16)],
    domain=lambda c, v: sum(v[:c[0]]) <= 1)


def b_sd_mixed(parent, cfg, mk):
    ws, dw, rw = cfg
    sels = [mk('s%d' % j, 1) for j in range(len(ws))]
    ins = [mk('i%d' % j, w) for j, w in enumerate(ws)]
    D = mk('df', dw); R = mk('r', rw)
    P().SelectDefault(parent, 'd', sels, ins, D, R)
    return sels + ins + [D], [R]


# inputs, default and result of different widths: the selected value is zero-extended / reduced to the result width
_SDM = [((4, 8, 2), 8, 8), ((2, 8), 4, 8), ((8, 2, 8), 8, 8), ((3, 5), 8, 8), ((8, 4), 8, 4)]
add('SelectDefault(mixed widths)', 'C08', b_sd_mixed,
    lambda c, v: [next((v[len(c[0]) + j] for j in range(len(c[0])) if v[j]), v[2 * len(c[0])])],
    _SDM, _SDM + [((1, 16, 3, 9), 16, 16), ((6, 6, 12), 3, 12)], domain=lambda c, v: sum(v[:len(c[0])]) <= 1)


def _sel_ins_mixed(cls_name):
    def b(parent, cfg, mk):
        ws, rw = cfg
        sels = [mk('s%d' % j, 1) for j in range(len(ws))]
        ins = [mk('i%d' % j, w) for j, w in enumerate(ws)]
        R = mk('r', rw)
        getattr(P(), cls_name)(parent, 'd', sels, ins, R)
        return sels + ins, [R]
    return b


_OHM = [((4, 8, 2), 8), ((8, 2), 8), ((2, 8), 8), ((3, 5, 8, 1), 8), ((8, 8), 4)]
for _nm in ('OneHotMux', 'Select'):
    add('%s(mixed widths)' % _nm, 'C08', _sel_ins_mixed(_nm), lambda c, v: [sum(v[len(c[0]) + j] for j in range(len(c[0])) if v[j])],
        _OHM, _OHM + [((16, 1, 9), 16)], domain=lambda c, v: sum(v[:len(c[0])]) == 1)


def b_mux_mixed(parent, cfg, mk):
    ws, rw = cfg
    k = (len(ws) - 1).bit_length()
    S = mk('s', k)
    ins = [mk('i%d' % j, w) for j, w in enumerate(ws)]
    R = mk('r', rw)
    P().Mux(parent, 'd', S, ins, R)
    return [S] + ins, [R]


_MXM = [((4, 8), 8), ((8, 4), 8), ((2, 8, 4, 8), 8), ((8, 8, 8, 3), 8), ((8, 8), 4)]
add('Mux(mixed widths)', 'C08', b_mux_mixed, lambda c, v: [v[1 + v[0]]], _MXM, _MXM + [((1, 2, 3, 4, 5, 6, 7, 8), 8)])


def _pe(inc):
    def b(parent, cfg, mk):
        n = cfg[0]
        w = cfg[1] if len(cfg) > 1 else 1      # wider request / grant wires: one encoder per bit lane
        ins = [mk('a%d' % j, w) for j in range(n)]
        outs = [mk('r%d' % j, w) for j in range(n)]
        P().PriorityEncoder(parent, 'd', ins, outs, inc_priority=inc)
        return ins, outs
    return b


def _pe_ref(hi):
    def r(c, v):
        w = c[1] if len(c) > 1 else 1
        out = [0] * c[0]
        for lane in range(w):
            idx = [j for j in range(c[0]) if (v[j] >> lane) & 1]
            if idx:
                out[max(idx) if hi else min(idx)] |= 1 << lane
        return out
    return r


_PE_Q = [(n,) for n in [1, 2, 3, 5, 8]]
_PE_T = [(n,) for n in [1, 2, 3, 4, 5, 6, 7, 8, 10, 12, 14]]
add('PriorityEncoder(inc=True)', 'C08', _pe(True), _pe_ref(True), _PE_Q, _PE_T)
add('PriorityEncoder(inc=False)', 'C08', _pe(False), _pe_ref(False), _PE_Q, _PE_T)


def b_mt(parent, cfg, mk):
    n, val = cfg
    bits = [mk('b%d' % j, 1) for j in range(n)]
    R = mk('r', 1)
    P().Minterm(parent, 'd', bits, val, R)
    return bits, [R]


add('Minterm', 'C08', b_mt, lambda c, v: [int(sum(b << j for j, b in enumerate(v)) == c[1])],
    [(n, val) for n in [1, 2, 3, 4] for val in range(1 << n)], [(n, val) for n in [1, 2, 3, 4, 5, 6] for val in range(1 << n)])


def b_som(parent, cfg, mk):
    w, mts = cfg[:2]
    A = mk('a', w); R = mk('r', cfg[2] if len(cfg) > 2 else 1)
    P().SumOfMinterms(parent, 'd', A, list(mts), R)
    return [A], [R]


_SOM = [(3, (0,)), (3, (1, 5, 7)), (4, (2, 3, 9, 15)), (2, (0, 1, 2, 3)), (1, (1,)), (5, (0, 31, 16, 7))]
# short and long lists (fewer / more than half of the table, all but one, the whole table), result wires wider than the flag
_SOM += [(4, (0, 2, 3, 5, 6, 7, 8, 9, 11, 13)), (4, tuple(range(15))), (3, tuple(range(8))), (3, (0, 1, 2, 4, 7)),
         (4, (0, 2, 3, 5, 6, 7, 8, 9, 11, 13), 2), (3, (1, 5, 7), 4), (3, (0, 1, 2, 4, 7), 3), (2, (0, 1, 2), 8), (5, tuple(range(0, 32, 3)) + (1, 2, 4, 5, 7, 8, 10), 2)]
add('SumOfMinterms', 'C08', b_som, lambda c, v: [int(v[0] in c[1])], _SOM, _SOM + [(6, tuple(range(0, 64, 5))), (4, tuple(range(16)))])


def b_sw(parent, cfg, mk):
    w = cfg[0]
    # optional 2nd element: width of the control wire
    A = mk('a', w); B = mk('b', w); S = mk('s', cfg[1] if len(cfg) > 1 else 1); RA = mk('ra', w); RB = mk('rb', w)
    P().Swap(parent, 'd', A, B, S, RA, RB)
    return [A, B, S], [RA, RB]


# a control wire wider than one bit: the documentation only defines control values 0 (pass) and 1 (exchange)
add('Swap', 'C08', b_sw, lambda c, v: [v[1], v[0]] if v[2] else [v[0], v[1]], [(1,), (2,), (4,), (8,), (32,)], _W1_T,
    domain=lambda c, v: v[2] <= 1)


def b_eq(parent, cfg, mk):
    w = cfg[0]
    A = mk('a', w); B = mk('b', w); R = mk('r', cfg[1] if len(cfg) > 1 else 1)
    P().Equal(parent, 'd', A, B, R)
    return [A, B], [R]


add('Equal', 'C08', b_eq, lambda c, v: [int(v[0] == v[1])], [(1,), (2,), (3,), (5,), (8,), (32,), (1, 4), (3, 2), (8, 8)], _W1_T + [(w, r) for w in [1, 2, 5] for r in [2, 3, 8]])


def _eqc(cls_name):
    def b(parent, cfg, mk):
        w, k = cfg[:2]
        A = mk('a', w); R = mk('r', cfg[2] if len(cfg) > 2 else 1)
        getattr(P(), cls_name)(parent, 'd', A, k, R)
        return [A], [R]
    return b


_WK_Q = [(w, k) for w in [1, 2, 3, 4] for k in range(1 << w)] + [(8, 0), (8, 255), (8, 0x5a), (32, 0xdeadbeef), (16, 1)]
# a flag handed a result wire wider than one bit reads the zero-extended 0/1
_WK_Q += [(1, 0, 4), (1, 1, 4), (2, 0, 3), (2, 3, 2), (3, 5, 8), (8, 0x5a, 4)]
_WK_T = [(w, k) for w in [1, 2, 3, 4, 5, 6] for k in range(1 << w)] + [(8, k) for k in range(0, 256, 7)] + [(32, 0xdeadbeef), (32, 0), (64, (1 << 64) - 1), (33, 1 << 32)]
_WK_T += [(w, k, r) for w in [1, 2, 3] for k in range(1 << w) for r in [2, 3, 8]]
add('EqualConstant', 'C08', _eqc('EqualConstant'), lambda c, v: [int(v[0] == c[1])], _WK_Q, _WK_T)
add('NotEqualConstant', 'C08', _eqc('NotEqualConstant'), lambda c, v: [int(v[0] != c[1])], _WK_Q, _WK_T)


def b_any(parent, cfg, mk):
    n, w = cfg
    ins = [mk('i%d' % j, w) for j in range(n)]
    R = mk('r', 1)
    P().AnyEqual(parent, 'd', ins, R)
    return ins, [R]


add('AnyEqual', 'C08', b_any, lambda c, v: [int(len(set(v)) < len(v))], [(2, 2), (3, 2), (4, 2), (3, 3), (2, 8)], [(2, 2), (3, 2), (4, 2), (3, 3), (2, 8), (5, 2), (4, 3), (3, 16), (6, 2)])


def b_cmp(parent, cfg, mk):
    w = cfg[0]
    A = mk('a', w); B = mk('b', w)
    o = [mk(n, 1) for n in ['gt', 'eq', 'lt']]
    P().Comparator(parent, 'd', A, B, *o)
    return [A, B], o


add('Comparator', 'C08', b_cmp, lambda c, v: [int(v[0] > v[1]), int(v[0] == v[1]), int(v[0] < v[1])], [(1,), (2,), (3,), (5,), (8,), (32,)], _W1_T)


def b_cmps(parent, cfg, mk):
    w = cfg[0]
    A = mk('a', w); B = mk('b', w)
    o = {n: mk(n, 1) for n in ['gtu', 'eq', 'ltu', 'gt', 'lt']}
    P().ComparatorSignedUnsigned(parent, 'd', A, B, o['gtu'], o['eq'], o['ltu'], o['gt'], o['lt'])
    return [A, B], [o[n] for n in ['gtu', 'eq', 'ltu', 'gt', 'lt']]


add('ComparatorSignedUnsigned', 'C08', b_cmps,
    lambda c, v: [int(v[0] > v[1]), int(v[0] == v[1]), int(v[0] < v[1]), int(sgn(v[0], c[0]) > sgn(v[1], c[0])), int(sgn(v[0], c[0]) < sgn(v[1], c[0]))],
    [(1,), (2,), (3,), (5,), (8,), (32,)], _W1_T)
for nm, f in [('Max2', lambda a, b, w: max(a, b)), ('Min2', lambda a, b, w: min(a, b)),
              ('SignedMax2', lambda a, b, w: max(sgn(a, w), sgn(b, w))), ('SignedMin2', lambda a, b, w: min(sgn(a, w), sgn(b, w)))]:
    add(nm, 'C08', _g2(nm), (lambda f: lambda c, v: [f(v[0], v[1], c[0])])(f), [(1,), (2,), (3,), (5,), (8,), (32,)], _W1_T)


def b_bit(parent, cfg, mk):
    w, k = cfg
    A = mk('a', w); R = mk('r', 1)
    P().Bit(parent, 'd', A, k, R)
    return [A], [R]


add('Bit', 'C08', b_bit, lambda c, v: [v[0] >> c[1]], [(w, k) for w in [1, 3, 8] for k in range(w)] + [(32, 31), (64, 63), (64, 0)],
    [(w, k) for w in GRID for k in range(w)] + [(w, k) for w in SPOT for k in (0, 1, w // 2, w - 2, w - 1)])


def b_rng(parent, cfg, mk):
    w, h, l = cfg[:3]
    # optional 4th element: result wire wider / narrower than the extracted range (the constructor accepts it;
    # the range value is right-aligned, so it is zero-extended or truncated)
    A = mk('a', w); R = mk('r', cfg[3] if len(cfg) > 3 else h - l + 1)
    P().Range(parent, 'd', A, h, l, R)
    return [A], [R]


add('Range', 'C08', b_rng, lambda c, v: [(v[0] >> c[2]) & ((1 << (c[1] - c[2] + 1)) - 1)],
    [(w, h, l) for w in [1, 3, 8] for l in range(w) for h in range(l, w)] + [(32, 31, 0), (32, 30, 23), (64, 63, 32)]
    + [(8, 5, 2, 8), (8, 5, 2, 2), (8, 6, 0, 16), (4, 2, 1, 4), (16, 11, 4, 12), (32, 30, 23, 32)],
    [(w, h, l) for w in GRID for l in range(w) for h in range(l, w)] + [(w, h, l) for w in SPOT for (h, l) in ((w - 1, 0), (w - 1, w - 1), (w - 2, 1), (w // 2, w // 2 - 1), (0, 0))]
    + [(w, h, l, rw) for w in [4, 8, 9] for l in range(0, w, 2) for h in range(l, w, 3) for rw in (1, h - l, h - l + 2, w, w + 3) if rw >= 1])


def _bits(cls_name):
    def b(parent, cfg, mk):
        w = cfg[0]
        A = mk('a', w)
        outs = [mk('o%d' % j, 1) for j in range(w)]
        getattr(P(), cls_name)(parent, 'd', A, outs)
        return [A], outs
    return b


add('BitsLSBF', 'C08', _bits('BitsLSBF'), lambda c, v: [(v[0] >> j) & 1 for j in range(c[0])], [(1,), (2,), (5,), (8,)], [(w,) for w in GRID + [16]])
add('BitsMSBF', 'C08', _bits('BitsMSBF'), lambda c, v: [(v[0] >> (c[0] - 1 - j)) & 1 for j in range(c[0])], [(1,), (2,), (5,), (8,)], [(w,) for w in GRID + [16]])


def _cat(cls_name):
    def b(parent, cfg, mk):
        ws, rw = cfg
        ins = [mk('i%d' % j, w) for j, w in enumerate(ws)]
        R = mk('r', rw)
        getattr(P(), cls_name)(parent, 'd', ins, R)
        return ins, [R]
    return b


_CATS_Q = [((1,), 1), ((1, 2), 3), ((2, 1, 3), 6), ((3, 1, 1, 2), 7), ((8, 8), 16), ((1, 31), 32)]
_CATS_T = _CATS_Q + [((4, 4, 4, 4), 16), ((1, 1, 1, 1, 1, 1), 6), ((32, 32), 64), ((5, 3, 9), 17), ((16, 1, 16), 33)]
add('ConcatenateMSBF', 'C08', _cat('ConcatenateMSBF'), lambda c, v: [catm(c[0], v)], _CATS_Q, _CATS_T)
add('ConcatenateLSBF', 'C08', _cat('ConcatenateLSBF'), lambda c, v: [catm(c[0][::-1], v[::-1])], _CATS_Q, _CATS_T)


def b_rep(parent, cfg, mk):
    A = mk('a', 1); R = mk('r', cfg[0])
    P().Repeat(parent, 'd', A, R)
    return [A], [R]


add('Repeat', 'C08', b_rep, lambda c, v: [((1 << c[0]) - 1) if v[0] else 0], [(1,), (2,), (5,), (8,), (32,)], _W1_T)


def b_be(parent, cfg, mk):
    w = cfg[0]
    A = mk('a', w); E = mk('e', 1); R = mk('r', w)
    P().BufEnable(parent, 'd', A, E, R)
    return [A, E], [R]


add('BufEnable', 'C08', b_be, lambda c, v: [v[0] if v[1] else 0], [(1,), (2,), (5,), (8,), (32,)], _W1_T)


def b_m2(parent, cfg, mk):
    w, sw = cfg
    S = mk('s', sw); A = mk('a', w); B = mk('b', w); R = mk('r', w)
    P().Mux2(parent, 'd', S, A, B, R)
    return [S, A, B], [R]


# Mux2: "Only the LSB of the select signal is considered; higher bits are ignored" (select wires wider than one bit: see the
# wide_control class below)
add('Mux2', 'C08', b_m2, lambda c, v: [v[2] if v[0] & 1 else v[1]], [(1, 1), (3, 1), (8, 1), (32, 1)], [(w, 1) for w in GRID + SPOT])


def b_const(parent, cfg, mk):
    w, k = cfg
    R = mk('r', w)
    P().Constant(parent, 'd', k, R)
    return [], [R]


add('Constant', 'C08', b_const, lambda c, v: [c[1]], [(1, 0), (1, 1), (4, 9), (8, 255), (8, 300), (8, -2), (32, 0xdeadbeef)],
    [(1, 0), (1, 1), (4, 9), (8, 255), (8, 300), (8, -2), (32, 0xdeadbeef), (64, -1), (3, 1 << 70), (33, -(1 << 40))], tags=('noinput',))


# --------------------------------------------------------------------------- input enumeration

# --------------------------------------------------------------------------- sizes beyond a machine word
# Python integers are unbounded but floats, numpy scalars, struct formats and Verilog literals are not: every block also runs at
# 64 bits, just above (65) and well above (100) -- beyond the 53 bits a double holds -- in both tiers.
def extend(names, cfgs, quick=True, cls=None, range_only=False):
    for n in names if isinstance(names, (list, tuple)) else [names]:
        e = by_name(n)
        for c in cfgs:
            if cls:
                CLASSES.setdefault(cls, {}).setdefault(n, [])
                if c not in CLASSES[cls][n]:
                    CLASSES[cls][n].append(c)
                if c not in e.keep:
                    e.keep.append(c)
            if range_only:
                if c not in e.range_only:
                    e.range_only.append(c)
                continue
            if quick and c not in e.quick:
                e.quick.append(c)
            if c not in e.thorough:
                e.thorough.append(c)


_TW = [(65, 65, 65), (100, 100, 100), (100, 64, 128), (72, 72, 144), (64, 100, 100)]
extend(['Sub', 'Mul', 'SignedMul', 'Div', 'Mod', 'AddCarryIn', 'SubBorrowIn'], _TW)
extend(['SignedAdd', 'SignedSub'], [t for t in _TW if t[2] >= t[0] and t[2] >= t[1]])
extend('Add', [(a, b, r, ci, co) for a, b, r in _TW for ci, co in ((0, 0), (1, 1))])
extend('Add', [(a, b, r, ci, co) for a, b, r in [(1, 1, 1), (3, 3, 4), (8, 8, 8), (8, 8, 9), (4, 2, 6)] for ci in (2, 3) for co in (0, 1)])
extend(['AddCarryIn'], [(a, b, r, ci) for a, b, r in [(1, 1, 1), (3, 3, 4), (8, 8, 8), (8, 8, 9)] for ci in (2, 3)])
extend('SignedDiv', [(64, 64, 64), (65, 65, 65), (100, 100, 100), (100, 64, 100)])
extend(['Neg', 'Abs', 'Abs+inverted', 'SignExtend', 'ZeroExtend'], [(65, 65), (100, 100), (64, 100), (100, 64), (1, 100), (54, 54)])
extend('Sign', [(65,), (100,)])
extend(['ShiftLeftConstant', 'ShiftRightConstant'], [(64, 0, 64), (64, 1, 64), (64, 63, 64), (100, 1, 100), (100, 64, 100), (100, 99, 100), (65, 33, 70)])
extend(['RotateLeftConstant', 'RotateRightConstant'], [(64, 1, 64), (64, 63, 64), (100, 1, 100), (100, 64, 100), (65, 33, 65)])
extend(['ShiftLeft', 'ShiftRight', 'ShiftRight(arith=True)', 'ShiftRight(arith=wire)'], [(64, 6, 64), (64, 7, 64), (100, 7, 100), (65, 7, 65)])
extend(['RotateLeft', 'RotateRight'], [(32, 5, 32), (64, 6, 64), (100, 7, 100)])
extend('CountLeadingZeros', [(64, 7)])
extend('CountLeadingZeros', [(65, 7), (100, 7)], quick=False)     # building the 100-bit tree takes seconds
extend('BinaryToBCD', [(16, 20), (32, 40), (64, 80)])
extend(['And', 'Or', 'Xor', 'Nor'], [(2, 64), (3, 65), (2, 100), (9, 3), (12, 1)])
extend(['And2', 'Or2', 'Xor2', 'Nand2', 'Nor2'], [(64,), (65,), (100,)])
extend(['Not', 'Buf'], [(64, 64), (65, 65), (100, 100)])
extend(['AndBits', 'OrBits'], [(32,), (64,), (65,), (100,)])
extend(['Mux', 'Demux'], [(1, 64), (2, 65), (1, 100), (4, 2), (5, 1), (6, 1)])
extend(['Demux'], [(7, 1)])
extend(['OneHotMux', 'Select', 'OneHotDemux'], [(2, 64), (3, 65), (2, 100), (9, 2)])
extend('SelectDefault', [(2, 64), (2, 100), (9, 2)])
extend(['Swap', 'Equal', 'Comparator', 'ComparatorSignedUnsigned', 'Max2', 'Min2', 'SignedMax2', 'SignedMin2', 'Repeat', 'BufEnable'], [(64,), (65,), (100,)])
extend(['EqualConstant', 'NotEqualConstant'], [(64, (1 << 64) - 1), (64, 0), (65, 1 << 64), (100, (1 << 99) + 1), (64, 0x9E3779B97F4A7C15)])
extend('AnyEqual', [(2, 64), (3, 65), (2, 100), (9, 2)])
extend('Bit', [(65, 64), (100, 99), (100, 53), (100, 0)])
extend('Range', [(100, 99, 0), (100, 99, 36), (65, 64, 1), (100, 63, 0), (100, 99, 64)])
extend(['BitsLSBF', 'BitsMSBF'], [(32,), (64,), (65,)])
extend(['ConcatenateMSBF', 'ConcatenateLSBF'], [((32, 32), 64), ((33, 32), 65), ((50, 50), 100), ((1, 64), 65), ((64, 64), 128), ((1,) * 9, 9)])
extend('Mux2', [(64, 1), (65, 1), (100, 1)])
extend('Constant', [(64, (1 << 64) - 1), (65, 1 << 64), (100, (1 << 99) + 12345), (64, -1), (64, 0x9E3779B97F4A7C15)])
extend(['PriorityEncoder(inc=True)', 'PriorityEncoder(inc=False)'], [(9,), (17,), (33,), (2, 3), (3, 2), (4, 4), (2, 8)])


# --------------------------------------------------------------------------- control wires wider than one bit
# Every selector / gate whose control port is documented or used as one bit, handed a control WIRE of 2, 3 and 5 bits where the
# constructor accepts one (BufEnable, Select, OneHotMux and OneHotDemux refuse it: Repeat demands a 1-bit input). The reference
# follows the documentation: Mux2 looks at the LSB only; Swap and SelectDefault define the control values 0 and 1 only, other
# values are outside the documented domain and are not judged.
_CW = (2, 3, 5)


def b_sd_wide(parent, cfg, mk):
    n, w, sw = cfg
    sels = [mk('s%d' % j, sw) for j in range(n)]
    ins = [mk('i%d' % j, w) for j in range(n)]
    D = mk('df', w); R = mk('r', w)
    P().SelectDefault(parent, 'd', sels, ins, D, R)
    return sels + ins + [D], [R]


_SDW = [(n, w, sw) for n, w in [(1, 2), (2, 1), (2, 8), (3, 1)] for sw in _CW if n * sw + (n + 1) * w <= 12 or w == 8]
add('SelectDefault(wide selects)', 'C08', b_sd_wide, lambda c, v: [next((v[c[0] + j] for j in range(c[0]) if v[j]), v[2 * c[0]])],
    _SDW, _SDW + [(4, 2, 2), (3, 16, 3)], domain=lambda c, v: sum(v[:c[0]]) <= 1)
extend('SelectDefault(wide selects)', by_name('SelectDefault(wide selects)').thorough, quick=False, cls='wide_control')
extend('SelectDefault(wide selects)', _SDW, cls='wide_control')
extend('Mux2', [(w, sw) for w in (1, 2, 3, 8, 32) for sw in _CW], cls='wide_control')
extend('Mux2', [(w, sw) for w in (5, 16, 64, 65) for sw in _CW + (8, 33)], quick=False, cls='wide_control')
extend('Swap', [(w, sw) for w in (1, 2, 8) for sw in _CW], cls='wide_control')
extend('Swap', [(w, sw) for w in (3, 4, 32, 65) for sw in _CW + (8,)], quick=False, cls='wide_control')
CONTROL_PINS['Mux2'] = lambda c: [0]
CONTROL_PINS['Swap'] = lambda c: [2]
CONTROL_PINS['SelectDefault(wide selects)'] = lambda c: list(range(c[0]))


# --------------------------------------------------------------------------- constant parameters at their boundaries
# Blocks with a constant parameter: the boundary family of the parameter {0, 1, w-1, w, w+1, 2w, 3w} (as far as the constructor and the
# evaluation accept it) crossed with result wires narrower than / equal to / wider than the natural width. Inputs: the sweeps drive
# all-ones and MSB-only vectors (exhaustive below 12 bits, boundary values above; C06: extreme_vectors).
#  - Shift*Constant accept every n >= 0 (grid above: _shc_grid).
#  - Rotate*Constant accept 0 <= n <= w (n > w raises "negative shift count" in propagate on the pinned tree: not a legal configuration).
#    A rotation by 0 or by the width is the identity; into a narrower result wire the value is reduced mod 2**(result width). Into a
#    WIDER result wire the blocks leave the bits shifted out of the operand in place (no documentation defines that): range_only.
def _rot_family(ws, wider=False):
    out = []
    for a in ws:
        for n in sorted({0, 1, max(0, a - 1), a}):
            rs = {a + 1, a + 3} if wider else {1, max(1, a // 2), max(1, a - 1), a}
            for r in sorted(rs):
                out.append((a, n, r))
    return out


_ROTN = ['RotateLeftConstant', 'RotateRightConstant']
extend(_ROTN, _rot_family([1, 2, 3, 4, 8, 32, 65]), cls='param_boundary')
extend(_ROTN, _rot_family(GRID + SPOT + [100]), quick=False, cls='param_boundary')
extend(_ROTN, _rot_family([1, 3, 8, 32], wider=True), cls='param_boundary', range_only=True)
_SHN = ['ShiftLeftConstant', 'ShiftRightConstant']
extend(_SHN, [c for c in _shc_grid([1, 3, 4, 8, 32]) if c[1] in (0, c[0], 2 * c[0], 3 * c[0])], cls='param_boundary')
# Range bounds at the ends of the operand (whole wire, top bit, bottom bit) with narrower / equal / wider result wires
extend('Range', [(w, h, l, r) for w in (1, 3, 8, 32) for h, l in ((w - 1, 0), (w - 1, w - 1), (0, 0), (w - 1, w // 2))
                 for r in sorted({1, max(1, h - l), h - l + 1, h - l + 3})], cls='param_boundary')
# Constant values around the capacity of the wire
extend('Constant', [(w, k) for w in (1, 4, 8, 64) for k in (0, 1, (1 << w) - 1, 1 << w, (1 << w) + 1, 2 << w, 3 << w, -1, -(1 << w), -(1 << w) - 1)],
       cls='param_boundary')
# Repeat counts (the count is the result width) around a machine word
extend('Repeat', [(w,) for w in (1, 2, 3, 31, 32, 33, 63, 64, 65)], cls='param_boundary')


def input_cases(widths, rnd, exhaustive_bits, max_cases, n_random):
    """Exhaustive when the total input width is small, else boundary x boundary (capped, strided) + random."""
    tot = sum(widths)
    if not widths:
        return [()], True
    if tot <= exhaustive_bits:
        return itertools.product(*[range(1 << w) for w in widths]), True
    sets = [boundary_values(w, rnd, 3) for w in widths]
    total = functools.reduce(operator.mul, [len(s) for s in sets], 1)
    cases = []
    if total <= max_cases:
        cases = list(itertools.product(*sets))
    else:
        for _ in range(max_cases):
            cases.append(tuple(rnd.choice(s) for s in sets))
    for _ in range(n_random):
        cases.append(tuple(rnd.getrandbits(w) for w in widths))
    return cases, False
