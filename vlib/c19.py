"""C19 -- Verilog generation is a pure, repeatable function of the circuit (DESIGN.md section 4 C19).

Call-history monitor: random sequences of generation requests (same / fresh generator, whole hierarchy / single module /
sub-object, with a createdStructures list), simulation steps and late structural additions over 1-3 live circuits and
their never-generated twins.  Oracles: (a) purity -- a deep structural snapshot of the circuit is identical before and
after every generation call and the twin that never saw a generator simulates identically; (b) repeatability -- all
texts for one (circuit, root) are equal after normalising instance-unique suffixes and declaration order, also equal to
the text of the twin; (c) ancestor independence -- getVerilog(sub) is the same from every ancestor's generator.
"""
import re
import time

from . import cosim, dutgen
from .common import muted, rng, shard_slice, stable_hash, run_dir

LEVEL = 'exploration'
RULE = ('histories = random sequences of 12 (quick) / 40 (thorough) operations {hierarchy generation with the same or a fresh generator, '
        'for the top or a sub-object, with a createdStructures list; single-module getVerilog from the object and from each ancestor; clk(k) '
        'with random inputs; adding a block to the live circuit; generation for another circuit in between} over 1-3 random circuits and '
        'their twins; plus behavioural histories (vlib/c19_beh.py): 2-3 circuits instantiating one generated behavioural (transpiled) class with '
        'different constructor constants and state initialisers of every accepted kind (int 0, int n, True, False), clk steps interleaved with '
        'generation requests for the circuits in random order (generation in mid-run), every attribute of the block compared before/after each '
        'request, outputs and state compared with a twin after every clock, each distinct text co-simulated from power-up against a fresh '
        'instance with that circuit\'s constants; non-trivial = history with >= 2 generation calls on one circuit separated by a simulation step, an addition or a '
        'generation for another circuit; distinct by hash of (plans, operation list)')
SHARDS = {'quick': 1, 'thorough': 16}
TIMEOUT = {'quick': 900, 'thorough': 3300}
MIN_NONTRIVIAL = {'quick': 40, 'thorough': 800}

# the simulator documents division/modulo by zero as random: twins would differ for that reason alone
NONDET = ('Div', 'Mod', 'SignedDiv')
_HEX = re.compile(r'_[0-9a-f]{9,16}\b')


def normalise(text):
    """instance-unique suffixes -> _ID; local wire declaration blocks sorted per module."""
    t = _HEX.sub('_ID', text)
    out = []
    block = []
    for line in t.splitlines():
        if re.match(r'\s*wire\b[^=]*;\s*$', line):
            block.append(line.strip())
            continue
        if block:
            out.extend(sorted(block))
            block = []
        out.append(line.rstrip())
    if block:
        out.extend(sorted(block))
    return '\n'.join(out)


def snapshot(root, Wire):
    """Deep structural snapshot of a circuit: everything generation could conceivably touch."""
    seen_w = {}

    def wid(w):
        if w is None:
            return None
        if id(w) not in seen_w:
            seen_w[id(w)] = len(seen_w)
        return seen_w[id(w)]

    def wire_state(w):
        if w is None:
            return None
        src = getattr(w, 'source', None)
        return (w.name, getattr(w, 'width', None), getattr(w, 'value', None), id(src) if src is not None else None,
                tuple(id(s) for s in getattr(w, 'sinks', ())), id(getattr(w, 'parent', None)), sorted(k for k in vars(w).keys()))

    def obj_state(o):
        attrs = {}
        for k, v in vars(o).items():
            if k in ('children', '_wires', 'inPorts', 'outPorts', 'inOutPorts', 'parent', 'sources', 'sinks', 'simulator'):
                continue
            if isinstance(v, (int, str, bool, float, type(None))):
                attrs[k] = v
            elif isinstance(v, (list, tuple)) and all(isinstance(x, (int, str, bool)) for x in v):
                attrs[k] = tuple(v)
            elif isinstance(v, dict):
                # contents, not only identity: values that are objects (a Parameter reference, an emitter) by type and identity
                attrs[k] = tuple(sorted((str(kk), vv if isinstance(vv, (int, str, bool, float, type(None))) else ('obj', type(vv).__name__, id(vv)))
                                        for kk, vv in v.items()))
            elif isinstance(v, list):
                attrs[k] = tuple(x if isinstance(x, (int, str, bool, float, type(None))) else ('obj', type(x).__name__, id(x)) for x in v)
            else:
                attrs[k] = ('obj', type(v).__name__, id(v))
        ports = tuple((type(p).__name__, p.name, wire_state(p.wire), id(p.wire)) for p in list(o.inPorts) + list(o.outPorts) + list(o.inOutPorts))
        wires = tuple((n, wire_state(w), id(w)) for n, w in o._wires.items())
        kids = tuple((n, id(c), obj_state(c)) for n, c in o.children.items())
        return (type(o).__name__, o.name, tuple(sorted(attrs.items(), key=lambda x: x[0])), ports, wires, kids, id(o.clockDriver) if o.clockDriver is not None else None)

    return (obj_state(root), len(Wire.prepared))


def first_diff(a, b, path='root'):
    if type(a) != type(b):
        return '%s: %r vs %r' % (path, a, b)
    if isinstance(a, tuple):
        if len(a) != len(b):
            return '%s: length %d vs %d' % (path, len(a), len(b))
        for i, (x, y) in enumerate(zip(a, b)):
            d = first_diff(x, y, '%s[%d]' % (path, i))
            if d:
                return d
        return None
    if a != b:
        return '%s: %r vs %r' % (path, a, b)
    return None


class Circuit:
    def __init__(self, plan):
        self.plan = plan
        plan['_domains'] = dutgen.has_clock_domains(plan['scope'])
        self.live = dutgen.instantiate(plan)      # sees generators
        self.twin = dutgen.instantiate(plan)      # never sees a generator
        self.texts = {}                           # root key -> list of (how, normalised text, raw text)
        self.gen = None
        self.added = 0
        self.gens_since_change = 0
        self.shared = None
        self.shared_snapshot = None

    def subobjects(self):
        import py4hw
        g = py4hw.VerilogGenerator(self.live.dut)
        out = []

        def walk(o, path):
            for n, c in o.children.items():
                if not g.isInlinable(c):
                    out.append((path + '/' + n, c))
                    walk(c, path + '/' + n)
        walk(self.live.dut, '')
        return out


def add_param_block(design):
    """A structural block that hands its own parameter down to a library block (the child's parameter is a reference to the parent's)."""
    import py4hw
    hw, dut = design.hw, design.dut
    src = design.ins[0] if design.ins else design.outs[0]
    w = src.getWidth()
    o = hw.wire('pshift', w)

    class PShift(py4hw.Logic):
        def __init__(self, parent, name, a, r, n):
            super().__init__(parent, name)
            self.addIn('a', a)
            self.addOut('r', r)
            self.addParameter('n', n)
            t = self.wire('t', a.getWidth())
            py4hw.ShiftLeftConstant(self, 'sl', a, self.getParameter('n'), t)
            py4hw.ShiftRightConstant(self, 'sr', t, self.getParameter('n'), r)
    PShift(dut, 'pshift', src, o, 1 + w % 3)
    dut.addOut(o.name, o)
    design.outs.append(o)


def add_block(design, k):
    """Late structural addition, applied identically to live and twin circuits."""
    import py4hw
    hw, dut = design.hw, design.dut
    src = design.ins[0] if design.ins else design.outs[0]
    w = hw.wire('late%d' % k, src.getWidth())
    t = dut.wire('latet%d' % k, src.getWidth())
    py4hw.Not(dut, 'late_n%d' % k, src, t)
    py4hw.Reg(dut, 'late_r%d' % k, t, w)
    dut.addOut(w.name, w)
    design.outs.append(w)
    if hw.simulator is not None:
        hw.getSimulator()        # documented way to refresh an existing simulator


def customise_generator(gx, dut, rnd):
    """Edit the emitter tables of generator gx the way a user who wants different text for some class does, then use it."""
    import py4hw
    present = []

    def walk(o):
        for ch in o.children.values():
            present.append(type(ch))
            walk(ch)
    walk(dut)
    inl = [t for t in present if t in gx.inlinablePrimitives]
    prim = [t for t in present if t not in gx.inlinablePrimitives and t not in gx.providingBody]
    kind = rnd.choice(['override', 'override', 'delete', 'add', 'body'])
    if kind == 'override' and inl:
        t = rnd.choice(inl)
        orig = gx.inlinablePrimitives[t]
        gx.inlinablePrimitives[t] = lambda obj, orig=orig: '// user emitter\n' + orig(obj)
    elif kind == 'delete' and inl:
        del gx.inlinablePrimitives[rnd.choice(inl)]
    elif kind == 'add' and prim:
        t = rnd.choice(prim)
        gx.inlinablePrimitives[t] = lambda obj: '// user inlined %s\n' % obj.name
    else:
        orig = gx.providingBody[py4hw.Reg]
        gx.providingBody[py4hw.Reg] = lambda obj, orig=orig: '// user body\n' + orig(obj)
    try:
        gx.getVerilogForHierarchy()
    except Exception:
        pass


def run_history(run, seed, idx, n_ops, case_sink):
    import py4hw
    from py4hw.base import Wire
    rnd = rng(seed, 'c19', idx)
    ncirc = rnd.choice([1, 1, 2, 3])
    circuits = []
    plans = []
    for c in range(ncirc):
        g = dutgen.Gen(rng(seed, 'c19-plan', idx, c), max_width=rnd.choice([8, 16]), exclude=NONDET, clock_domains=(idx % 4 == 3))
        plan = g.plan(n_nodes=rnd.randint(3, 10), depth=rnd.randint(0, 2))
        plans.append(plan)
        try:
            circuits.append(Circuit(plan))
            if idx % 5 == 2:
                with muted():
                    add_param_block(circuits[-1].live)
                    add_param_block(circuits[-1].twin)
                run.count('circuits_with_forwarded_parameters')
        except Exception:
            run.count('build_failed')
            return
    ops = []
    case = dict(workload='history', plans=plans, ops=ops)
    nontrivial = False
    last_touch = {}           # circuit index -> what happened since its last generation
    for step in range(n_ops):
        ci = rnd.randrange(ncirc)
        c = circuits[ci]
        op = rnd.choice(['hier_same', 'hier_fresh', 'hier_fresh', 'hier_sub', 'hier_created', 'module_self', 'module_ancestor', 'module_top', 'clk', 'clk', 'add',
                         'customise', 'burst', 'hier_shared_list'])
        if c.plan.get('_domains') and rnd.random() < 0.25:
            op = 'module_domain'
        if last_touch.get(ci) == 'add' and rnd.random() < 0.6:
            op = rnd.choice(['hier_same', 'hier_fresh'])      # regenerate right after a structural change
        if op == 'add' and ops and ops[-1][1] not in ('module_top',) and rnd.random() < 0.5:
            ops.append([ci, 'module_top'])                    # single-module request for the top just before changing it
            run.count('op_module_top')
            try:
                b0 = snapshot(c.live.dut, Wire)
                with muted():
                    t0 = py4hw.VerilogGenerator(c.live.dut).getVerilog()
                if first_diff(b0, snapshot(c.live.dut, Wire)) is not None:
                    run.violation('generation_mutates_circuit', dict(clause='purity', op='module_top'), dict(case, step=step), what='history %d step %d' % (idx, step))
                    return
            except Exception:
                pass
        if op == 'add' and c.added >= 2:
            op = 'clk'
        ops.append([ci, op])
        run.count('op_' + op)
        try:
            if op == 'clk':
                n = rnd.randint(1, 3)
                for _ in range(n):
                    vec = {w.name: rnd.getrandbits(w.getWidth()) for w in c.live.ins}
                    for d in (c.live, c.twin):
                        for w in d.ins:
                            w.put(vec[w.name])
                        with muted():
                            d.hw.getSimulator().clk(1)
                    a = [w.get() for w in c.live.outs]
                    b = [w.get() for w in c.twin.outs]
                    run.ev()
                    run.count('trace_comparisons')
                    if a != b:
                        run.violation('simulation_changed_by_generation', dict(clause='purity'), dict(case, step=step, live=a, twin=b),
                                      what='history %d step %d: circuit that was generated from simulates differently from its twin' % (idx, step))
                        return
                last_touch[ci] = 'clk'
                continue
            if op == 'burst':
                # one long-lived generator object asked again and again (a build script regenerating after every edit): every answer
                # is the same text, however many requests came before
                if c.gen is None:
                    c.gen = py4hw.VerilogGenerator(c.live.dut)
                before = snapshot(c.live.dut, Wire)
                n = rnd.choice([20, 70, 70, 130])
                first = None
                for k in range(n):
                    try:
                        with muted():
                            t = normalise(c.gen.getVerilogForHierarchy())
                    except Exception as e:
                        if k == 0:
                            raise
                        run.violation('generation_fails_after_history', dict(clause='repeatability', op='burst'),
                                      dict(case, step=step, request=k, error=repr(e)[:300]),
                                      what='history %d step %d: request %d of a burst on one generator raised %r after %d identical answers' % (idx, step, k, e, k))
                        return
                    run.ev()
                    run.count('generation_calls')
                    if first is None:
                        first = t
                    elif t != first:
                        run.violation('generation_not_repeatable', dict(clause='repeatability', first='hier_same', second='burst'),
                                      dict(case, step=step, request=k, key='top'), what='history %d step %d: request %d of a burst differs from the first' % (idx, step, k))
                        return
                    run.count('text_comparisons')
                prev = c.texts.setdefault('top', [])
                if prev and prev[0][1] != first:
                    run.violation('generation_not_repeatable', dict(clause='repeatability', first=prev[0][0], second='burst'),
                                  dict(case, step=step, key='top'), what='history %d step %d: burst text differs from the earlier %s text' % (idx, step, prev[0][0]))
                    return
                prev.append(('burst', first, ''))
                d = first_diff(before, snapshot(c.live.dut, Wire))
                if d is not None:
                    run.violation('generation_mutates_circuit', dict(clause='purity', op='burst'), dict(case, step=step, diff=d),
                                  what='history %d step %d (burst): circuit snapshot changed: %s' % (idx, step, d[:160]))
                    return
                nontrivial = True
                last_touch[ci] = 'gen'
                continue
            if op == 'module_domain':
                # a block inside a secondary clock domain: its module text from a generator built on the top, on the owner of the
                # domain and on the block itself
                root_drv = py4hw.getObjectClockDriver(c.live.dut)
                inside = [(pth, o) for pth, o in c.subobjects() if py4hw.getObjectClockDriver(o) is not root_drv]
                if not inside:
                    ops[-1][1] = 'clk_skip'
                    continue
                pth, obj = rnd.choice(inside)
                owner = obj
                while getattr(owner, 'clockDriver', None) is None and owner.parent is not None:
                    owner = owner.parent
                before = snapshot(c.live.dut, Wire)
                texts = []
                for label, root in (('top', c.live.dut), ('domain owner', owner), ('itself', obj)):
                    try:
                        with muted():
                            texts.append((label, normalise(py4hw.VerilogGenerator(root).getVerilog(obj))))
                    except Exception as e:
                        texts.append((label, 'raised %s' % type(e).__name__))
                run.ev()
                run.count('generation_calls', 3)
                run.count('domain_module_comparisons')
                if len(set(t for _, t in texts)) > 1:
                    run.violation('generation_not_repeatable', dict(clause='ancestor_independence', first='top', second='domain'),
                                  dict(case, step=step, key='mod:' + pth, texts=[(l, t[:1500]) for l, t in texts]),
                                  what='history %d step %d: module text of %s (inside a secondary clock domain) depends on where the request is made from' % (idx, step, pth))
                    return
                d = first_diff(before, snapshot(c.live.dut, Wire))
                if d is not None:
                    run.violation('generation_mutates_circuit', dict(clause='purity', op=op), dict(case, step=step, diff=d),
                                  what='history %d step %d (%s): circuit snapshot changed: %s' % (idx, step, op, d[:160]))
                    return
                nontrivial = True
                continue
            if op == 'customise':
                # another user's generator object, customised through its own emitter tables (and used): private to that object,
                # so every other generator -- existing or created later -- still describes the design the same way
                with muted():
                    customise_generator(py4hw.VerilogGenerator(c.live.dut), c.live.dut, rnd)
                run.count('customised_generators')
                for cj in range(ncirc):
                    if last_touch.get(cj) == 'gen':
                        last_touch[cj] = 'other'
                continue
            if op == 'add':
                with muted():
                    add_block(c.live, c.added)
                    add_block(c.twin, c.added)
                c.added += 1
                c.texts.clear()          # the circuit changed: earlier texts describe the old design
                c.shared = None
                last_touch[ci] = 'add'
                continue
            # ---- generation operations
            before = snapshot(c.live.dut, Wire)
            key = None
            how = op
            with muted():
                if op == 'hier_same':
                    if c.gen is None:
                        c.gen = py4hw.VerilogGenerator(c.live.dut)
                    text = c.gen.getVerilogForHierarchy()
                    key = 'top'
                elif op == 'hier_fresh':
                    text = py4hw.VerilogGenerator(c.live.dut).getVerilogForHierarchy()
                    key = 'top'
                elif op == 'hier_shared_list':
                    # the caller keeps one createdStructures list (as for a multi-file project) and hands it to a long-lived generator
                    if c.gen is None:
                        c.gen = py4hw.VerilogGenerator(c.live.dut)
                    c.shared = []
                    text = c.gen.getVerilogForHierarchy(createdStructures=c.shared)
                    c.shared_snapshot = list(c.shared)
                    key = 'top'
                elif op == 'hier_created':
                    text = py4hw.VerilogGenerator(c.live.dut).getVerilogForHierarchy(createdStructures=[])
                    key = 'top'
                elif op == 'hier_sub':
                    subs = c.subobjects()
                    if not subs:
                        ops[-1][1] = 'hier_fresh'
                        text = py4hw.VerilogGenerator(c.live.dut).getVerilogForHierarchy()
                        key = 'top'
                    else:
                        path, obj = rnd.choice(subs)
                        if c.gen is not None and rnd.random() < 0.4:
                            gen = c.gen      # the long-lived generator of this circuit also serves requests for sub-blocks as tops
                        else:
                            gen = rnd.choice([lambda: py4hw.VerilogGenerator(c.live.dut), lambda: py4hw.VerilogGenerator(obj)])()
                        text = gen.getVerilogForHierarchy(obj)
                        key = 'hier:' + path
                elif op == 'module_top':
                    text = py4hw.VerilogGenerator(c.live.dut).getVerilog()
                    key = 'mod:'
                elif op in ('module_self', 'module_ancestor'):
                    subs = c.subobjects()
                    if not subs:
                        text = py4hw.VerilogGenerator(c.live.dut).getVerilog()
                        key = 'mod:'
                    else:
                        path, obj = rnd.choice(subs)
                        if op == 'module_self':
                            text = py4hw.VerilogGenerator(obj).getVerilog()
                        else:
                            anc = []
                            o = obj.parent
                            while o is not None and not isinstance(o, py4hw.HWSystem):
                                anc.append(o)
                                o = o.parent
                            a = rnd.choice(anc) if anc else obj
                            g2 = c.gen if (c.gen is not None and rnd.random() < 0.3) else py4hw.VerilogGenerator(a)
                            text = g2.getVerilog(obj)
                        key = 'mod:' + path
            after = snapshot(c.live.dut, Wire)
            run.ev()
            run.count('generation_calls')
            if op != 'hier_shared_list' and getattr(c, 'shared', None) is not None:
                run.count('caller_list_checks')
                if c.shared != c.shared_snapshot:
                    run.violation('caller_list_modified_by_later_request', dict(clause='purity', op=op),
                                  dict(case, step=step, before=c.shared_snapshot[:20], after=c.shared[:20]),
                                  what='history %d step %d (%s): the createdStructures list of an earlier request was modified by a request that did not get it' % (idx, step, op))
                    return
            d = first_diff(before, after)
            if d is not None:
                run.violation('generation_mutates_circuit', dict(clause='purity', op=op), dict(case, step=step, diff=d),
                              what='history %d step %d (%s): circuit snapshot changed: %s' % (idx, step, op, d[:160]))
                return
            norm = normalise(text)
            prev = c.texts.setdefault(key, [])
            if prev:
                run.count('text_comparisons')
                if last_touch.get(ci) in ('clk', 'add', 'other'):
                    nontrivial = True
                if prev[0][1] != norm:
                    run.violation('generation_not_repeatable', dict(clause='repeatability' if key in ('top',) or key.startswith('hier') else 'ancestor_independence',
                                                                    first=prev[0][0], second=how),
                                  dict(case, step=step, key=key, first_text=prev[0][2][:3000], second_text=text[:3000]),
                                  what='history %d step %d: %s text for %s differs from the earlier %s text' % (idx, step, how, key, prev[0][0]))
                    return
            prev.append((how, norm, text))
            last_touch[ci] = 'gen'
            for cj in range(ncirc):
                if cj != ci and last_touch.get(cj) == 'gen':
                    last_touch[cj] = 'other'
        except Exception as e:
            run.count('refused_or_error')
            run.extra.setdefault('errors', [])
            if len(run.extra['errors']) < 6:
                run.extra['errors'].append(('%s: %r' % (op, e))[:200])
            last_touch[ci] = 'clk'
            if op in ('clk', 'add'):
                continue
            # generation raised on the live circuit: a design the generator legitimately refuses is refused for a fresh copy too;
            # if a fresh copy of the same circuit generates fine, the failure is an effect of the history (stale state)
            try:
                fresh = dutgen.instantiate(c.plan)
                with muted():
                    for k in range(c.added):
                        add_block(fresh, k)
                    py4hw.VerilogGenerator(fresh.dut).getVerilogForHierarchy()
                fresh_ok = True
            except Exception:
                fresh_ok = False
            if fresh_ok:
                run.violation('generation_fails_after_history', dict(clause='repeatability', op=op), dict(case, step=step, error=repr(e)[:300]),
                              what='history %d step %d (%s): generation raised %r although a fresh copy of the same circuit generates' % (idx, step, op, e))
                return
            run.count('refused_also_when_fresh')
            continue
    # twin text: a circuit never touched by a generator until now must give the same (normalised) hierarchy text
    for ci, c in enumerate(circuits):
        if 'top' in c.texts:
            try:
                with muted():
                    t2 = py4hw.VerilogGenerator(c.twin.dut).getVerilogForHierarchy()
            except Exception:
                continue
            run.count('twin_text_comparisons')
            run.ev()
            if normalise(t2) != c.texts['top'][0][1]:
                run.violation('generation_not_repeatable', dict(clause='twin', first=c.texts['top'][0][0], second='twin'),
                              dict(case, key='top', first_text=c.texts['top'][0][2][:3000], second_text=t2[:3000]),
                              what='history %d: twin circuit gives a different text' % idx)
                return
    if nontrivial:
        run.nt(stable_hash([plans, ops]))
    if idx % 37 == 0:
        run.sample(dict(history=idx, circuits=ncirc, ops=ops, texts={k: len(v) for k, v in circuits[0].texts.items()}))


def run_check(run, tier, seed, shard):
    quick = tier == 'quick'
    deadline = time.time() + (700 if quick else 3000)
    run.assume('"same design" = identical text after replacing instance-unique hex suffixes and sorting contiguous local wire declarations')
    n = 250 if quick else 10000
    n_ops = 12 if quick else 40
    for idx in shard_slice(range(n), shard):
        if time.time() > deadline or run.too_many:
            break
        run.count('histories')
        run_history(run, seed, idx, n_ops, None)
    # behavioural (transpiled) blocks with constructor constants and every kind of state initialiser: several circuits of one class
    # alive in the process, generation interleaved between them and requested in mid-run (vlib/c19_beh.py)
    from . import c19_beh
    with run_dir() as d:
        c19_beh.run_all(run, d, seed, [i for i in shard_slice(range(90 if quick else 4000), shard) if time.time() < deadline], 10 if quick else 24)
    if run.counters.get('text_comparisons', 0) == 0 or run.counters.get('trace_comparisons', 0) == 0:
        run.inconclusive.append('no text or trace comparison was made')
    if time.time() > deadline:
        run.inconclusive.append('watchdog reached before the workload finished')


def replay(run, case):
    print('replay: re-run ./check C19 with the recorded VERIF_SEED=%s (histories are regenerated from the seed)' % case.get('seed'))
    return 0
