"""C11 reduced pass in a child interpreter started with -O (PYTHONOPTIMIZE=1): refusals must not depend on the interpreter mode.

  python -O -m vlib.c11opt <job.json> <out.json>

job = {'seed', 'tier', 'n_plans', 'n_blocks'} or {'replay': case}.  Plans and integrity cases are regenerated here from the seed
(deterministic), executed with the same reference model as the main pass; only failing cases travel back in full.
"""
import json
import os
import sys


def main():
    job, outp = sys.argv[1], sys.argv[2]
    sys.path.insert(0, os.path.dirname(os.path.dirname(os.path.abspath(__file__))))
    from vlib import common
    spec = json.load(open(job))
    out = dict(optimize=sys.flags.optimize, seq=[], integ=[])
    try:
        common.import_py4hw()
    except BaseException as e:
        out['import_failed'] = repr(e)[:300]
        json.dump(out, open(outp, 'w'))
        return 0
    from vlib import c11seq, c11gen, c11integ, catalog, netblocks
    from vlib.common import rng
    if 'replay' in spec:
        c = spec['replay']
        out['replay'] = c11seq.run_plan(c['plan']) if c.get('monitor') == 'seq' else (
            c11integ.run_history(c) if c.get('monitor') == 'integrity_history' else c11integ.run_case(c))
        json.dump(out, open(outp, 'w'), default=repr)
        return 0
    seed, tier = spec['seed'], spec['tier']
    pool = c11gen.block_pool('quick')
    for i in range(spec['n_plans']):
        kind = c11gen.KINDS[i % len(c11gen.KINDS)]
        faulty = (i // len(c11gen.KINDS)) % 5 != 4
        mp = c11gen.make_plan(rng(seed, 'C11opt', i), pool, kind, faulty)
        if mp is None:
            out['seq'].append(dict(i=i, kind=kind, faulty=faulty, discarded=True))
            continue
        plan, nf = mp
        res = c11seq.run_plan(plan)
        rec = dict(i=i, kind=kind, faulty=faulty, res=res)
        if res['outcome'] != 'ok':
            rec['plan'] = plan
        out['seq'].append(rec)
    blocks = [('catalog', e) for e in catalog.ENTRIES] + [('netblocks', r) for r in netblocks.RECIPES]
    rnd = rng(seed, 'C11opt-blocks')
    rnd.shuffle(blocks)
    for src, r in blocks[:spec['n_blocks']]:
        cfg = r.configs('quick')[0]
        if r.name == 'Stack_ShiftRegister':
            continue
        rr = rng(seed, 'C11opt-int', r.name)
        for case in c11integ.cases_for(src, r.name, cfg, rr, 'quick'):
            try:
                res = c11integ.run_case(case)
            except Exception as e:
                res = dict(outcome='crash', detail=repr(e)[:200], expected=None, raised=None, info={})
            rec = dict(res=res, fault=(case.get('fault') or {}).get('kind', 'complete'))
            if res['outcome'] not in ('ok', 'excluded'):
                rec['case'] = case
            out['integ'].append(rec)
    json.dump(out, open(outp, 'w'), default=repr)
    return 0


if __name__ == '__main__':
    sys.exit(main())
