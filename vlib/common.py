"""Shared infrastructure for the py4hw runtime-monitoring checks.

Everything here is checkout-relative: ROOT is the directory that contains this
package, evidence goes to ROOT/evidence, replays to ROOT/replays, transient files
to ROOT/.work/run-<pid>/ (git-ignored, removed in a finally).
"""
import contextlib
import hashlib
import io
import json
import os
import random
import shutil
import subprocess
import sys
import time

ROOT = os.path.dirname(os.path.dirname(os.path.abspath(__file__)))
# VERIF_EVIDENCE_DIR: only for self-validation runs against mutated copies (so that they do not overwrite real evidence)
EVIDENCE_DIR = os.environ.get('VERIF_EVIDENCE_DIR') or os.path.join(ROOT, 'evidence')
REPLAY_DIR = os.path.join(ROOT, 'replays')
WORK_DIR = os.path.join(ROOT, '.work')
KNOWN_FILE = os.path.join(ROOT, 'known_findings.json')
PYTHON = '/venv/bin/python' if os.path.exists('/venv/bin/python') else sys.executable

HELD, VIOLATED, INCONCLUSIVE = 0, 1, 2


# --------------------------------------------------------------------------- import of the code under test

def setup_path():
    """PY4HW_ROOT=<dir containing a py4hw package> shadows the editable install
    (used only for self-validation against scratch copies; never set by MANIFEST)."""
    root = os.environ.get('PY4HW_ROOT')
    if root:
        sys.path.insert(0, root)
    deps = os.path.join(ROOT, '.deps')
    if os.path.isdir(deps) and deps not in sys.path:
        sys.path.append(deps)


@contextlib.contextmanager
def muted():
    """py4hw prints a lot (warnings, debug); keep stdout for verdict lines only."""
    buf = io.StringIO()
    with contextlib.redirect_stdout(buf):
        yield buf


def import_py4hw():
    setup_path()
    os.environ.setdefault('MPLBACKEND', 'Agg')
    with muted():
        import py4hw  # noqa
        import py4hw.debug  # noqa
    return py4hw


def py4hw_location():
    import py4hw
    return os.path.dirname(os.path.abspath(py4hw.__file__))


# --------------------------------------------------------------------------- small helpers

def env_seed():
    try:
        return int(os.environ.get('VERIF_SEED', '1'))
    except ValueError:
        return 1


def stable_hash(obj):
    return hashlib.sha1(json.dumps(obj, sort_keys=True, default=repr).encode()).hexdigest()[:16]


def mask(v, w):
    return v & ((1 << w) - 1)


def sgn(v, w):
    v &= (1 << w) - 1
    return v - (1 << w) if (v >> (w - 1)) & 1 else v


def boundary_values(w, rnd=None, extra=4):
    """Boundary set for a w-bit operand: 0,1,2**k-1,2**k,max-1,max,sign bit,sign bit +-1 (+ random)."""
    m = (1 << w) - 1
    vals = {0, 1 & m, m, (m - 1) & m, 1 << (w - 1), ((1 << (w - 1)) - 1) & m, ((1 << (w - 1)) + 1) & m}
    if w >= 4:
        vals |= {(1 << (w // 2)) & m, ((1 << (w // 2)) - 1) & m, 0x55555555555555555555 & m, 0xAAAAAAAAAAAAAAAAAAAA & m}
    if rnd is not None:
        for _ in range(extra):
            vals.add(rnd.getrandbits(w))
    return sorted(vals)


def jsonable(o, depth=0):
    if isinstance(o, (str, int, float, bool)) or o is None:
        if isinstance(o, int) and abs(o) > (1 << 62):
            return hex(o)
        return o
    if isinstance(o, dict):
        return {str(k): jsonable(v, depth + 1) for k, v in o.items()}
    if isinstance(o, (list, tuple, set, frozenset)):
        return [jsonable(v, depth + 1) for v in o]
    return repr(o)


# --------------------------------------------------------------------------- known findings

def load_known(prop):
    """known_findings.json is the committed list; known_findings.d/<prop>.json is the same format, used while
    a property's check is being built (merged into the main file by tools/merge_known.py)."""
    out = []
    for path in (KNOWN_FILE, os.path.join(ROOT, 'known_findings.d', prop + '.json')):
        try:
            with open(path) as f:
                data = json.load(f)
        except FileNotFoundError:
            continue
        out += [e for e in data.get('findings', []) if e.get('property') == prop]
    return out


def match_known(entries, key, fields):
    """An entry suppresses a violation only if status == 'known', the mechanism key is equal and
    every classifier field listed in the entry's match dict has the same value in the violation."""
    for e in entries:
        if e.get('status') != 'known':
            continue
        if e.get('key') != key:
            continue
        m = e.get('match', {})
        if all(fields.get(k) == v for k, v in m.items()):
            return e
    return None


# --------------------------------------------------------------------------- run record

class Run:
    """Collects what one check run observed and turns it into evidence + verdict."""

    def __init__(self, prop, level='exploration', rule='', tier=None, seed=None):
        self.prop = prop
        self.level = level
        self.rule = rule
        self.tier = tier or os.environ.get('VERIF_TIER', 'quick')
        if self.tier not in ('quick', 'thorough'):
            self.tier = 'quick'
        self.seed = env_seed() if seed is None else seed
        self.t0 = time.time()
        self.evaluations = 0
        self.nontrivial = set()
        self.samples = []
        self.max_samples = 8
        self.counters = {}
        self.violations = []       # dicts (unknown ones)
        self.known_hits = {}       # key -> [entry, count, first witness]
        self.assumptions = []
        self.extra = {}
        self.inconclusive = []
        self.known = load_known(prop)
        self.max_violations = 40

    # -- counting
    def count(self, name, n=1):
        self.counters[name] = self.counters.get(name, 0) + n

    def ev(self, n=1):
        self.evaluations += n

    def nt(self, key):
        if len(self.nontrivial) < 2_000_000:
            self.nontrivial.add(key if isinstance(key, (int, str)) else stable_hash(key))

    def sample(self, s):
        if len(self.samples) < self.max_samples:
            self.samples.append(jsonable(s))

    def assume(self, text):
        if text not in self.assumptions:
            self.assumptions.append(text)

    # -- verdicts
    def violation(self, key, fields, case, expected=None, observed=None, what=''):
        """key: mechanism key chosen by the monitor's classifier; fields: classifier fields."""
        e = match_known(self.known, key, fields)
        if e is not None:
            rec = self.known_hits.setdefault(e['key'] + '|' + stable_hash(e.get('match', {})), [e, 0, None])
            rec[1] += 1
            if rec[2] is None:
                rec[2] = jsonable(case)
            return False
        if len(self.violations) < self.max_violations:
            self.violations.append(dict(key=key, fields=jsonable(fields), case=jsonable(case),
                                        expected=jsonable(expected), observed=jsonable(observed), what=what))
        else:
            self.count('violations_not_recorded')
        return True

    @property
    def too_many(self):
        return len(self.violations) >= self.max_violations

    def inconclusive_if(self, cond, reason):
        if cond:
            self.inconclusive.append(reason)

    # -- merging of shard results
    def to_shard(self):
        return dict(evaluations=self.evaluations, nontrivial=sorted(self.nontrivial, key=str),
                    samples=self.samples, counters=self.counters, violations=self.violations,
                    known_hits={k: [v[0], v[1], v[2]] for k, v in self.known_hits.items()},
                    assumptions=self.assumptions, extra=self.extra, inconclusive=self.inconclusive)

    def merge(self, d):
        self.evaluations += d['evaluations']
        self.nontrivial.update(d['nontrivial'])
        for s in d['samples']:
            if len(self.samples) < self.max_samples:
                self.samples.append(s)
        for k, v in d['counters'].items():
            if isinstance(v, (int, float)):
                self.counters[k] = self.counters.get(k, 0) + v
            else:
                self.counters.setdefault(k, v)
        for v in d['violations']:
            if len(self.violations) < self.max_violations:
                self.violations.append(v)
        for k, (e, n, w) in d['known_hits'].items():
            rec = self.known_hits.setdefault(k, [e, 0, w])
            rec[1] += n
        for a in d['assumptions']:
            self.assume(a)
        for k, v in d['extra'].items():
            if isinstance(v, dict) and isinstance(self.extra.get(k), dict):
                for kk, vv in v.items():
                    if isinstance(vv, (int, float)) and isinstance(self.extra[k].get(kk, 0), (int, float)):
                        self.extra[k][kk] = self.extra[k].get(kk, 0) + vv
                    else:
                        self.extra[k].setdefault(kk, vv)
            elif isinstance(v, (int, float)) and isinstance(self.extra.get(k, 0), (int, float)) and not isinstance(v, bool):
                self.extra[k] = self.extra.get(k, 0) + v
            elif isinstance(v, list) and isinstance(self.extra.get(k), list):
                for x in v:
                    if x not in self.extra[k] and len(self.extra[k]) < 200:
                        self.extra[k].append(x)
            else:
                self.extra.setdefault(k, v)
        self.inconclusive.extend(d['inconclusive'])

    # -- finishing
    def finish(self, min_nontrivial=2):
        os.makedirs(EVIDENCE_DIR, exist_ok=True)
        wall = time.time() - self.t0
        if self.evaluations == 0:
            self.inconclusive.append('no evaluation was performed')
        if len(self.nontrivial) < min_nontrivial:
            self.inconclusive.append('only %d distinct non-trivial cases (floor %d)' % (len(self.nontrivial), min_nontrivial))
        verdict = HELD
        replay_paths = []
        if self.violations:
            verdict = VIOLATED
            os.makedirs(REPLAY_DIR, exist_ok=True)
            seen = set()
            for v in self.violations:
                h = stable_hash([v['key'], v['case']])
                if h in seen:
                    continue
                seen.add(h)
                path = os.path.join(REPLAY_DIR, '%s-%s.json' % (self.prop, h))
                with open(path, 'w') as f:
                    json.dump(dict(property=self.prop, seed=self.seed, tier=self.tier, **v), f, indent=1)
                replay_paths.append((v, os.path.relpath(path, ROOT)))
        elif self.inconclusive:
            verdict = INCONCLUSIVE
        coverage = dict(evaluations=int(self.evaluations), distinct_nontrivial=len(self.nontrivial),
                        rule=self.rule, samples=self.samples or ['(no sample recorded)'])
        coverage['counters'] = jsonable(self.counters)
        coverage['known_findings_hit'] = {k: v[1] for k, v in self.known_hits.items()}
        coverage['verdict'] = {HELD: 'held', VIOLATED: 'violated', INCONCLUSIVE: 'inconclusive'}[verdict]
        if self.inconclusive:
            coverage['inconclusive_reasons'] = self.inconclusive[:10]
        coverage['py4hw_location'] = _loc()
        for k, v in self.extra.items():
            coverage[k] = jsonable(v)
        ev = dict(property_id=self.prop, tier=self.tier, seed=int(self.seed), level=self.level,
                  coverage=coverage, assumptions=self.assumptions, wall_s=round(wall, 3),
                  violations=len(self.violations))
        with open(os.path.join(EVIDENCE_DIR, self.prop + '.json'), 'w') as f:
            json.dump(ev, f, indent=1)
        for k, (e, n, w) in sorted(self.known_hits.items()):
            print('KNOWN-FINDING: property=%s %s (%s; seen %d times this run)' % (self.prop, e['key'], e.get('description', ''), n))
        for v, p in replay_paths:
            print('VIOLATION property=%s replay=%s key=%s %s' % (self.prop, p, v['key'], v.get('what', '')))
        if verdict == INCONCLUSIVE:
            print('INCONCLUSIVE property=%s reason=%s' % (self.prop, '; '.join(self.inconclusive[:3])))
        print('%s %s tier=%s seed=%d evaluations=%d distinct_nontrivial=%d violations=%d known=%d wall=%.1fs' % (
            self.prop, coverage['verdict'].upper(), self.tier, self.seed, self.evaluations,
            len(self.nontrivial), len(self.violations), sum(v[1] for v in self.known_hits.values()), wall))
        sys.stdout.flush()
        return verdict


def _loc():
    try:
        return py4hw_location()
    except Exception:
        return None


# --------------------------------------------------------------------------- shards

@contextlib.contextmanager
def run_dir():
    d = os.path.join(WORK_DIR, 'run-%d' % os.getpid())
    os.makedirs(d, exist_ok=True)
    try:
        yield d
    finally:
        shutil.rmtree(d, ignore_errors=True)


def run_shards(prop, nshards, tier, seed, timeout_s, run):
    """Fan a thorough tier out over subprocesses (never multiprocessing.Pool: a dying child hangs it).
    Each child runs `check <prop> --shard i/n --out file`, the parent merges."""
    check = os.path.join(ROOT, 'check')
    with run_dir() as d:
        procs = []
        for i in range(nshards):
            out = os.path.join(d, 'shard-%d.json' % i)
            env = dict(os.environ, VERIF_TIER=tier, VERIF_SEED=str(seed), PYTHONHASHSEED='0')
            p = subprocess.Popen([PYTHON, check, prop, '--tier', tier, '--shard', '%d/%d' % (i, nshards), '--out', out],
                                 env=env, stdout=subprocess.DEVNULL, stderr=subprocess.PIPE, cwd=ROOT)
            procs.append((i, p, out))
        deadline = time.time() + timeout_s
        for i, p, out in procs:
            try:
                _, err = p.communicate(timeout=max(1, deadline - time.time()))
            except subprocess.TimeoutExpired:
                p.kill()
                p.communicate()
                run.inconclusive.append('shard %d hit the %ds watchdog' % (i, timeout_s))
                continue
            if not os.path.exists(out):
                tail = (err or b'').decode(errors='replace').strip().splitlines()[-3:]
                run.inconclusive.append('shard %d died (rc=%s): %s' % (i, p.returncode, ' | '.join(tail)))
                continue
            with open(out) as f:
                run.merge(json.load(f))
        run.count('shards', nshards)


class Budget:
    """Logical budget (cases) with a generous wall-clock watchdog."""

    def __init__(self, cases, seconds):
        self.cases = cases
        self.deadline = time.time() + seconds
        self.n = 0

    def more(self):
        self.n += 1
        return self.n <= self.cases and time.time() < self.deadline

    @property
    def timed_out(self):
        return time.time() >= self.deadline and self.n <= self.cases


def shard_slice(items, shard):
    if shard is None:
        return list(items)
    i, n = shard
    return [x for k, x in enumerate(items) if k % n == i]


def rng(seed, *salt):
    return random.Random(stable_hash([seed, salt]))
