"""C09 -- storage and sequential blocks follow their reference state machines (DESIGN.md section C09).

Two drivers for one oracle (the pure-Python reference machines of vlib/seqcat.py run in lockstep with the real
block inside the real simulator):
  * random control histories from power-up: per-signal duty cycles re-drawn from {0.05, 0.5, 0.95} per segment
    (long holds, bursts, reset storms), data with holds / hot values / boundary values;
  * bounded exhaustive exploration of small configurations: breadth-first walk over the REAL simulator's state
    space (snapshot = every wire value + every leaf's integer/list attributes), every input vector applied once
    from every reachable (real state, reference state) pair.
Outputs are compared after every edge (first comparison after edge 1); blocks whose outputs also depend on the
current inputs are additionally compared after poke + propagateAll, before the edge (from the second cycle on).
"""
import collections
import itertools
import time
import traceback

from . import seqcat
from .common import muted, rng, shard_slice, stable_hash

LEVEL = 'exploration'
RULE = ('random: every sequential catalogue block x legal configuration x H histories of N cycles from power-up (controls '
        'driven with per-segment duty cycles from {0.05,0.5,0.95}, data with holds/hot/boundary values, undocumented input '
        'combinations removed), one evaluation = one edge whose outputs were compared with the reference machine; a history is '
        'non-trivial when every control input took both values and the reference state changed >= 3 times; distinct by '
        '(block, config, history content).  bfs: for small configurations a breadth-first walk over the real simulator state '
        'space, every documented input vector applied once from every reachable (real state, reference state) pair; one '
        'evaluation = one transition compared; each explored pair counts as one distinct non-trivial case.  compose: every '
        'configuration once more with each output wired to a plain register and to one more sequential catalogue block, each '
        'instantiated before and after the block under test; the followers are judged as the composition of the two reference '
        'machines (stepping from the pre-edge values of their input nets); non-trivial when the block and a follower changed '
        'state >= 3 times.  size: every block with a size parameter (stages, depth, address width, modulus, divide ratio, sequence '
        'length) at sizes around powers of two and beyond 32 (up to 100/200) with all optional-port combinations, histories scaled '
        'to the size: fill >= size, stall with reset pulses while disabled, drain >= size, random duties, reset storm, drain')
SHARDS = {'quick': 1, 'thorough': 16}
TIMEOUT = {'quick': 600, 'thorough': 3000}
MIN_NONTRIVIAL = {'quick': 300, 'thorough': 3000}

PARAMS = {
    'quick': dict(size_hist=2, size_reps=1, compose_hist=2, compose_cycles=200, hist=8, cycles=600, bfs_states=4096, bfs_vectors=1024, seconds=420),
    'thorough': dict(size_hist=4, size_reps=2, compose_hist=4, compose_cycles=1000, hist=10, cycles=4000, bfs_states=4096, bfs_vectors=4096, seconds=2400),
}
DUTIES = (0.05, 0.5, 0.95)


# --------------------------------------------------------------------------- the real block in the real simulator

def all_logic(obj):
    yield obj
    for c in obj.children.values():
        yield from all_logic(c)


class Dut:
    def __init__(self, entry, cfg):
        import py4hw
        self.entry, self.cfg = entry, cfg
        self.hw = py4hw.HWSystem()
        py4hw.Wire.prepared = []      # a previous run that raised inside an edge may have left prepared wires behind
        self.ins, self.outs = entry.build(self.hw, cfg, self.hw.wire)
        self.sim = self.hw.getSimulator()
        self.ow = {k: w.getWidth() for k, w in self.outs.items()}
        # state-carrying parts of the real simulator
        self.wires = []
        self.leaves = []
        for o in all_logic(self.hw):
            self.wires += list(o._wires.values())
            if not o.children and o is not self.hw:
                self.leaves.append(o)
        inw = set(id(w) for w in self.ins.values())
        self.seqwires = [w for w in self.wires if id(w) not in inw and w.getSource() is not None
                         and callable(getattr(w.getSource().parent, 'clock', None))]
        self.attrs = []
        for leaf in self.leaves:
            for k, v in sorted(vars(leaf).items()):
                if isinstance(v, bool) or isinstance(v, int):
                    self.attrs.append((leaf, k, False))
                elif isinstance(v, list) and k not in ('inPorts', 'outPorts', 'inOutPorts', 'sources', 'sinks') \
                        and all(isinstance(x, int) for x in v):
                    self.attrs.append((leaf, k, True))

    def poke(self, vals):
        for k, w in self.ins.items():
            w.put(vals[k])

    def read(self):
        return {k: w.get() for k, w in self.outs.items()}

    def snapshot(self):
        return (tuple(w.value for w in self.wires),
                tuple(tuple(getattr(l, k)) if is_list else getattr(l, k) for l, k, is_list in self.attrs))

    def restore(self, snap):
        import py4hw
        for w, v in zip(self.wires, snap[0]):
            w.value = v
        for (l, k, is_list), v in zip(self.attrs, snap[1]):
            setattr(l, k, list(v) if is_list else v)
        py4hw.Wire.prepared = []

    def seqstate(self):
        return (tuple(w.value for w in self.seqwires),
                tuple(tuple(getattr(l, k)) if is_list else getattr(l, k) for l, k, is_list in self.attrs))


def classify_exception(entry, exc):
    """mechanism key + classifier fields for an exception raised by the real simulator"""
    tb = traceback.extract_tb(exc.__traceback__)
    func = tb[-1].name if tb else '?'
    fields = dict(block=entry.name, exc=type(exc).__name__, func=func)
    if isinstance(exc, AttributeError):
        fields['attr'] = getattr(exc, 'name', None)
        if func == 'clock':
            short = {'DualPortSynchronousMemory': 'dualport'}.get(entry.name, entry.name.lower())
            return short + '_clock_attrs', fields
    if isinstance(exc, NameError):
        fields['attr'] = getattr(exc, 'name', None)
    return 'c09_sim_raises', fields


def compare(exp, got, ow):
    """first output that is specified and differs -> (name, expected, observed)"""
    for k, e in exp.items():
        if e is None:
            continue
        e &= (1 << ow[k]) - 1
        if got[k] != e:
            return k, e, got[k]
    return None


# --------------------------------------------------------------------------- lockstep over one history

def lockstep(run, entry, cfg, hist, mode, count=True):
    """-> (status, info).  status: 'ok' | 'mismatch' | 'raised' | 'build'.  Reports violations itself."""
    case = dict(block=entry.name, cfg=cfg, mode=mode, history=hist)
    try:
        with muted():
            dut = Dut(entry, cfg)
    except Exception as e:
        run.violation('c09_build_raises', dict(block=entry.name, exc=type(e).__name__), dict(block=entry.name, cfg=cfg),
                      observed=repr(e)[:200], what='%s%r does not build: %r' % (entry.name, cfg, e))
        return 'build', None
    st = entry.init(cfg)
    seen = {k: set() for k in entry.controls(cfg)}
    changes = 0
    with muted():
        for t, vals in enumerate(hist):
            dut.poke(vals)
            for k in seen:
                seen[k].add(vals[k])
            try:
                if entry.pre is not None and t > 0:
                    dut.sim.propagateAll()
                    bad = compare(entry.pre(cfg, st, vals), dut.read(), dut.ow)
                    if count:
                        run.count('pre_edge_comparisons')
                    if bad:
                        _report_mismatch(run, entry, cfg, case, t, 'pre', bad, vals)
                        return 'mismatch', t
                dut.sim.clk(1)
            except Exception as e:
                key, fields = classify_exception(entry, e)
                fields['edge'] = 'first' if t == 0 else 'later'
                case_t = dict(case, history=hist[:t + 1], cycle=t)
                run.violation(key, fields, case_t, observed=repr(e)[:200],
                              what='%s%r raises at edge %d: %r' % (entry.name, cfg, t + 1, e))
                return 'raised', t
            st2, exp = entry.step(cfg, st, vals)
            if st2 != st:
                changes += 1
            st = st2
            if count:
                run.ev()
            bad = compare(exp, dut.read(), dut.ow)
            if bad:
                _report_mismatch(run, entry, cfg, case, t, 'post', bad, vals)
                return 'mismatch', t
    nontrivial = changes >= 3 and all(len(s) >= 2 for s in seen.values())
    return 'ok', dict(nontrivial=nontrivial, changes=changes)


def _report_mismatch(run, entry, cfg, case, t, phase, bad, vals):
    k, e, g = bad
    case_t = dict(case, history=case['history'][:t + 1], cycle=t, phase=phase, out=k)
    run.violation('c09_value', dict(block=entry.name, out=k, phase=phase), case_t, expected=e, observed=g,
                  what='%s%r cycle %d (%s-edge) %s expected %d got %d inputs=%r' % (entry.name, cfg, t + 1, phase, k, e, g, vals))


# --------------------------------------------------------------------------- random histories

def gen_history(entry, cfg, rnd, n):
    pi, _ = entry.ports(cfg)
    ctl = set(entry.controls(cfg))
    hot = {k: [rnd.getrandbits(w) for _ in range(3)] for k, w in pi.items()}
    hist = []
    prev = {k: 0 for k in pi}
    duty = {}
    seg_end = 0
    for t in range(n):
        if t >= seg_end:
            seg_end = t + rnd.randint(15, 90)
            duty = {k: rnd.choice(DUTIES) for k in pi}
        v = {}
        for k, w in pi.items():
            if k in ctl and w == 1:
                v[k] = int(rnd.random() < duty[k])
            else:
                r = rnd.random()
                if r < 0.25:
                    v[k] = prev[k]
                elif r < 0.45:
                    v[k] = rnd.choice(hot[k])
                elif r < 0.55:
                    v[k] = rnd.choice((0, 1, (1 << w) - 1, 1 << (w - 1)))
                else:
                    v[k] = rnd.getrandbits(w)
        if entry.domain is not None:
            v = entry.domain(cfg, v)
        hist.append(v)
        prev = v
    return hist


class PB:
    """per-block counters, kept as flat {block: n} dicts in run.extra so that shard results add up key-wise"""
    METRICS = ('size_configs', 'size_edges', 'size_nontrivial', 'configs', 'histories', 'edges', 'nontrivial', 'raised', 'bfs_configs', 'bfs_states', 'bfs_transitions', 'compositions')

    def __init__(self, run, name):
        self.run, self.name = run, name

    def __setitem__(self, k, v):
        self.run.extra.setdefault(k + '_by_block', {})[self.name] = v

    def __getitem__(self, k):
        return self.run.extra.setdefault(k + '_by_block', {}).get(self.name, 0)


def random_job(run, entry, cfg, rnd, p):
    pb = PB(run, entry.name)
    pb['configs'] += 1
    for h in range(p['hist']):
        hist = gen_history(entry, cfg, rnd, p['cycles'])
        e0 = run.evaluations
        status, info = lockstep(run, entry, cfg, hist, 'random')
        pb['edges'] += run.evaluations - e0
        pb['histories'] += 1
        if status == 'ok':
            if info['nontrivial']:
                pb['nontrivial'] += 1
                run.nt('h:' + stable_hash([entry.name, cfg, hist]))
            if (run.evaluations // p['cycles']) % 97 == 1:
                run.sample(dict(mode='random', block=entry.name, cfg=cfg, cycles=len(hist), first_inputs=hist[:4],
                                state_changes=info['changes']))
        elif status == 'raised':
            pb['raised'] += 1
            break
        else:
            break


# --------------------------------------------------------------------------- size-parameter families

def gen_size_history(entry, cfg, size, rnd, reps):
    """history scaled to the size parameter: fill (>= size enabled cycles without reset), stall (everything disabled, reset-like
    controls pulsing: a reset while disabled), drain (>= size enabled cycles), random duties, reset storm while enabled, drain"""
    pi, _ = entry.ports(cfg)
    ctl = [k for k in entry.controls(cfg) if pi[k] == 1]
    rst = [k for k in ctl if k in seqcat.RESET_LIKE]
    ena = [k for k in ctl if k not in rst]
    hot = {k: [rnd.getrandbits(w) | 1 for _ in range(3)] for k, w in pi.items()}
    n1 = size + 2
    phases = []
    for _ in range(reps):
        phases += [('fill', n1 + rnd.randint(0, size // 2), 0.0, rnd.choice((0.9, 1.0))),
                   ('stall', rnd.randint(2, 8), rnd.choice((0.3, 1.0)), 0.0),
                   ('drain', n1 + rnd.randint(0, 3), 0.0, 1.0),
                   ('random', size // 2 + rnd.randint(8, 30), None, None),
                   ('storm', rnd.randint(3, 12), rnd.choice((0.1, 0.5)), 0.95),
                   ('drain', n1 + rnd.randint(0, 3), 0.0, rnd.choice((0.5, 1.0)))]
    hist, marks = [], []
    prev = {k: 0 for k in pi}
    for name, n, dr, de in phases:
        duty = {k: (rnd.choice(DUTIES) if dr is None else dr) for k in rst}
        duty.update({k: (rnd.choice(DUTIES) if de is None else de) for k in ena})
        if name == 'stall' and rst and n > 3:
            pulse = rnd.randrange(1, n - 1)         # at least one reset pulse strictly inside the disabled stretch
        else:
            pulse = None
        for t in range(n):
            v = {}
            for k, w in pi.items():
                if k in duty:
                    v[k] = int(rnd.random() < duty[k])
                    if pulse is not None and k in rst:
                        v[k] = int(t == pulse) if dr < 1.0 else int(0 < t < n - 1)
                else:
                    r = rnd.random()
                    if r < 0.1:
                        v[k] = prev[k]
                    elif r < 0.3:
                        v[k] = rnd.choice(hot[k])
                    elif r < 0.4:
                        v[k] = rnd.choice((0, 1, (1 << w) - 1, 1 << (w - 1)))
                    else:
                        v[k] = rnd.getrandbits(w)
            if entry.domain is not None:
                v = entry.domain(cfg, v)
            hist.append(v)
            prev = v
    rwd = sum(1 for v in hist if rst and ena and any(v[k] for k in rst) and not any(v[k] for k in ena))
    return hist, rwd


def size_job(run, entry, cfg, size, rnd, p):
    pb = PB(run, entry.name)
    pb['size_configs'] += 1
    mx = run.extra.setdefault('size_family_largest_size_by_block', {})
    mx[entry.name] = max(mx.get(entry.name, 0), size)
    for h in range(p['size_hist']):
        hist, rwd = gen_size_history(entry, cfg, size, rnd, p['size_reps'])
        e0 = run.evaluations
        status, info = lockstep(run, entry, cfg, hist, 'size')
        pb['size_edges'] += run.evaluations - e0
        run.count('size_family_histories')
        run.count('size_family_reset_while_disabled_cycles', rwd)
        if rwd:
            run.count('size_family_histories_with_reset_while_disabled')
        if size > 32:
            run.count('size_family_histories_size_above_32')
        if status == 'ok':
            if info['nontrivial']:
                pb['size_nontrivial'] += 1
                run.nt('z:' + stable_hash([entry.name, cfg, hist]))
            if run.counters['size_family_histories'] % 23 == 1:
                run.sample(dict(mode='size', block=entry.name, cfg=cfg if len(repr(cfg)) < 120 else repr(cfg)[:120], size=size, cycles=len(hist),
                                reset_while_disabled_cycles=rwd, state_changes=info['changes']))
        else:
            if status == 'raised':
                pb['raised'] += 1
            break


# --------------------------------------------------------------------------- bounded exhaustive exploration

def input_vectors(entry, cfg, limit):
    pi, _ = entry.ports(cfg)
    names = list(pi)
    total = 1
    for k in names:
        total <<= pi[k]
    if total > limit:
        return None
    seen = set()
    out = []
    for combo in itertools.product(*[range(1 << pi[k]) for k in names]):
        v = dict(zip(names, combo))
        if entry.domain is not None:
            v = entry.domain(cfg, v)
        key = tuple(v[k] for k in names)
        if key not in seen:
            seen.add(key)
            out.append(v)
    return out


def bfs_job(run, entry, cfg, p, deadline):
    pb = PB(run, entry.name)
    vecs = input_vectors(entry, cfg, p['bfs_vectors'])
    if vecs is None:
        run.count('bfs_skipped_too_many_vectors')
        return
    try:
        with muted():
            dut = Dut(entry, cfg)
    except Exception as e:
        run.violation('c09_build_raises', dict(block=entry.name, exc=type(e).__name__), dict(block=entry.name, cfg=cfg),
                      observed=repr(e)[:200], what='%s%r does not build: %r' % (entry.name, cfg, e))
        return
    st0 = entry.init(cfg)
    visited = {(dut.seqstate(), st0): 0}
    real_states = {dut.seqstate()}
    parent = {0: None}
    queue = collections.deque([(dut.snapshot(), st0, 0)])
    transitions = 0
    truncated = False
    failed = False

    def path(sid, last):
        h = [last]
        while parent[sid] is not None:
            sid, v = parent[sid]
            h.append(v)
        return h[::-1]

    with muted():
        while queue and not failed:
            if time.time() > deadline:
                run.count('bfs_watchdog')
                truncated = True
                break
            snap, st, sid = queue.popleft()
            for vals in vecs:
                dut.restore(snap)
                dut.poke(vals)
                try:
                    if entry.pre is not None and sid != 0:
                        dut.sim.propagateAll()
                        run.count('pre_edge_comparisons')
                        bad = compare(entry.pre(cfg, st, vals), dut.read(), dut.ow)
                        if bad:
                            hist = path(sid, vals)
                            _report_mismatch(run, entry, cfg, dict(block=entry.name, cfg=cfg, mode='bfs', history=hist),
                                             len(hist) - 1, 'pre', bad, vals)
                            failed = True
                            break
                    dut.sim.clk(1)
                except Exception as e:
                    key, fields = classify_exception(entry, e)
                    fields['edge'] = 'first' if sid == 0 else 'later'
                    hist = path(sid, vals)
                    run.violation(key, fields, dict(block=entry.name, cfg=cfg, mode='bfs', history=hist, cycle=len(hist) - 1),
                                  observed=repr(e)[:200], what='%s%r raises at edge %d: %r' % (entry.name, cfg, len(hist), e))
                    pb['raised'] += 1
                    failed = True
                    break
                st2, exp = entry.step(cfg, st, vals)
                transitions += 1
                run.ev()
                bad = compare(exp, dut.read(), dut.ow)
                if bad:
                    hist = path(sid, vals)
                    _report_mismatch(run, entry, cfg, dict(block=entry.name, cfg=cfg, mode='bfs', history=hist),
                                     len(hist) - 1, 'post', bad, vals)
                    failed = True
                    break
                ss = dut.seqstate()
                key = (ss, st2)
                if key not in visited:
                    if len(visited) >= p['bfs_states']:
                        truncated = True
                        continue
                    nid = len(visited)
                    visited[key] = nid
                    real_states.add(ss)
                    parent[nid] = (sid, vals)
                    queue.append((dut.snapshot(), st2, nid))
                    run.nt('s:' + stable_hash([entry.name, cfg, repr(key)]))
    pb['bfs_configs'] += 1
    pb['bfs_states'] += len(visited)
    pb['bfs_transitions'] += transitions
    run.count('bfs_configs')
    run.count('bfs_pairs_explored', len(visited))
    run.count('bfs_real_states', len(real_states))
    run.count('bfs_transitions', transitions)
    if not failed and not truncated:
        run.count('bfs_configs_exhausted')
    if truncated:
        run.count('bfs_configs_truncated')
    if transitions and run.counters.get('bfs_configs', 0) % 11 == 1:
        run.sample(dict(mode='bfs', block=entry.name, cfg=cfg, input_vectors=len(vecs), pairs=len(visited),
                        real_states=len(real_states), transitions=transitions, exhausted=not (failed or truncated)))


# --------------------------------------------------------------------------- composition with downstream clocked blocks

def follower_candidates(w):
    """(block, config, input port) of catalogue blocks that can take a w-bit net on one of their inputs"""
    c = [('Reg', (w, 1, 1, 1), 'd'), ('DelayLine', (w, 2, 1, 1), 'a'), ('DelayLine', (w, 1, 0, 0), 'a'), ('PipelinePhase', ((w, 1),), 'in0'),
         ('ShiftRegisterBidirectional', (w, 2), 'left_in'), ('ShiftRegisterBidirectional', (w, 1), 'right_in'),
         ('Stack_ShiftRegister', (w, 2), 'din'), ('StepUpCounter', (max(w, 2), w, 1), 'step'),
         ('SynchronousMemory', (2, w), 'writedata')]
    if w <= 6:
        c += [('SynchronousMemory', (w, 3), 'read_address'), ('SynchronousMemory', (w, 3), 'write_address')]
    if w == 1:
        c += [('TReg', (1, 1), 't'), ('TReg', (1, 1), 'e'), ('Counter', (3, 1, 1), 'inc'), ('Counter', (3, 1, 1), 'reset'),
              ('EdgeDetector', ('both',), 'a'), ('ModuloCounter', (2, 3), 'inc'), ('Reg', (4, 1, 0, None), 'e'), ('Reg', (4, 0, 1, 9), 'r'),
              ('SynchronousMemory', (2, 2), 'write'), ('Stack_ShiftRegister', (2, 2), 'push'), ('DelayLine', (3, 2, 1, 1), 'en')]
    return c


def gen_compose_plan(entry, cfg, rnd):
    """every output of the block under test feeds a plain register and one more sequential catalogue block, each of them
    once instantiated BEFORE and once AFTER the block under test (the order decides who is clocked first)"""
    fol = []
    for o, w in entry.ports(cfg)[1].items():
        for order in ('after', 'before'):
            fol.append(dict(id='f%d' % len(fol), entry='Reg', cfg=(w, 0, 0, None), port='d', src=o, order=order))
            name, fcfg, port = rnd.choice(follower_candidates(w))
            fol.append(dict(id='f%d' % len(fol), entry=name, cfg=fcfg, port=port, src=o, order=order))
    return fol


def gen_compose_history(entry, cfg, fol, rnd, n):
    hist = gen_history(entry, cfg, rnd, n)
    for f in fol:
        fe = seqcat.by_name(f['entry'])
        fh = gen_history(fe, f['cfg'], rnd, n)
        for t in range(n):
            for port, v in fh[t].items():
                if port != f['port']:
                    hist[t]['%s_%s' % (f['id'], port)] = v
    return hist


class ComposedDut:
    def __init__(self, entry, cfg, fol):
        import py4hw
        hw = py4hw.HWSystem()
        py4hw.Wire.prepared = []
        self.hw = hw
        pi, po = entry.ports(cfg)
        self.ins = {k: hw.wire(k, w) for k, w in pi.items()}
        self.outs = {k: hw.wire(k, w) for k, w in po.items()}
        self.ow = dict(po)
        self.pokes = dict(self.ins)
        self.fol = []
        for f in fol:
            fe = seqcat.by_name(f['entry'])
            fpi, fpo = fe.ports(f['cfg'])
            fi = {}
            for port, w in fpi.items():
                if port == f['port']:
                    fi[port] = self.outs[f['src']]
                else:
                    fi[port] = hw.wire('%s_%s' % (f['id'], port), w)
                    self.pokes['%s_%s' % (f['id'], port)] = fi[port]
            fo = {o: hw.wire('%s_%s' % (f['id'], o), w) for o, w in fpo.items()}
            self.fol.append(dict(spec=f, entry=fe, cfg=f['cfg'], ins=fi, outs=fo, ow=dict(fpo), state=fe.init(f['cfg']), changes=0))
        # instantiation order = order of the leaves in the simulator's clockables list
        for r in self.fol:
            if r['spec']['order'] == 'before':
                r['entry'].make(hw, r['spec']['id'], r['cfg'], r['ins'], r['outs'])
        entry.make(hw, entry.inst, cfg, self.ins, self.outs)
        for r in self.fol:
            if r['spec']['order'] == 'after':
                r['entry'].make(hw, r['spec']['id'], r['cfg'], r['ins'], r['outs'])
        self.sim = hw.getSimulator()


def compose_lockstep(run, entry, cfg, fol, hist):
    """the block under test is judged as in lockstep(); every follower is judged as the composition of the two machines:
    its reference steps from the values its input nets really had before the edge (for the connected port: the output of
    the block under test before the edge), so a clocked block must see the pre-edge outputs of every other clocked block"""
    case = dict(block=entry.name, cfg=cfg, mode='compose', followers=fol, history=hist)
    try:
        with muted():
            dut = ComposedDut(entry, cfg, fol)
    except Exception as e:
        run.violation('c09_build_raises', dict(block=entry.name, exc=type(e).__name__, mode='compose'),
                      dict(block=entry.name, cfg=cfg, followers=fol), observed=repr(e)[:200],
                      what='%s%r with downstream blocks does not build: %r' % (entry.name, cfg, e))
        return 'build', None
    st = entry.init(cfg)
    changes = 0
    upstream = list(entry.ports(cfg)[0])
    with muted():
        for t, vals in enumerate(hist):
            for k, w in dut.pokes.items():
                w.put(vals[k])
            uvals = {k: vals[k] for k in upstream}
            try:
                dut.sim.propagateAll()
                if entry.pre is not None and t > 0:
                    bad = compare(entry.pre(cfg, st, uvals), {k: w.get() for k, w in dut.outs.items()}, dut.ow)
                    if bad:
                        _report_mismatch(run, entry, cfg, case, t, 'pre', bad, uvals)
                        return 'mismatch', t
                pre = [{p: w.get() for p, w in r['ins'].items()} for r in dut.fol]
                dut.sim.clk(1)
            except Exception as e:
                key, fields = classify_exception(entry, e)
                fields['edge'] = 'first' if t == 0 else 'later'
                run.violation(key, fields, dict(case, history=hist[:t + 1], cycle=t), observed=repr(e)[:200],
                              what='%s%r (with downstream blocks) raises at edge %d: %r' % (entry.name, cfg, t + 1, e))
                return 'raised', t
            st2, exp = entry.step(cfg, st, uvals)
            if st2 != st:
                changes += 1
            st = st2
            run.ev()
            bad = compare(exp, {k: w.get() for k, w in dut.outs.items()}, dut.ow)
            if bad:
                _report_mismatch(run, entry, cfg, case, t, 'post', bad, uvals)
                return 'mismatch', t
            for r, ins in zip(dut.fol, pre):
                fe, fcfg = r['entry'], r['cfg']
                if r.get('left_domain'):
                    run.count('follower_cycles_not_judged_after_leaving_domain')
                    continue
                if fe.domain is not None and fe.domain(fcfg, ins) != ins:
                    # the block under test drove this follower outside the follower's documented input domain (push+pop,
                    # shift-left+shift-right, ...): what the follower does then is not specified, now or later in this history
                    r['left_domain'] = True
                    run.count('followers_driven_outside_their_domain')
                    continue
                s2 = fe.nxt(fcfg, r['state'], ins)
                if s2 != r['state']:
                    r['changes'] += 1
                r['state'] = s2
                post = {p: w.get() for p, w in r['ins'].items()}
                bad = compare(fe.out(fcfg, s2, post), {k: w.get() for k, w in r['outs'].items()}, r['ow'])
                run.count('composition_checks')
                if bad:
                    o, ev, ov = bad
                    f = r['spec']
                    run.violation('c09_composition', dict(block=entry.name, follower=fe.name, port=f['port'], order=f['order']),
                                  dict(case, history=hist[:t + 1], cycle=t, follower=f['id'], out=o), expected=ev, observed=ov,
                                  what='%s%r output %s -> %s%r port %s (instantiated %s it): cycle %d follower output %s expected %d got %d '
                                       '(the follower must step from the values its inputs had before the edge: %r)'
                                       % (entry.name, cfg, f['src'], fe.name, fcfg, f['port'], f['order'], t + 1, o, ev, ov, ins))
                    return 'mismatch', t
    moved = sum(1 for r in dut.fol if r['changes'] >= 3)
    return 'ok', dict(nontrivial=changes >= 3 and moved > 0, changes=changes, followers_moved=moved)


def compose_job(run, entry, cfg, rnd, p):
    pb = PB(run, entry.name)
    for h in range(p['compose_hist']):
        fol = gen_compose_plan(entry, cfg, rnd)
        hist = gen_compose_history(entry, cfg, fol, rnd, p['compose_cycles'])
        status, info = compose_lockstep(run, entry, cfg, fol, hist)
        pb['compositions'] += 1
        for f in fol:
            d = run.extra.setdefault('followers_by_block_and_order', {})
            k = '%s/%s' % (f['entry'], f['order'])
            d[k] = d.get(k, 0) + 1
        if status == 'ok':
            if info['nontrivial']:
                run.nt('c:' + stable_hash([entry.name, cfg, fol, hist]))
            if run.counters.get('composition_checks', 0) % 53 == 1:
                run.sample(dict(mode='compose', block=entry.name, cfg=cfg, followers=[(f['entry'], f['cfg'], f['port'], f['src'], f['order']) for f in fol],
                                cycles=len(hist), state_changes=info['changes']))
        elif status == 'raised':
            pb['raised'] += 1
            break
        else:
            break


# --------------------------------------------------------------------------- entry points

def run_check(run, tier, seed, shard):
    p = PARAMS[tier]
    run.assume('power-up: nets are 0 and register content is the reset value; outputs are judged from the first edge on '
               '(the q net of a register with a non-zero reset value shows 0 before the first edge; not judged here)')
    run.assume('register: reset == 1 loads the reset value, else enable != 0 loads d, else hold (1-bit controls only)')
    run.assume('simultaneous push+pop, simultaneous shift-left+shift-right and two ports writing one address in one cycle '
               'are undocumented and never applied; a pop beyond the stored elements returns an unspecified value (not judged)')
    run.assume('memories: a read returns the content of the read address before that edge\'s writes, on every port')
    run.assume('a downstream block of the composition class is judged only while its inputs (including the one driven by the block '
               'under test) stay inside its documented input domain; once outside, it is not judged for the rest of the history')
    run.assume('ClockDivider frequencies are the decimal values the caller wrote (exact rational arithmetic); pairs whose IEEE '
               'quotient lands on another integer part than the exact ratio (0.6, 0.1) are left out as float rounding the '
               'documentation does not settle; dual-port memory nets may all have different data widths: a cell keeps the '
               'written value, a read port shows it reduced to its own width')
    run.assume('composition: a clocked block wired to the output of another clocked block sees, at an edge, the value that output '
               'had before the edge, whichever of the two was instantiated first (outputs of clocked blocks change at settle only)')
    run.assume('Counter without inc port always increments, without reset port never resets; ClockDivider toggles every '
               'floor(freq_in/(2 freq_out)) edges starting from 0; AutoReset is 1 after edges 1 and 2 and 0 afterwards; '
               'Sequence shows values[k-1] after edge k')
    deadline = time.time() + p['seconds']
    jobs = []
    for e in seqcat.ENTRIES:
        for cfg in e.configs(tier):
            jobs.append(('random', e, cfg))
        for cfg in e.bfs_configs(tier):
            jobs.append(('bfs', e, cfg))
        for cfg in e.configs(tier):
            if max(list(e.ports(cfg)[1].values())) <= 64:
                jobs.append(('compose', e, cfg))
    for e, cfg, size in seqcat.size_family(tier):
        jobs.append(('size', e, (cfg, size)))
    jobs = shard_slice(jobs, shard)
    for kind, e, cfg in jobs:
        if run.too_many:
            break
        if time.time() > deadline:
            run.count('jobs_skipped_watchdog')
            continue
        if kind == 'random':
            random_job(run, e, cfg, rng(seed, 'C09', e.name, cfg), p)
        elif kind == 'size':
            size_job(run, e, cfg[0], cfg[1], rng(seed, 'C09', 'size', e.name, cfg[0]), p)
        elif kind == 'compose':
            compose_job(run, e, cfg, rng(seed, 'C09', 'compose', e.name, cfg), p)
        else:
            bfs_job(run, e, cfg, p, deadline)
    if shard is None or shard[0] == 0:
        run.extra['blocks'] = len(seqcat.ENTRIES)
    if run.counters.get('jobs_skipped_watchdog') or run.counters.get('bfs_watchdog'):
        run.inconclusive.append('watchdog: %d jobs skipped, %d walks cut' % (run.counters.get('jobs_skipped_watchdog', 0),
                                                                            run.counters.get('bfs_watchdog', 0)))
    if shard is None:
        post_merge(run, tier, seed)


def post_merge(run, tier, seed):
    """every catalogue block must have been observed: edges compared, or a (known or new) violation that explains why not"""
    g = lambda m, n: run.extra.get(m + '_by_block', {}).get(n, 0)
    silent = [e.name for e in seqcat.ENTRIES if g('edges', e.name) + g('bfs_transitions', e.name) + g('raised', e.name) == 0]
    if silent and not run.violations:
        run.inconclusive.append('blocks never evaluated: %s' % silent)
    if not run.violations:
        for k in ('size_family_histories_size_above_32', 'size_family_histories_with_reset_while_disabled'):
            if run.counters.get(k, 0) < 10:
                run.inconclusive.append('size-parameter families hardly exercised: %s = %d' % (k, run.counters.get(k, 0)))
    if run.counters.get('bfs_configs_exhausted', 0) == 0 and not run.violations:
        run.inconclusive.append('no bounded exhaustive walk completed')


def replay(run, case):
    c = case['case']
    e = seqcat.by_name(c['block'])
    cfg = seqcat.cfg_from_json(c['cfg'])
    hist = [{k: (int(v, 16) if isinstance(v, str) else v) for k, v in h.items()} for h in c['history']]
    n0, k0 = len(run.violations), sum(v[1] for v in run.known_hits.values())
    if c.get('mode') == 'compose':
        fol = [dict(f, cfg=seqcat.cfg_from_json(f['cfg'])) for f in c['followers']]
        status, info = compose_lockstep(run, e, cfg, fol, hist)
    else:
        status, info = lockstep(run, e, cfg, hist, 'replay')
    print('replay', c['block'], cfg, '%d cycles' % len(hist), '->', status, info)
    for v in run.violations[n0:]:
        print('  ', v['what'])
    bad = len(run.violations) > n0
    if bad:
        print('VIOLATION property=%s replay=%s' % (run.prop, 'replayed'))
    elif sum(v[1] for v in run.known_hits.values()) > k0:
        print('KNOWN-FINDING reproduced')
    return 1 if bad else 0
