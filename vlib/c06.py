"""C06 -- wire values always fit their declared width (DESIGN.md section 4 C06).

Invariant at hook: after construction, after every clk(), inside a listener registered with sim.addListener and inside a
harness clockable probe (runs in the clocking phase, like Waveform): every wire reachable from the HWSystem (_wires of every
Logic recursively, port wires) has isinstance(value, numbers.Integral) and 0 <= value < 2**width.  In addition the E1
post-condition on every put/prepare/settle event (stored value integral, in range, equal to the argument reduced mod 2**width),
the icontract.ensure layer when the package is importable, and the values captured by StreamCapture / Waveform.
"""
import numbers
import random
import time

from . import catalog, hooks, netgen
from .common import rng, shard_slice, stable_hash, muted

LEVEL = 'exploration'
RULE = ('every catalogue block (arithmetic, logic, selection, comparison) at the widths/parameters of the catalogue grid, driven with extreme '
        'operands (0, 1, max, sign bit, alternating) and with raw out-of-range stimulus (-1, 2**w, 2**w+5, -2**w) poked through Wire.put; '
        'hand-picked overflow designs (Not wider than its input, Sub below zero, Mul into a narrow result, ShiftLeftConstant by >= w, '
        'Constant/Sequence/RandomValue with negative and oversized values, Reg with oversized/negative reset_value or narrower q, SignExtend '
        'into a narrower result, Div/Mod by zero, memories/MsgSequencer/Latch with narrow outputs, multi-bit wires on carry/enable/reset/select ports with results wider than the operands (poked or driven by a counter over 150 cycles), BidirBuf onto a narrow BidirWire, '
        'StreamCapture and Waveform capture); every design additionally carries two harness Waveforms over watch lists with repeated wires, a wire plus one of its ports and mixed widths (random order and widest first) whose every sample is range-checked against its own wire and compared with the live value the probe saw in that cycle; random netgen compositions with registers; a case is (design, input vector); '
        'non-trivial = during that case some put/prepare received a raw argument different from the value stored (the block relied on the mask), '
        'measured by the E1 wrapper; distinct by content hash')
SHARDS = {'quick': 1, 'thorough': 16}
TIMEOUT = {'quick': 600, 'thorough': 3000}
MIN_NONTRIVIAL = {'quick': 300, 'thorough': 5000}


def P():
    import py4hw
    return py4hw


_CLS = {}


def classes():
    if _CLS:
        return _CLS
    py4hw = P()

    class Probe(py4hw.Logic):
        """harness clockable: observes every wire during the clocking phase (what a Waveform would capture)"""

        def __init__(self, parent, name, callback):
            super().__init__(parent, name)
            self.callback = callback

        def clock(self):
            self.callback('probe')

    class Listener:
        def __init__(self, callback):
            self.callback = callback

        def simulatorUpdated(self):
            self.callback('listener')

    _CLS.update(Probe=Probe, Listener=Listener)
    return _CLS


# --------------------------------------------------------------------------- the invariant

def relation(v, w):
    if not isinstance(v, numbers.Integral):
        return 'not_integral'
    if v < 0:
        return 'negative'
    if v >= (1 << w):
        return 'too_large'
    return 'ok'


def driver_class(root, wire):
    for l in netgen.my_leaves(root):
        for p in list(l.outPorts) + list(l.inOutPorts):
            if p.wire is wire:
                return type(l).__name__
    return 'undriven'


class Monitor:
    """one design under observation"""

    def __init__(self, run, hw, case, stats, label):
        self.run = run
        self.hw = hw
        self.case = case
        self.stats = stats
        self.label = label
        self.wires = None
        self.nviol = 0
        self.hist = []          # wire values seen by the clocking-phase probe, one row per clock cycle
        self.wave_base = {}     # id(Waveform) -> number of cycles already simulated when it was last clear()ed
        self.crashed = False

    def scan(self, at):
        if self.wires is None:
            self.wires = hooks.all_wires(self.hw)
        st = self.stats
        st['wire_observations'] = st.get('wire_observations', 0) + len(self.wires)
        st['scans_' + at] = st.get('scans_' + at, 0) + 1
        self.run.ev(len(self.wires))
        if at == 'probe':
            self.hist.append([w.value for w in self.wires])
        for w in self.wires:
            v = w.value
            if not (isinstance(v, numbers.Integral) and 0 <= v < (1 << w.width)):
                self.nviol += 1
                if self.nviol <= 2:
                    rel = relation(v, w.width)
                    drv = driver_class(self.hw, w)
                    self.run.violation('value_out_of_range', dict(at=at, driver=drv, relation=rel), self.case, expected='0 <= v < 2**%d' % w.width, observed=v,
                                       what='%s: wire %s (%d bits, driven by %s) holds %r observed %s' % (self.label, w.getFullPath(), w.width, drv, v, at))

    def judge_recorder(self, rec):
        st = self.stats
        st['write_postconditions'] = st.get('write_postconditions', 0) + rec.post_evals
        st['icontract_evaluations'] = st.get('icontract_evaluations', 0) + rec.contract_evals
        st['raw_out_of_range_arguments'] = st.get('raw_out_of_range_arguments', 0) + rec.raw_oor
        self.run.ev(rec.post_evals)
        for k in ('put', 'prepare', 'settle'):
            st['events_' + k] = st.get('events_' + k, 0) + rec.counters.get(k, 0)
        for bad in rec.post_bad[:3]:
            rel = relation(bad['stored'], bad['width'])
            if rel == 'ok':
                rel = 'not_reduced_mod_2w'
            self.run.violation('write_postcondition', dict(kind=bad['kind'], relation=rel), dict(self.case, event=bad), expected='argument mod 2**%d' % bad['width'],
                               observed=bad['stored'], what='%s: %s(%r) on %s (%d bits) stored %r [%s, phase %s, leaf %s]' % (
                                   self.label, bad['kind'], bad['raw'], bad['wire'], bad['width'], bad['stored'], rel, bad['phase'], bad['leaf_class']))
        for kind, path, msg in rec.contract_bad[:2]:
            self.run.violation('icontract_postcondition', dict(kind=kind), dict(self.case, contract=msg), what='%s: icontract ensure broken on %s: %s' % (self.label, kind, msg))

    def captured(self):
        """values recorded by StreamCapture / Waveform leaves must fit the width of the wire they watched"""
        for l in netgen.my_leaves(self.hw):
            n = type(l).__name__
            if n == 'StreamCapture':
                w = l.x.getWidth()
                data = l.data
                self.stats['captured_values'] = self.stats.get('captured_values', 0) + len(data)
                self.run.ev(len(data))
                badv = [v for v in data if relation(v, w) != 'ok']
                if badv:
                    self.run.violation('captured_out_of_range', dict(by=n, relation=relation(badv[0], w)), self.case, observed=badv[:3],
                                       what='%s: StreamCapture recorded %r for a %d-bit wire' % (self.label, badv[0], w))
            elif n == 'Waveform':
                pos = {id(x): k for k, x in enumerate(self.wires or [])}
                for wire, data in l.getDict().items():
                    if not hasattr(wire, 'getWidth'):
                        continue
                    w = wire.getWidth()
                    self.stats['captured_values'] = self.stats.get('captured_values', 0) + len(data)
                    self.run.ev(len(data))
                    badv = [v for v in data if relation(v, w) != 'ok']
                    if badv:
                        self.run.violation('captured_out_of_range', dict(by=n, relation=relation(badv[0], w)), self.case, observed=badv[:3],
                                           what='%s: Waveform %s recorded %r for the %d-bit wire %s' % (self.label, l.name, badv[0], w, wire.getFullPath()))
                        continue
                    # every sample is the value the wire itself had in the clocking phase of that cycle (seen by the probe)
                    if self.crashed or id(wire) not in pos:
                        continue
                    base = self.wave_base.get(id(l), 0)
                    if len(data) != len(self.hist) - base:
                        self.run.violation('captured_count', dict(by=n, relation='fewer' if len(data) < len(self.hist) - base else 'more', after_clear=base > 0), self.case,
                                           expected=len(self.hist) - base, observed=len(data),
                                           what='%s: Waveform %s holds %d samples of %s after %d clock cycles%s' % (
                                               self.label, l.name, len(data), wire.getFullPath(), len(self.hist) - base, ' since clear()' if base else ''))
                        continue
                    k = pos[id(wire)]
                    self.stats['waveform_samples_compared'] = self.stats.get('waveform_samples_compared', 0) + len(data)
                    for t, v in enumerate(data):
                        if v != self.hist[base + t][k]:
                            self.run.violation('captured_differs_from_wire', dict(by=n), self.case, expected=self.hist[base + t][k], observed=v,
                                               what='%s: Waveform %s recorded %r for %s (%d bits) at cycle %d, the wire held %r' % (
                                                   self.label, l.name, v, wire.getFullPath(), w, base + t, self.hist[base + t][k]))
                            break


def edit_sources(hw, rnd, stats):
    """Between clock calls a testbench may retune the design through public attributes (the `const.value = v; sim.clk()` idiom
    of the repo's own unit tests): Constant.value, entries of Sequence.values, Reg.reset_value get negative / oversized /
    in-range values.  Whatever is assigned, the wires must stay in range."""
    for l in netgen.my_leaves(hw):
        n = type(l).__name__
        if n == 'Constant' and rnd.random() < 0.35:
            w = l.r.getWidth()
            l.value = rnd.choice([-1, 1 << w, (1 << w) + 5, -(1 << w) - 3, (1 << w) - 1, 0, rnd.getrandbits(w), (1 << (w + 9)) - 1, -rnd.getrandbits(w + 2) - 1])
            stats['source_edits_Constant'] = stats.get('source_edits_Constant', 0) + 1
        elif n == 'Sequence' and rnd.random() < 0.5 and getattr(l, 'values', None):
            w = l.r.getWidth()
            l.values[rnd.randrange(len(l.values))] = rnd.choice([-1, 1 << w, (1 << w) + 5, -(1 << w) - 3, rnd.getrandbits(w), 1 << 70])
            stats['source_edits_Sequence'] = stats.get('source_edits_Sequence', 0) + 1
        elif n == 'Reg' and rnd.random() < 0.15:
            w = l.q.getWidth()
            l.reset_value = rnd.choice([-1, 1 << w, (1 << w) + 5, -(1 << w) - 3, rnd.getrandbits(w)])
            stats['source_edits_Reg_reset_value'] = stats.get('source_edits_Reg_reset_value', 0) + 1


def add_waveform_observers(hw, rnd, stats):
    """Harness waveforms over watch lists as users write them: wires of mixed widths, the same wire listed twice, a wire
    together with one of its InPort/OutPort objects; once in random order and once widest first (a repeated wide wire
    ahead of narrower ones)."""
    py4hw = P()
    wires = [w for w in hooks.all_wires(hw) if type(w).__name__ in ('Wire', 'BidirWire')]
    if len(wires) < 2:
        return
    ports = {}
    for o in hooks.all_logic(hw):
        for p in list(o.inPorts) + list(o.outPorts):
            if p.wire is not None:
                ports.setdefault(id(p.wire), []).append(p)
    chosen = rnd.sample(wires, min(len(wires), rnd.randint(2, 6)))
    lst = list(chosen)
    nrep = nport = 0
    for w in rnd.sample(chosen, min(len(chosen), rnd.randint(1, 3))):
        if ports.get(id(w)) and rnd.random() < 0.5:
            lst.append(rnd.choice(ports[id(w)]))
            nport += 1
        else:
            lst.append(w)
            nrep += 1

    def width(x):
        return (x if hasattr(x, 'getWidth') else x.wire).getWidth()
    a = list(lst)
    rnd.shuffle(a)
    b = sorted(lst, key=lambda x: -width(x))
    for k, watch in enumerate((a, b)):
        py4hw.Waveform(hw, 'verif_wv%d' % k, list(watch))
    stats['waveform_observers'] = stats.get('waveform_observers', 0) + 2
    stats['watch_entries'] = stats.get('watch_entries', 0) + 2 * len(lst)
    stats['watch_repeated_wires'] = stats.get('watch_repeated_wires', 0) + 2 * nrep
    stats['watch_ports_of_listed_wires'] = stats.get('watch_ports_of_listed_wires', 0) + 2 * nport


def observe(run, make, vectors, case, stats, label, cycles_per_vector=1):
    """make() -> (hw, [input wires]).  Builds, attaches probe + listener, runs all vectors under the E1 hooks.
    Returns the list of per-vector raw-out-of-range counts (None when the design did not build/simulate)."""
    cls = classes()
    try:
        with muted():
            hw, ins = make()
    except Exception as e:
        stats['build_failed'] = stats.get('build_failed', 0) + 1
        stats.setdefault('build_failed_examples', []).append('%s: %r' % (label, e))
        return None
    mon = Monitor(run, hw, case, stats, label)
    with muted():
        try:
            add_waveform_observers(hw, rng(0, 'C06', 'watch', label), stats)
        except Exception as e:
            stats['observer_failed'] = stats.get('observer_failed', 0) + 1
            stats.setdefault('sim_raised_examples', []).append('%s: waveform observer %r' % (label, e))
        cls['Probe'](hw, 'verif_probe', mon.scan)
    per_vector = []
    with hooks.install(keep_events=False, contracts=True) as rec:
        try:
            with muted():
                sim = hw.getSimulator()
            sim.addListener(cls['Listener'](mon.scan))
            mon.scan('construct')
            mrnd = rng(0, 'C06', 'edit', label)
            clear_at = {len(vectors) // 3, (2 * len(vectors)) // 3} if len(vectors) >= 6 else set()
            for kvec, vec in enumerate(vectors):
                before = rec.raw_oor
                if kvec in clear_at:
                    # the user empties the waveforms in mid-run; what is recorded afterwards is judged like before
                    for l in netgen.my_leaves(hw):
                        if type(l).__name__ == 'Waveform':
                            l.clear()
                            mon.wave_base[id(l)] = len(mon.hist)
                            stats['waveform_clears'] = stats.get('waveform_clears', 0) + 1
                edit_sources(hw, mrnd, stats)
                for w, v in zip(ins, vec):
                    w.put(v)
                with muted():
                    sim.clk(cycles_per_vector)
                mon.scan('after_clk')
                per_vector.append(rec.raw_oor - before)
        except Exception as e:
            stats['sim_raised'] = stats.get('sim_raised', 0) + 1
            mon.crashed = True
            ex = stats.setdefault('sim_raised_examples', [])
            if len(ex) < 5:
                ex.append('%s: %r' % (label, e))
            # whatever crashed (library or harness), an out-of-range value that is visible on a wire now must be reported
            try:
                mon.scan('after_error')
            except Exception:
                pass
        by = stats.setdefault('raw_by_class', {})
        for k, v in rec.raw_oor_by_class.items():
            by[k] = by.get(k, 0) + v
        stats['icontract_present'] = max(stats.get('icontract_present', 0), int(rec.icontract))
    stats['synthetic_settles'] = stats.get('synthetic_settles', 0) + rec.synthetic_settles
    for step in (lambda: mon.judge_recorder(rec), mon.captured):
        try:
            step()
        except Exception as e:      # a judging step must never hide the others
            stats['judge_raised'] = stats.get('judge_raised', 0) + 1
            stats.setdefault('sim_raised_examples', []).append('%s: judge %r' % (label, e))
    hooks.drop_pending()
    stats['designs'] = stats.get('designs', 0) + 1
    return per_vector


# --------------------------------------------------------------------------- stimulus

def extreme_vectors(widths, rnd, n_random=2, raw=True):
    if not widths:
        return [()] * 3
    m = [(1 << w) - 1 for w in widths]
    vecs = [tuple(m), tuple(0 for _ in widths), tuple(1 << (w - 1) for w in widths),
            tuple(mm if k % 2 == 0 else 0 for k, mm in enumerate(m)), tuple(0 if k % 2 == 0 else mm for k, mm in enumerate(m)),
            tuple(1 for _ in widths), tuple(mm if k == 0 else 1 for k, mm in enumerate(m)),
            tuple(0x5555555555555555555 & mm for mm in m)]
    for _ in range(n_random):
        vecs.append(tuple(rnd.getrandbits(w) for w in widths))
    if raw:
        vecs.append(tuple(-1 for _ in widths))
        vecs.append(tuple((1 << w) + 5 for w in widths))
        vecs.append(tuple(-(1 << w) for w in widths))
        vecs.append(tuple(rnd.choice([-3, (1 << w), (1 << (w + 7)) - 1, 1 << 70]) for w in widths))
    return vecs


# --------------------------------------------------------------------------- workloads

def catalogue_case(run, entry, cfg, rnd, stats):
    py4hw = P()

    def make():
        hw = py4hw.HWSystem()
        ins, outs = entry.build(hw, cfg, hw.wire)
        return hw, ins
    sig = netgen.signature(entry.name, cfg)
    if 'error' in sig:
        stats['catalogue_config_does_not_build'] = stats.get('catalogue_config_does_not_build', 0) + 1
        return
    widths = [sig['pins'][k][1] for k in sig['ins']]
    vecs = extreme_vectors(widths, rnd)
    case = dict(workload='catalogue', block=entry.name, cfg=netgen.cfg_json(cfg), vectors=[list(v) for v in vecs])
    pv = observe(run, make, vecs, case, stats, '%s%r' % (entry.name, cfg))
    if pv is not None:
        # configuration classes of the catalogue: designs actually observed, and those where the result wire is narrower than an operand
        # driven all-ones / MSB-only (where a missing mask on a parameter-dependent path shows)
        ow = [sig['pins'][k][1] for k in sig['outs']]
        for k in catalog.classify(entry.name, cfg):
            stats['catalogue_class_%s_designs' % k] = stats.get('catalogue_class_%s_designs' % k, 0) + 1
            if widths and ow and min(ow) < max(widths):
                stats['catalogue_class_%s_designs_result_narrower' % k] = stats.get('catalogue_class_%s_designs_result_narrower' % k, 0) + 1
            if cfg in entry.range_only:
                stats['catalogue_class_%s_designs_range_only' % k] = stats.get('catalogue_class_%s_designs_range_only' % k, 0) + 1
    by = stats.setdefault('per_block', {})
    by[entry.name] = by.get(entry.name, 0) + 1
    if pv:
        for k, n in enumerate(pv):
            if n:
                run.nt(stable_hash(['cat', entry.name, netgen.cfg_json(cfg), list(vecs[k])]))
        if sum(pv) and stats.get('designs', 0) % 97 == 0:
            run.sample(dict(workload='catalogue', block=entry.name, cfg=cfg, vector=vecs[pv.index(max(pv))], raw_out_of_range_arguments=max(pv)))


def _plan(wires, inputs, blocks, bidir=()):
    p = netgen.new_plan()
    for wid, w in wires.items():
        d = dict(id=wid, w=w, scope='')
        if wid in bidir:
            d['bidir'] = True
        p['wires'].append(d)
    p['inputs'] = list(inputs)
    p['blocks'] = blocks
    return p


def special_plans():
    """hand-picked overflow designs named in the property / design section"""
    C = netgen.cat_block
    N = netgen.native_block
    out = []
    for a, r in [(2, 5), (1, 8), (3, 64), (8, 3)]:
        out.append(('not_wider_%d_%d' % (a, r), _plan(dict(a=a, r=r, c=r), ['a'], [C('n', 'Not', (a, r), ['a', 'r']), N('cap', 'StreamCapture', dict(x='r')),
                                                                                 N('wv', 'Waveform', dict(w0='r', w1='a'))])))
    for a, b, r in [(4, 4, 4), (8, 8, 3), (3, 5, 9), (1, 1, 1), (64, 64, 64)]:
        out.append(('sub_%d_%d_%d' % (a, b, r), _plan(dict(a=a, b=b, r=r), ['a', 'b'], [C('s', 'Sub', (a, b, r), ['a', 'b', 'r']), N('wv', 'Waveform', dict(w0='r'))])))
    for a, b, r in [(8, 8, 4), (16, 16, 5), (64, 64, 7), (4, 4, 8), (3, 3, 1)]:
        out.append(('mul_%d_%d_%d' % (a, b, r), _plan(dict(a=a, b=b, r=r), ['a', 'b'], [C('m', 'Mul', (a, b, r), ['a', 'b', 'r']), N('cap', 'StreamCapture', dict(x='r'))])))
    for a, n, r in [(4, 4, 4), (4, 9, 4), (8, 8, 3), (8, 70, 8), (3, 5, 9), (1, 1, 1)]:
        out.append(('shl_%d_%d_%d' % (a, n, r), _plan(dict(a=a, r=r), ['a'], [C('s', 'ShiftLeftConstant', (a, n, r), ['a', 'r'])])))
    for w, k in [(4, -1), (4, 16), (4, 1 << 40), (1, 2), (8, -300), (64, -(1 << 70)), (3, 7), (5, -(1 << 5))]:
        out.append(('constant_%d_%d' % (w, k), _plan(dict(r=w), [], [C('c', 'Constant', (w, k), ['r']), N('cap', 'StreamCapture', dict(x='r'))])))
    for w in (1, 4, 8, 33):
        vals = [-1, 1 << w, 5, -(1 << (w + 3)), (1 << 70) + 3, (1 << w) - 1, -(1 << w) + 1]
        for once in (False, True):
            out.append(('sequence_%d_%d' % (w, once), _plan(dict(r=w, q=max(1, w - 1)), [], [N('s', 'Sequence', dict(r='r'), dict(values=vals, once=once)),
                                                                                          N('g', 'Reg', dict(d='r', q='q', enable=None, reset=None), dict(reset_value=-7)),
                                                                                          N('wv', 'Waveform', dict(w0='r', w1='q'))])))
    for w, mean, sd in [(4, -50, 30), (8, 1e6, 1e5), (3, 0, 3), (1, 0, 10), (16, -1e9, 1e8)]:
        out.append(('randomvalue_%d_%g' % (w, mean), _plan(dict(r=w), [], [N('rv', 'RandomValue', dict(r='r'), dict(mean=mean, stddev=sd)), N('cap', 'StreamCapture', dict(x='r'))])))
    for w in (1, 3, 8):
        for rv in (-1, 1 << w, (1 << w) + 3, -(1 << w) - 2, (1 << 65) + 1):
            out.append(('reg_reset_value_%d_%d' % (w, rv), _plan(dict(d=w, q=w, e=1, rs=1), ['d', 'e', 'rs'],
                                                                [N('g', 'Reg', dict(d='d', q='q', enable='e', reset='rs'), dict(reset_value=rv)), N('cap', 'StreamCapture', dict(x='q'))])))
    for dw, qw in [(8, 3), (16, 1), (5, 4), (64, 7)]:
        out.append(('reg_narrow_q_%d_%d' % (dw, qw), _plan(dict(d=dw, q=qw), ['d'], [N('g', 'Reg', dict(d='d', q='q', enable=None, reset=None), {})])))
        out.append(('latch_narrow_q_%d_%d' % (dw, qw), _plan(dict(d=dw, q=qw, e=1), ['d', 'e'], [N('l', 'Latch', dict(d='d', q='q', enable='e'), {})])))
        out.append(('treg_delay_%d_%d' % (dw, qw), _plan(dict(a=dw, r=qw, e=1, rs=1), ['a', 'e', 'rs'], [N('dl', 'DelayLine', dict(a='a', en='e', reset='rs', r='r'), dict(delay=2))])))
    for a, r in [(8, 3), (5, 2), (16, 7), (2, 1), (4, 9)]:
        out.append(('signextend_%d_%d' % (a, r), _plan(dict(a=a, r=r), ['a'], [C('s', 'SignExtend', (a, r), ['a', 'r'])])))
        out.append(('zeroextend_%d_%d' % (a, r), _plan(dict(a=a, r=r), ['a'], [C('z', 'ZeroExtend', (a, r), ['a', 'r'])])))
        out.append(('neg_%d_%d' % (a, r), _plan(dict(a=a, r=r), ['a'], [C('z', 'Neg', (a, r), ['a', 'r'])])))
    for e in ('Div', 'Mod'):
        for a, b, r in [(4, 4, 4), (8, 3, 2), (5, 5, 1), (16, 16, 16)]:
            out.append(('%s_by_zero_%d_%d_%d' % (e.lower(), a, b, r), _plan(dict(a=a, b=b, r=r), ['a', 'b'], [C('d', e, (a, b, r), ['a', 'b', 'r']), N('cap', 'StreamCapture', dict(x='r'))])))
    for a, b, r in [(4, 4, 4), (8, 8, 8), (3, 9, 3)]:
        out.append(('addcarryin_%d_%d_%d' % (a, b, r), _plan(dict(a=a, b=b, r=r, ci=1), ['a', 'b', 'ci'], [C('x', 'AddCarryIn', (a, b, r), ['a', 'b', 'r', 'ci'])])))
    for pw, bw, iw in [(8, 4, 8), (8, 4, 2), (16, 1, 16), (3, 3, 1)]:
        out.append(('bidirbuf_%d_%d_%d' % (pw, bw, iw), _plan(dict(pout=pw, bd=bw, pin=iw, poe=1), ['pout', 'poe', 'bd'],
                                                            [N('bb', 'BidirBuf', dict(pout='pout', poe='poe', pin='pin', bidir='bd'), {})], bidir=('bd',))))
    for kind in ('SynchronousMemory', 'AsynchronousMemory'):
        for dw, rw in [(8, 3), (16, 1), (4, 4)]:
            out.append(('%s_%d_%d' % (kind, dw, rw), _plan(dict(ra=2, wa=2, we=1, rd=rw, wd=dw), ['ra', 'wa', 'we', 'wd'],
                                                          [N('m', kind, dict(read_address='ra', write_address='wa', write='we', readdata='rd', writedata='wd'), {})])))
    for vw in (4, 7, 8, 1):
        out.append(('msgsequencer_v%d' % vw, _plan(dict(ready=1, valid=1, v=vw), ['ready'], [N('ms', 'MsgSequencer', dict(ready='ready', valid='valid', v='v'), dict(msg='~Az\x7f\xff'))])))
    # user-style behavioural blocks that write one wire twice per evaluation, the last time out of range
    for aw, rw in [(4, 4), (8, 3), (3, 8), (1, 1), (16, 5)]:
        for mode in (0, 1, 2):
            out.append(('double_prepare_%d_%d_m%d' % (aw, rw, mode), _plan(dict(a=aw, r=rw, q=rw), ['a'],
                        [N('dp', 'DoublePrepare', dict(a='a', r='r'), dict(mode=mode)), N('g', 'Reg', dict(d='r', q='q', enable=None, reset=None), {}),
                         N('wv', 'Waveform', dict(w0='r', w1='q'))])))
        for mode in (0, 1):
            out.append(('double_put_%d_%d_m%d' % (aw, rw, mode), _plan(dict(a=aw, r=rw), ['a'],
                        [N('dp', 'DoublePut', dict(a='a', r='r'), dict(mode=mode)), N('cap', 'StreamCapture', dict(x='r'))])))
    # user-style leaves with an InOut port driving a bidirectional wire: clocked (prepare) and combinational (put);
    # the pad is read back by a BidirBuf that never drives it, captured by a StreamCapture and a Waveform
    for pw, aw in [(4, 8), (1, 3), (7, 7), (3, 16), (8, 4)]:
        for step in (7, -3, (1 << pw) + 1, -(1 << (pw + 2)) - 1):
            for use_a in (False, True):
                wires = dict(pad=pw, pin=pw + 2, pout=pw, poe=1, a=aw)
                blocks = [N('pd', 'PadPrepare', dict(pad='pad', a='a' if use_a else None), dict(step=step, start=0)),
                          C('c0', 'Constant', (pw, 0), ['pout']), C('c1', 'Constant', (1, 0), ['poe']),
                          N('bb', 'BidirBuf', dict(pout='pout', poe='poe', pin='pin', bidir='pad'), {}),
                          N('cap', 'StreamCapture', dict(x='pad')), N('wv', 'Waveform', dict(w0='pad', w1='pin'))]
                out.append(('pad_prepare_%d_%d_s%d_%d' % (pw, aw, step, use_a), _plan(wires, ['a'], blocks, bidir=('pad',))))
        for k, off in ((3, 5), (1, 1 << (pw + 1)), ((1 << pw) + 1, 0), (-1, 0)):
            wires = dict(pad=pw, a=aw, pin=pw + 1, pout=pw, poe=1)
            blocks = [N('pp', 'PadPut', dict(pad='pad', a='a'), dict(k=k, off=off)),
                      C('c0', 'Constant', (pw, 0), ['pout']), C('c1', 'Constant', (1, 0), ['poe']),
                      N('bb', 'BidirBuf', dict(pout='pout', poe='poe', pin='pin', bidir='pad'), {}),
                      N('cap', 'StreamCapture', dict(x='pad')), N('wv', 'Waveform', dict(w0='pad'))]
            out.append(('pad_put_%d_%d_k%d_o%d' % (pw, aw, k, off), _plan(wires, ['a'], blocks, bidir=('pad',))))
    # multi-bit wires on carry / control ports (the constructors accept them), results wider than / equal to / narrower
    # than the operands; the carry is poked (all-ones, raw out-of-range) or driven by a free running counter (long runs)
    for kind in ('AddCarryInWide', 'AddWideCI', 'SubBorrowInWide'):
        for aw, bw, rw, cw in [(4, 4, 5, 3), (4, 4, 4, 4), (8, 3, 9, 8), (3, 5, 6, 7), (8, 8, 16, 12), (1, 1, 2, 2), (6, 6, 3, 6), (16, 16, 17, 16)]:
            if rw < aw:
                continue        # AddCarryIn / SubBorrowIn (also inside Add) assert rw >= aw
            out.append(('%s_poked_%d_%d_%d_ci%d' % (kind, aw, bw, rw, cw), _plan(dict(a=aw, b=bw, r=rw, ci=cw), ['a', 'b', 'ci'],
                        [N('x', kind, dict(a='a', b='b', ci='ci', r='r')), N('cap', 'StreamCapture', dict(x='r'))])))
            out.append(('%s_counter_%d_%d_%d_ci%d' % (kind, aw, bw, rw, cw), _plan(dict(a=aw, b=bw, r=rw, ci=cw, inc=1), ['a', 'b', 'inc'],
                        [N('k', 'Counter', dict(reset=None, inc='inc', q='ci')), N('x', kind, dict(a='a', b='b', ci='ci', r='r')),
                         N('wv', 'Waveform', dict(w0='r', w1='ci'))])))
    for w, cw in [(4, 3), (8, 2), (1, 4)]:
        out.append(('reg_wide_ctl_%d_%d' % (w, cw), _plan(dict(d=w, q=max(1, w - 1), e=cw, rs=cw), ['d', 'e', 'rs'],
                                                        [N('g', 'Reg', dict(d='d', q='q', enable='e', reset='rs'), dict(reset_value=(1 << w) + 1))])))
        out.append(('counter_wide_ctl_%d_%d' % (w, cw), _plan(dict(q=w, inc=cw, rs=cw), ['inc', 'rs'], [N('k', 'Counter', dict(reset='rs', inc='inc', q='q'))])))
        out.append(('mux2_wide_sel_%d_%d' % (w, cw), _plan(dict(s=cw, a=w, b=w, r=w), ['s', 'a', 'b'], [C('m', 'Mux2', (w, cw), ['s', 'a', 'b', 'r'])])))
        out.append(('delayline_wide_ctl_%d_%d' % (w, cw), _plan(dict(a=w, r=w, e=cw, rs=cw), ['a', 'e', 'rs'], [N('dl', 'DelayLine', dict(a='a', en='e', reset='rs', r='r'), dict(delay=2))])))
    # narrow Div/Mod/SignedDiv whose divisor is 0 (constant, or an input that is 0 on most cycles): the library puts a random
    # value then, which must still be in range on the result and on every wire of the Buf / Mux2 / And2 / Or2 chain behind it
    for kind, widths in (('Div', [(1, 1, 1), (2, 2, 2), (3, 3, 3), (2, 1, 1), (3, 2, 2)]), ('Mod', [(1, 1, 1), (2, 2, 2), (3, 3, 3), (3, 1, 2)]),
                         ('SignedDiv', [(2, 2, 2), (3, 3, 3)])):
        for aw, bw, rw in widths:
            for zero in ('const', 'input'):
                wires = dict(a=aw, b=bw, r=rw, r1=rw, r2=rw, r3=rw, r4=rw, s=1, o=rw)
                blocks = [C('dv', kind, (aw, bw, rw), ['a', 'b', 'r']), C('b1', 'Buf', (rw, rw), ['r', 'r1']), C('m', 'Mux2', (rw, 1), ['s', 'r1', 'r', 'r2']),
                          C('b2', 'Buf', (rw, rw), ['r2', 'r3']), C('o2', 'Or2', (rw,), ['r3', 'r1', 'r4']), N('g', 'Reg', dict(d='r4', q='o', enable=None, reset=None), {}),
                          N('cap', 'StreamCapture', dict(x='r3'))]
                ins = ['a', 's']
                if zero == 'const':
                    blocks.append(C('z', 'Constant', (bw, 0), ['b']))
                else:
                    ins.append('b')
                out.append(('%s_zero_divisor_%s_%d_%d_%d' % (kind.lower(), zero, aw, bw, rw), _plan(wires, ins, blocks)))
    for w in (1, 2, 5):
        out.append(('counter_%d' % w, _plan(dict(rs=1, inc=1, q=w), ['rs', 'inc'], [N('k', 'Counter', dict(reset='rs', inc='inc', q='q'), {}), N('wv', 'Waveform', dict(w0='q'))])))
        out.append(('modcounter_%d' % w, _plan(dict(rs=1, inc=1, q=w, co=1), ['rs', 'inc'], [N('k', 'ModuloCounter', dict(reset='rs', inc='inc', q='q', carryout='co'), dict(mod=(1 << w) + 1))])))
    out.append(('axi2clkfsm_narrow', _plan(dict(ah=1, ct=8, rc=1, cc=2, co=1, lo=1), ['ah', 'ct', 'rc'],
                                           [N('f', 'Axi2ClkFSM', dict(active_handshake='ah', clk_target='ct', reset_clk_count='rc', clk_count='cc', clk_out='co', load_outs='lo'), {})])))
    out.append(('uartdeser_narrow_v', _plan(dict(rx=1, rs=1, rdy=1, val=1, v=3, ds=1), ['rx', 'rs', 'rdy'],
                                            [N('f', 'UARTDeserializer', dict(rx='rx', rx_sample='rs', ready='rdy', valid='val', v='v', clock_desync='ds'), {})])))
    return out


def plan_case(run, name, plan, rnd, stats, workload, n_cycles=None, raw=True, zero_bias=False):
    ws = {w['id']: w['w'] for w in plan['wires']}
    widths = [ws[i] for i in plan['inputs']]
    vecs = extreme_vectors(widths, rnd, n_random=3, raw=raw)
    if n_cycles:
        while len(vecs) < n_cycles:
            vecs.append(tuple(rnd.getrandbits(w) for w in widths))
    if not widths:
        vecs = [()] * (n_cycles or 12)
    if zero_bias:
        # the last input (a divisor) is 0 on most cycles
        vecs = [tuple(v[:-1]) + ((0,) if k % 4 else (v[-1],)) for k, v in enumerate(vecs)]

    def make():
        b = netgen.build(plan)
        return b.hw, [b.W[i] for i in plan['inputs']]
    case = dict(workload=workload, name=name, plan=plan, vectors=[list(v) for v in vecs])
    pv = observe(run, make, vecs, case, stats, name)
    by = stats.setdefault('per_workload', {})
    by[workload] = by.get(workload, 0) + 1
    if pv:
        ph = netgen.plan_hash(plan)
        for k, n in enumerate(pv):
            if n:
                run.nt(stable_hash([workload, ph, k, list(vecs[k])]))
    return pv


NONINT = ['float_1.5', 'float_253.75', 'float_-0.5', 'float_1e30', 'inf', '-inf', 'nan', 'fraction_7_2', 'np_float64', 'np_float32', 'np_float16',
          'none', 'str_7', 'decimal_3.5', 'complex_3', 'bytes', 'list', 'np_int64', 'np_uint8', 'bool', 'np_bool']


def nonint(code):
    import decimal
    import fractions
    import numpy
    return {'float_1.5': 1.5, 'float_253.75': 253.75, 'float_-0.5': -0.5, 'float_1e30': 1e30, 'inf': float('inf'), '-inf': float('-inf'), 'nan': float('nan'),
            'fraction_7_2': fractions.Fraction(7, 2), 'np_float64': numpy.float64(6.25), 'np_float32': numpy.float32(2.5), 'np_float16': numpy.float16(1.5),
            'none': None, 'str_7': '7', 'decimal_3.5': decimal.Decimal('3.5'), 'complex_3': 3 + 0j, 'bytes': b'1', 'list': [1],
            'np_int64': numpy.int64(300), 'np_uint8': numpy.uint8(200), 'bool': True, 'np_bool': numpy.bool_(True)}[code]


def decode_plan(o):
    """'ni:<code>' strings in plan parameters / catalogue cfgs stand for the non-integer objects of nonint()"""
    if isinstance(o, dict):
        return {k: decode_plan(v) for k, v in o.items()}
    if isinstance(o, list):
        return [decode_plan(v) for v in o]
    if isinstance(o, str) and o.startswith('ni:'):
        return nonint(o[3:])
    return o


def nonint_plans():
    C = netgen.cat_block
    N = netgen.native_block
    out = []
    # stimulus put() on undriven inputs
    out.append(('nonint_put_inputs', _plan(dict(a=8, b=8, r=8, q=8, c=1), ['a', 'b', 'c'],
                                           [C('s', 'Sub', (8, 8, 8), ['a', 'b', 'r']), N('g', 'Reg', dict(d='r', q='q', enable='c', reset=None), {}),
                                            N('wv', 'Waveform', dict(w0='a', w1='r', w2='q'))]), 'inputs'))
    out.append(('nonint_put_bidir', _plan(dict(pout=4, bd=4, pin=4, poe=1), ['pout', 'poe', 'bd'],
                                          [N('bb', 'BidirBuf', dict(pout='pout', poe='poe', pin='pin', bidir='bd'), {})], bidir=('bd',)), 'inputs'))
    # user blocks that compute with true division
    for k in (2, 3, 0.5):
        out.append(('nonint_floatput_k%s' % k, _plan(dict(a=8, r=8, q=4), ['a'], [N('f', 'FloatPut', dict(a='a', r='r'), dict(k=k)),
                                                                              N('g', 'Reg', dict(d='r', q='q', enable=None, reset=None), {})]), 'ints'))
        out.append(('nonint_floatprepare_k%s' % k, _plan(dict(a=8, r=8, x=8), ['a'], [N('f', 'FloatPrepare', dict(a='a', r='r'), dict(k=k)),
                                                                                     C('n', 'Not', (8, 8), ['r', 'x']), N('cap', 'StreamCapture', dict(x='r'))]), 'ints'))
    # non-integer constants / stimulus data / reset values
    for code in NONINT:
        v = 'ni:' + code
        # Constant asserts an int at construction; the value is reassigned afterwards (the `const.value = v; sim.clk()` idiom)
        out.append(('nonint_constant_' + code, _plan(dict(r=8, x=8), [], [C('c', 'Constant', (8, 3), ['r']), C('n', 'Not', (8, 8), ['r', 'x'])]), 'const:' + code))
        out.append(('nonint_sequence_' + code, _plan(dict(r=8, q=8), [], [N('s', 'Sequence', dict(r='r'), dict(values=[3, v, 200, v], once=False)),
                                                                           N('g', 'Reg', dict(d='r', q='q', enable=None, reset=None), {})]), 'none'))
        out.append(('nonint_reg_reset_' + code, _plan(dict(d=8, q=8, rs=1), ['d', 'rs'], [N('g', 'Reg', dict(d='d', q='q', enable=None, reset='rs'), dict(reset_value=v))]), 'ints'))
    return out


def nonint_case(run, name, plan, drive, stats):
    """"the value is an integer v": a non-integer offered to a wire (stimulus, constant, sequence data, reset value, the result of a
    user block) is either refused with an exception or what ends up on the wire is still an integer in range.
    drive: 'inputs' -> every NONINT object is put() on every input, then clk(1); 'ints' -> integer stimulus; 'none' -> just clock."""
    cls = classes()
    case = dict(workload='nonint', name=name, plan=plan, drive=drive, vectors=[])
    by = stats.setdefault('per_workload', {})
    by['nonint'] = by.get('nonint', 0) + 1
    hw = None
    mon = None
    with hooks.install(keep_events=False, contracts=True) as rec:
        try:
            with muted():
                b = netgen.build(decode_plan(plan))
                hw = b.hw
                mon = Monitor(run, hw, case, stats, name)
                cls['Probe'](hw, 'verif_probe', mon.scan)
                sim = hw.getSimulator()
            sim.addListener(cls['Listener'](mon.scan))
            mon.scan('construct')
        except Exception:
            stats['nonint_refused_at_creation'] = stats.get('nonint_refused_at_creation', 0) + 1
            sim = None
            if hw is not None:
                mon = mon or Monitor(run, hw, case, stats, name)
                mon.crashed = True
                mon.scan('after_refusal')
        if sim is not None:
            ins = [b.W[i] for i in plan['inputs']]
            steps = []
            if drive == 'inputs':
                for code in NONINT:
                    for w in ins:
                        steps.append((w, code))
            elif drive.startswith('const:'):
                steps = [(None, None), ('const', drive[6:]), (None, None), ('const', drive[6:])]
            else:
                for k in range(8):
                    steps.append((None, None))
            for w, code in steps:
                stats['nonint_steps'] = stats.get('nonint_steps', 0) + 1
                try:
                    if w == 'const':
                        stats['nonint_stimuli'] = stats.get('nonint_stimuli', 0) + 1
                        for l in netgen.my_leaves(hw):
                            if type(l).__name__ == 'Constant':
                                l.value = nonint(code)
                    elif w is not None:
                        stats['nonint_stimuli'] = stats.get('nonint_stimuli', 0) + 1
                        w.put(nonint(code))
                        stats['nonint_put_accepted'] = stats.get('nonint_put_accepted', 0) + 1
                    elif drive == 'ints':
                        for k, x in enumerate(ins):
                            x.put((37 * stats['nonint_steps'] + 11 * k) & 0xFF)
                    with muted():
                        sim.clk(1)
                    mon.scan('after_clk')
                except Exception:
                    stats['nonint_refused'] = stats.get('nonint_refused', 0) + 1
                    mon.crashed = True
                    hooks.drop_pending()
                    mon.scan('after_refusal')
    if mon is not None:
        for step in (lambda: mon.judge_recorder(rec), mon.captured):
            try:
                step()
            except Exception as e:
                stats['judge_raised'] = stats.get('judge_raised', 0) + 1
                stats.setdefault('sim_raised_examples', []).append('%s: judge %r' % (name, e))
    hooks.drop_pending()
    stats['nonint_designs'] = stats.get('nonint_designs', 0) + 1


def run_check(run, tier, seed, shard):
    import numpy
    run.assume('every wire reachable from the HWSystem = _wires of every Logic in the hierarchy plus every port wire; FakeWire objects are not wires')
    run.assume('bool counts as an integer (numbers.Integral); the write post-condition additionally demands stored == argument mod 2**width for integral '
               'arguments, which is how the library realises "fit" (a narrower mask would keep the range but silently drop the top bit)')
    run.assume('a non-integer (float, Fraction, Decimal, numpy float, None, str, ...) offered to a wire must either be refused with an exception or leave an integer in range on the wire; '
               'on the pinned tree every such object is refused with TypeError (numpy integers and bools are integers and are accepted)')
    run.assume('out-of-range stimulus is applied through Wire.put on undriven wires (the documented way to drive inputs); the numpy/random generators used by '
               'RandomValue and Div/Mod-by-zero are seeded by the harness for reproducibility')
    quick = tier == 'quick'
    sh = shard[0] if shard else 0
    random.seed(seed * 1000 + sh)
    numpy.random.seed((seed * 1000 + sh) % (2 ** 32))
    stats = {}
    t0 = time.time()
    budget = 400 if quick else 2400

    # 1. hand-picked overflow designs
    sp = special_plans()
    for k in shard_slice(range(len(sp)), shard):
        name, plan = sp[k]
        pv = plan_case(run, name, plan, rng(seed, 'C06', 'special', name), stats, 'special', n_cycles=130 if '_counter_' in name else (60 if '_zero_divisor_' in name else 14), zero_bias=('_zero_divisor_input' in name))
        if pv is None:
            run.inconclusive.append('special design %s did not build' % name)
        elif k % 23 == 0:
            run.sample(dict(workload='special', name=name, raw_out_of_range_arguments=sum(pv), cycles=len(pv)))

    # 1b. non-integers offered to wires
    npl = nonint_plans()
    for k in shard_slice(range(len(npl)), shard):
        name, plan, drive = npl[k]
        import warnings
        with warnings.catch_warnings():
            warnings.simplefilter('ignore')     # numpy scalars accepted as integers make numpy warn about wrap-around in the blocks
            nonint_case(run, name, plan, drive, stats)

    # 2. catalogue sweep
    work = []
    for e in catalog.ENTRIES:
        cfgs = e.configs(tier)
        # the named boundary families of the catalogue (constant parameter at {0, 1, w-1, w, ...} x result wire narrower / equal / wider,
        # control wires wider than one bit) are never sampled away; configurations whose value nothing defines (range_only) are
        # still subject to the range invariant
        keep = [c for c in e.keep if c in cfgs]
        if quick:
            rnd = rng(seed, 'C06', 'pick', e.name)
            cap = 60
            rest = [c for c in cfgs if c not in keep]
            if len(rest) > cap:
                idx = sorted(set([0, len(rest) - 1] + rnd.sample(range(len(rest)), cap - 2)))
                rest = [rest[i] for i in idx]
            cfgs = rest + keep
        cfgs = list(cfgs) + list(e.range_only)
        work += [(e, c) for c in cfgs]
    for j in shard_slice(range(len(work)), shard):
        if time.time() - t0 > budget * 0.7 or run.too_many:
            stats['catalogue_skipped_time'] = stats.get('catalogue_skipped_time', 0) + 1
            continue
        e, cfg = work[j]
        catalogue_case(run, e, cfg, rng(seed, 'C06', 'cat', e.name, cfg), stats)

    # 3. random compositions
    n_comp = 240 if quick else 24000
    for i in shard_slice(range(n_comp), shard):
        if time.time() - t0 > budget or run.too_many:
            stats['compositions_skipped_time'] = stats.get('compositions_skipped_time', 0) + 1
            continue
        rnd = rng(seed, 'C06', 'comp', i)
        if i % 4 == 3:
            plan = netgen.gen_seq(rnd, rnd.randint(2, 6))
            wl = 'netgen_seq'
        else:
            plan = netgen.gen_dag(rnd, rnd.randint(3, 14 if quick else 30), n_regs=rnd.randint(1, 4), n_boxes=rnd.randint(0, 2), allow_random=True, reg_narrow=True, tier=tier, wide_ctl=0.5)
            wl = 'netgen_dag'
        plan_case(run, '%s_%d' % (wl, i), plan, rnd, stats, wl, n_cycles=16 if quick else 60)

    for k in ('per_block', 'per_workload', 'raw_by_class'):
        run.extra[k if k != 'raw_by_class' else 'raw_out_of_range_by_leaf_class'] = stats.pop(k, {})
    for k in ('build_failed_examples', 'sim_raised_examples'):
        v = stats.pop(k, None)
        if v:
            run.extra[k] = v[:10]
    ic = stats.pop('icontract_present', 0)
    run.extra['icontract_layer'] = {'present': ic}
    for k, v in stats.items():
        run.count(k, v)
    if shard is None:
        post_merge(run, tier, seed)


def post_merge(run, tier, seed):
    c = run.counters
    for k, why in (('wire_observations', 'no wire was observed'), ('scans_probe', 'the clocking-phase probe never ran'),
                   ('scans_listener', 'the listener never ran'), ('scans_construct', 'nothing observed after construction'),
                   ('write_postconditions', 'no put/prepare/settle post-condition was evaluated'), ('events_prepare', 'no prepare event'),
                   ('events_put', 'no put event'), ('captured_values', 'no StreamCapture/Waveform value was inspected'),
                   ('source_edits_Constant', 'no Constant.value was reassigned between clock calls'), ('source_edits_Sequence', 'no Sequence data was edited between clock calls'),
                   ('nonint_stimuli', 'no non-integer stimulus was offered to a wire'), ('nonint_refused', 'no non-integer was refused (nothing decided about them)'),
                   ('waveform_clears', 'no Waveform was cleared in mid-run'),
                   ('waveform_samples_compared', 'no Waveform sample was compared with the live wire'),
                   ('catalogue_class_param_boundary_designs_result_narrower', 'no constant-parameter boundary configuration with a narrower result wire was observed'),
                   ('catalogue_class_wide_control_designs', 'no configuration with a control wire wider than one bit was observed'),
                   ('watch_repeated_wires', 'no Waveform watch list with a repeated wire'), ('watch_ports_of_listed_wires', 'no watch list with a wire and one of its ports')):
        if not c.get(k):
            run.inconclusive.append(why)
    if c.get('catalogue_skipped_time') or c.get('compositions_skipped_time'):
        run.inconclusive.append('watchdog: %d catalogue / %d composition cases skipped' % (c.get('catalogue_skipped_time', 0), c.get('compositions_skipped_time', 0)))
    if c.get('observer_failed'):
        run.inconclusive.append('%d waveform observers could not be attached' % c['observer_failed'])
    if c.get('build_failed'):
        run.inconclusive.append('%d designs did not build: %s' % (c['build_failed'], run.extra.get('build_failed_examples', [])[:2]))
    if c.get('sim_raised', 0) > 0 or c.get('judge_raised', 0) > 0:
        run.extra['note_sim_raised'] = 'designs whose simulation raised were observed up to that point and once more after the error'
        run.inconclusive.append('%d designs raised during simulation / %d judging steps raised: %s' % (
            c.get('sim_raised', 0), c.get('judge_raised', 0), run.extra.get('sim_raised_examples', [])[:2]))
    ic = run.extra.get('icontract_layer', {})
    if not c.get('icontract_evaluations'):
        run.assume('icontract was not importable in this run: the ensure layer evaluated 0 times; the verdict rests on the E1 post-conditions and the scans')


def replay(run, case):
    c = netgen.dehex(case['case'])
    stats = {}
    vecs = [tuple(int(v, 16) if isinstance(v, str) else v for v in vec) for vec in c['vectors']]
    n0 = len(run.violations)
    random.seed(case.get('seed', 1) * 1000)
    import numpy
    numpy.random.seed(case.get('seed', 1) * 1000)
    if c['workload'] == 'nonint':
        nonint_case(run, c.get('name', 'nonint'), c['plan'], c.get('drive', 'none'), stats)
    elif c['workload'] == 'catalogue':
        py4hw = P()
        entry = catalog.by_name(c['block'])
        cfg = netgen.norm_cfg(c['cfg'])

        def make():
            hw = py4hw.HWSystem()
            ins, outs = entry.build(hw, cfg, hw.wire)
            return hw, ins
        observe(run, make, vecs, c, stats, '%s%r' % (entry.name, cfg))
    else:
        plan = c['plan']

        def make():
            b = netgen.build(plan)
            return b.hw, [b.W[i] for i in plan['inputs']]
        observe(run, make, vecs, c, stats, c.get('name', 'plan'))
    for v in run.violations:
        print('replay:', v['key'], v['what'][:300])
    print('replay: counters', {k: v for k, v in stats.items() if isinstance(v, int)})
    bad = len(run.violations) > n0
    if bad:
        print('VIOLATION property=C06 replay=replayed')
    return 1 if bad else 0
