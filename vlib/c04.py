"""C04 -- combinational settling: complete, order independent, cycles refused (DESIGN.md section 4 C04).

Monitor 1 fixpoint: after getSimulator() and after every clk(), every stateless propagatable leaf is called
          once more and must not change its outputs.
Monitor 2 order independence: the same plan under k permutations of block instantiation order and wire
          creation order; all wire values by full path must agree after construction and after every cycle.
Monitor 3 schedule: sim.propagatables must be a topological order of the dependency graph recomputed from the
          plan / from the leaves' own port lists (never from Wire.sinks / Wire.source).
Monitor 5 several systems: k HWSystems alive in one process, their build (with an early getSimulator()) / extend / getSimulator() /
          clk steps interleaved by a random merge; monitors 1 and 3 judge the system that made the step.
Monitor 4 rejection: getSimulator() must raise exactly for the netlists whose recomputed graph has a cycle
          (cycles through a Reg are legal and must be accepted).
"""
import time

from . import hooks, netgen
from .common import rng, shard_slice, stable_hash, muted

LEVEL = 'exploration'
RULE = ('random netlist plans from the block catalogue (3-40 blocks = 5-250 leaves, registers in feedback, structural wrappers), '
        'each instantiated under identity/reverse/random permutations of block order and of wire order (all n! for n <= 5 blocks), '
        'designs with gated clock domains (wrappers whose ClockDriver enable is a poked input, a toggling register or a delayed input, holding registers and '
        'combinational leaves fed from outside and inside the domain), reversed/shuffled inverter chains of 50-400 leaves, size classes (chains of 1001-2500 leaves and layered netlists of 3300 leaves with combinational paths deeper than 1000 leaves, in dataflow / reversed / locally shuffled / shuffled order), and plans with one injected loop (self, 2, n, through a wrapper, '
        'rewired back edge, behind a sorted prefix; through a Reg = legal); the simulator is created through getSimulator(), directly with Simulator(sys), by a Scope constructor or by a repeated getSimulator(), and clock calls are clk(n) with n = 0, 1, 2-5, 17-40, further handles (Simulator(sys), Scope, getSimulator) are taken on the live simulator between calls while the first handle stays in use, a third of the DAGs contain run-time AbstractLogic instances whose propagate() is bound to the instance next to behaviour-less instances of the same class; groups of 2-4 systems alive in one process whose construction (with an early getSimulator()), extension with further blocks, getSimulator() and clk steps are interleaved by a random merge, each system judged by the fixpoint and schedule monitors after its own steps; a case is (plan, block order, wire order, creation mode); '
        'non-trivial = the initial leaf list of that order is not already topological (>= 1 inverted dependency edge) '
        'or the plan is cyclic; distinct by content hash of (plan, orders)')
SHARDS = {'quick': 1, 'thorough': 16}
TIMEOUT = {'quick': 600, 'thorough': 3000}
MIN_NONTRIVIAL = {'quick': 200, 'thorough': 3000}

# leaves whose propagate() is not a function of the current inputs alone (state, randomness, bidirectional)
NOT_STATELESS = {'Latch', 'AsynchronousMemory', 'BidirBuf', 'GatedClock', 'DUTProxyXRT'}
RANDOM_AT_ZERO = {'Div', 'Mod'}


# --------------------------------------------------------------------------- monitors

def stateless(leaf):
    n = type(leaf).__name__
    if n == 'BidirBuf':
        # with its output enable at 0 a BidirBuf is a plain reader: pin = value of the bidirectional wire
        try:
            return leaf.poe.get() == 0
        except Exception:
            return False
    if n in NOT_STATELESS:
        return False
    if n in RANDOM_AT_ZERO:
        try:
            return leaf.b.get() != 0
        except Exception:
            return False
    return True


def leaf_driver(leaf):
    """clock driver in force for a leaf (public py4hw.getObjectClockDriver); None when it cannot be determined"""
    try:
        import py4hw
        return py4hw.getObjectClockDriver(leaf)
    except Exception:
        return None


def fixpoint_check(run, sim, when, case, stats, leaves=None, gated_off=(), extra=None, plan_outs=None):
    """Monitor 1. Returns True when every stateless leaf is at its fixpoint.
    leaves: the propagatable leaves found by the harness' own traversal (default sim.propagatables);
    gated_off: ids of the clock drivers whose enable wire was 0 during the clock cycle just simulated -- gating a clock
    freezes registers only, so the leaves of such a domain are judged like all others (and counted)."""
    ok = True
    for leaf in list(leaves if leaves is not None else sim.propagatables):
        if not stateless(leaf):
            stats['fixpoint_skipped_stateful'] = stats.get('fixpoint_skipped_stateful', 0) + 1
            continue
        off = bool(gated_off) and id(leaf_driver(leaf)) in gated_off
        if off:
            stats['fixpoint_checks_in_gated_off_domain'] = stats.get('fixpoint_checks_in_gated_off_domain', 0) + 1
        outs = [p.wire for p in leaf.outPorts if p.wire is not None]
        for w in (plan_outs or {}).get(id(leaf), ()):
            if not any(w is o for o in outs):
                outs.append(w)      # outputs known from the PLAN (the leaf's own port lists may be what is broken)
        before = [w.value for w in outs]
        hooks.real(leaf, 'propagate')()
        after = [w.value for w in outs]
        run.ev()
        stats['fixpoint_checks'] = stats.get('fixpoint_checks', 0) + 1
        if before != after:
            ok = False
            cls = type(leaf).__name__
            run.violation('not_fixpoint', dict(dict(block=cls, when=when, domain_gated_off=off), **(extra or {})), case, expected=after, observed=before,
                          what='%s %s is not at its fixpoint %s%s%s: outputs %r, recomputed %r' % (
                              cls, leaf.getFullPath(), when, ' (its clock domain was gated off in this cycle)' if off else '',
                              ' %r' % (extra,) if extra else '', before, after))
            break
    return ok


def schedule_check(run, built, sim, leaves, succ, case, stats):
    """Monitor 3: sim.propagatables = the propagatable leaves, each once, in an order compatible with every
    dependency edge of the recomputed graph; plus the plan-level edges between primitive plan blocks."""
    order = list(sim.propagatables)
    run.ev()
    stats['schedules_checked'] = stats.get('schedules_checked', 0) + 1
    ids = [id(l) for l in order]
    if len(set(ids)) != len(ids):
        run.violation('schedule_not_topological', dict(kind='duplicate_leaf'), case, what='a leaf appears twice in sim.propagatables')
        return False
    if set(ids) != {id(l) for l in leaves}:
        miss = [l.getFullPath() for l in leaves if id(l) not in set(ids)][:5]
        run.violation('schedule_not_topological', dict(kind='leaf_set_differs'), case, observed=miss,
                      what='sim.propagatables is not the set of propagatable leaves (missing %r)' % miss)
        return False
    pos = {i: k for k, i in enumerate(ids)}
    nedges = 0
    for l in leaves:
        for s in succ[id(l)]:
            nedges += 1
            if s is l:
                continue        # self edge: judged by the rejection monitor
            if pos[id(s)] < pos[id(l)]:
                run.violation('schedule_not_topological', dict(kind='edge_violated'), case,
                              expected='%s before %s' % (l.getFullPath(), s.getFullPath()), observed='positions %d > %d' % (pos[id(l)], pos[id(s)]),
                              what='sim.propagatables evaluates %s (pos %d) before its driver %s (pos %d)' % (
                                  s.getFullPath(), pos[id(s)], l.getFullPath(), pos[id(l)]))
                return False
    stats['edges_checked'] = stats.get('edges_checked', 0) + nedges
    # plan level (from the JSON plan alone): primitive comb block A drives a wire read by primitive comb block B
    plan = built.plan
    pg = netgen.plan_graph(plan)
    bsp = {b['id']: b for b in plan['blocks']}
    for a, ss in pg.items():
        if not bsp[a].get('prim'):
            continue
        oa = built.B[a]
        for bq in ss:
            if bq == a or not bsp[bq].get('prim'):
                continue
            ob = built.B[bq]
            stats['plan_edges_checked'] = stats.get('plan_edges_checked', 0) + 1
            if id(oa) in pos and id(ob) in pos and pos[id(ob)] < pos[id(oa)]:
                run.violation('schedule_not_topological', dict(kind='plan_edge_violated'), case,
                              what='plan edge %s -> %s violated by sim.propagatables' % (a, bq))
                return False
    return True


def classify_refusal(e):
    return 'pass_limit' if 'Excessive loop count' in str(e) else type(e).__name__


def run_order(run, plan, bo, wo, hist, stats, meta, late=None, how='get'):
    """one (plan, block order, wire order): build, monitors 1, 3 (and 4 for the accept side); returns the list of
    wire-value snapshots (construction + one per cycle) or None when the case was refused / violated.
    late=k: getSimulator() is called a first time after k blocks exist; the others are late additions that the second
    getSimulator() must schedule (HWSystem.getSimulator re-sorts on every call).
    how: the way the simulator is created (netgen.Built.simulator): 'get' | 'direct' | 'scope' | 'twice'.
    hist[0] is poked before the simulator exists; every later entry is poked and followed by clk(entry.get('#n', 1))
    -- n = 0 is a legal clock call and must leave the netlist settled like any other."""
    case = dict(plan=plan, block_order=bo, wire_order=wo, inputs=hist, meta=meta, late=late, how=how)
    snaps = []
    with hooks.install(keep_events=False) as rec:
        early = []

        def on_pause(bb):
            try:
                with muted():
                    bb.hw.getSimulator()
            except Exception as e:
                early.append(e)
        try:
            b = netgen.build(plan, bo, wo, pause_at=late, on_pause=on_pause if late is not None else None)
        except Exception as e:
            # every plan is a legal netlist (it builds on the pinned tree in every order): refusing to build it is as
            # much "a legal netlist is not simulated" as a refusal by getSimulator()
            run.ev()
            run.violation('legal_netlist_does_not_build', dict(exc=type(e).__name__), case, observed=repr(e)[:300],
                          what='instantiating a legal plan raises %r' % (e,))
            return ('error', 0, [])
        leaves, succ = netgen.leaf_graph(b.hw)
        plan_outs = {id(b.B[x['id']]): [b.W[w] for w in x['outs']] for x in plan['blocks'] if x.get('prim') and x['kind'] != 'cat' and x['id'] in b.B}
        inv = netgen.inversions(leaves, succ)
        cyc = netgen.comb_cycles(b.hw)
        if early and not cyc:
            run.ev()
            run.violation('acyclic_refused', dict(reason=classify_refusal(early[0]), shape='partial', n_gt_1000=False), case, observed=repr(early[0])[:200],
                          what='partial (acyclic) netlist refused by the early getSimulator(): %r' % early[0])
            return ('refused', inv, cyc)
        if hist and hist[0]:
            b.poke(hist[0])
        try:
            sim = b.simulator(how)
            stats['created_' + how] = stats.get('created_' + how, 0) + 1
        except Exception as e:
            run.ev()
            stats['refused'] = stats.get('refused', 0) + 1
            if cyc:
                stats['cyclic_refused'] = stats.get('cyclic_refused', 0) + 1
                return ('refused', inv, cyc)
            run.violation('acyclic_refused', dict(reason=classify_refusal(e), shape=meta.get('shape', 'dag'), n_gt_1000=len(leaves) > 1000), case,
                          expected='getSimulator() accepts an acyclic netlist', observed=repr(e)[:200],
                          what='acyclic netlist (%d propagatable leaves, %d inverted edges in this order) refused: %r' % (len(leaves), inv, e))
            return ('refused', inv, cyc)
        run.ev()
        if cyc:
            sizes = sorted(len(c) for c in cyc)
            via_box = any(type(l.parent).__name__ == 'Box' for c in cyc for l in c)
            if sizes[-1] == 1:
                run.violation('selfloop_accepted', dict(scc_size=1), case, expected='getSimulator() raises', observed='simulator created',
                              what='combinational self-loop of %s accepted%s' % (cyc[0][0].getFullPath(), ' (leaf inside a structural wrapper)' if via_box else ''))
            else:
                run.violation('cycle_accepted', dict(scc_size=sizes[-1]), case, expected='getSimulator() raises', observed='simulator created',
                              what='combinational cycle over %d leaves accepted' % sizes[-1])
            stats['cyclic_accepted'] = stats.get('cyclic_accepted', 0) + 1
            return ('accepted_cyclic', inv, cyc)
        ok = schedule_check(run, b, sim, leaves, succ, case, stats)
        if late is None:
            ok = fixpoint_check(run, sim, 'construct', case, stats, leaves, extra=dict(created=how), plan_outs=plan_outs) and ok
            snaps.append(netgen.wire_values(b.hw))
        else:
            stats['late_addition_cases'] = stats.get('late_addition_cases', 0) + 1
            snaps.append(None)      # a second getSimulator() only re-sorts; values are judged after the next clk()
        # clock drivers of all leaves, and which of them are gated off at the moment the edge is simulated
        drivers = {}
        for l in netgen.my_leaves(b.hw):
            d = leaf_driver(l)
            if d is not None and getattr(d, 'enable', None) is not None:
                drivers[id(d)] = d
        off_now = set()

        def on_event(ev):
            if ev[2] == 'cycle':        # start of Simulator._clk_cycle: pre-edge values are in place
                off_now.clear()
                for k, d in drivers.items():
                    try:
                        if d.enable.get() == 0:
                            off_now.add(k)
                    except Exception:
                        pass
        if drivers:
            rec.subscribers.append(on_event)
            stats['designs_with_gated_domains'] = stats.get('designs_with_gated_domains', 0) + 1
        nh = 0
        for vals in hist[1:]:
            hk = vals.get('#handle')
            if hk:
                # a further handle / observer on the live simulator, taken WITHOUT giving up the first handle:
                # nothing observable may change ("a second observer changes nothing")
                nh += 1
                try:
                    with muted():
                        if hk == 'direct':
                            import py4hw.simulation as S
                            S.Simulator(b.hw)
                        elif hk == 'scope':
                            import py4hw
                            py4hw.Scope(b.hw, 'verif_scope_h%d' % nh, [x for x in b.W.values()][:1])
                        else:
                            b.hw.getSimulator()
                except Exception as e:
                    run.violation('second_handle_raises', dict(handle=hk, exc=type(e).__name__), case, observed=repr(e)[:200], what='taking a %s handle raises %r' % (hk, e))
                    return ('error', inv, cyc)
                stats['further_handles_' + hk] = stats.get('further_handles_' + hk, 0) + 1
                ok = schedule_check(run, b, sim, leaves, succ, dict(case, after_handle=hk), stats) and ok
            b.poke(vals)
            off_now.clear()
            ncyc = vals.get('#n', 1)
            ncls = 'n0' if ncyc == 0 else ('n1' if ncyc == 1 else 'many')
            stats['clk_calls_' + ncls] = stats.get('clk_calls_' + ncls, 0) + 1
            try:
                with muted():
                    sim.clk(ncyc)
            except Exception as e:
                run.violation('sim_raises', dict(exc=type(e).__name__), case, observed=repr(e)[:200], what='clk raises %r' % e)
                return ('error', inv, cyc)
            if off_now:
                stats['cycles_with_a_domain_gated_off'] = stats.get('cycles_with_a_domain_gated_off', 0) + 1
            elif drivers:
                stats['cycles_with_all_gated_domains_running'] = stats.get('cycles_with_all_gated_domains_running', 0) + 1
            ok = fixpoint_check(run, sim, 'after_clk', case, stats, leaves, set(off_now), extra=dict(clk_n=ncls), plan_outs=plan_outs) and ok
            snaps.append(netgen.wire_values(b.hw))
        for k in ('construct:propagate', 'pre:propagate', 'propagating:propagate', 'clocking:clock', 'construct:sort'):
            stats['ev_' + k] = stats.get('ev_' + k, 0) + rec.phase_counts.get(k, 0)
        if leaves and late is None and rec.phase_counts.get('construct:propagate', 0) == 0:
            stats['no_propagate_at_construct'] = stats.get('no_propagate_at_construct', 0) + 1
    return ('ok' if ok else 'violated', inv, snaps)


def make_hist(plan, rnd, m):
    ws = {w['id']: w['w'] for w in plan['wires']}
    hist = []
    first = {i: rnd.getrandbits(ws[i]) for i in plan['inputs']} if rnd.random() < 0.6 else {}
    hist.append(first)
    for _ in range(m):
        h = {i: rnd.getrandbits(ws[i]) for i in plan['inputs']}
        x = rnd.random()
        if x < 0.25:
            h['#n'] = 0
        elif x < 0.35:
            h['#n'] = rnd.randint(2, 5)
        elif x < 0.38:
            h['#n'] = rnd.randint(17, 40)
        if rnd.random() < 0.2:
            h['#handle'] = rnd.choice(['direct', 'direct', 'scope', 'get'])
        hist.append(h)
    return hist


def check_plan(run, plan, rnd, k_orders, m_cycles, stats, meta, exhaustive_max=5, wire_perms=True):
    """Monitor 2 over one plan: identity is the reference; every other order must give the same wire values."""
    hist = make_hist(plan, rnd, m_cycles)
    bids = [b['id'] for b in plan['blocks']]
    wids = [w['id'] for w in plan['wires']]
    ph = netgen.plan_hash(plan)
    r0 = run_order(run, plan, bids, wids, hist, stats, meta)
    if r0[0] != 'ok':
        return r0[0]
    ref = r0[2]
    border = netgen.orders(bids, rnd, k_orders, exhaustive_max)
    cases = [(bo, wids, 'blocks') for bo in border[1:]]
    if len(bids) >= 2:
        cases.append((border[min(2, len(border) - 1)], wids, 'late'))
    cases.append((border[-1], wids, 'how:direct'))
    cases.append((bids, wids, 'how:' + rnd.choice(['direct', 'scope', 'twice'])))
    cases.append((border[1 % len(border)], wids, 'how:' + rnd.choice(['scope', 'twice'])))
    if wire_perms:
        for wo in netgen.orders(wids, rnd, 3, 0)[1:]:
            cases.append((bids, wo, 'wires'))
        p = list(wids)
        rnd.shuffle(p)
        cases.append((border[-1], p, 'both'))
    for bo, wo, which in cases:
        if run.too_many:
            break
        lk = rnd.randint(1, len(bids) - 1) if which == 'late' else None
        how = which[4:] if which.startswith('how:') else 'get'
        r = run_order(run, plan, bo, wo, hist, stats, meta, late=lk, how=how)
        stats['orders'] = stats.get('orders', 0) + 1
        if r[1] > 0:
            run.nt(stable_hash([ph, bo, wo]))
            stats['orders_needing_repair'] = stats.get('orders_needing_repair', 0) + 1
            stats['max_inversions'] = max(stats.get('max_inversions', 0), r[1])
        if r[0] != 'ok':
            continue
        snaps = r[2]
        for t, (a, c) in enumerate(zip(ref, snaps)):
            if c is None:
                continue
            run.ev()
            stats['snapshots_compared'] = stats.get('snapshots_compared', 0) + 1
            if a != c:
                diff = sorted(k for k in set(a) | set(c) if a.get(k) != c.get(k))[:6]
                run.violation('order_dependent_values', dict(when='construct' if t == 0 else 'after_clk', perm=which),
                              dict(plan=plan, block_order=bo, wire_order=wo, inputs=hist, meta=meta, late=lk, how=how),
                              expected={k: a.get(k) for k in diff}, observed={k: c.get(k) for k in diff},
                              what='wire values differ from the identity order at step %d (%s permuted): %s' % (t, which, diff[:3]))
                break
    return 'ok'


def check_cyclic(run, base, rnd, kind, stats, meta):
    """Monitor 4 over one faulted plan, under identity / reverse / random block orders."""
    plan = netgen.inject_cycle(base, rnd, kind)
    bids = [b['id'] for b in plan['blocks']]
    wids = [w['id'] for w in plan['wires']]
    ph = netgen.plan_hash(plan)
    meta = dict(meta, fault=plan['fault'])
    tab = stats.setdefault('rejection', {})
    for bo in netgen.orders(bids, rnd, 3, 0):
        hist = make_hist(plan, rnd, 2)
        r = run_order(run, plan, bo, wids, hist, stats, meta)
        fk = plan['fault']['kind']
        cyclic = (r[0] in ('refused', 'accepted_cyclic') and bool(r[2]))
        key = '%s:%s:%s' % (fk, 'cyclic' if cyclic else 'acyclic', {'refused': 'refused', 'accepted_cyclic': 'accepted'}.get(r[0], 'accepted'))
        tab[key] = tab.get(key, 0) + 1
        if cyclic or kind == 'reg':
            run.nt(stable_hash([ph, bo]))
        if kind == 'reg' and r[0] == 'ok':
            stats['reg_loops_accepted'] = stats.get('reg_loops_accepted', 0) + 1
        if run.too_many:
            break


# --------------------------------------------------------------------------- Monitor 5: several systems alive in one process

EXT_KINDS = ('Not', 'Buf', 'And2', 'Or2', 'Xor2', 'Reg')


def gen_extension(rnd, pool, n, tag):
    """n blocks added to a live system: each reads wires of the design (or of an earlier extension) and drives a new wire.
    pool: list of [ref, width], ref = ['plan', wire id] | ['ext', name]; grows with the new wires."""
    spec = []
    for k in range(n):
        kind = rnd.choice(EXT_KINDS)
        a = rnd.choice(pool[-6:] if rnd.random() < 0.6 else pool)
        ins = [a[0]]
        if kind in ('And2', 'Or2', 'Xor2'):
            same = [x for x in pool if x[1] == a[1]]
            ins.append(rnd.choice(same)[0])
        name = '%s_%d' % (tag, k)
        spec.append(dict(kind=kind, ins=ins, out=name, width=a[1]))
        pool.append([['ext', name], a[1]])
    return spec


def apply_extension(b, extw, spec):
    import py4hw
    def ref(r):
        return b.W[r[1]] if r[0] == 'plan' else extw[r[1]]
    with muted():
        for x in spec:
            w = b.hw.wire('x' + x['out'], x['width'])
            extw[x['out']] = w
            ins = [ref(r) for r in x['ins']]
            getattr(py4hw, x['kind'])(b.hw, 'xb' + x['out'], *(ins + [w]))


def gen_group(rnd, k, tier):
    """k systems, each with its own step list (build [with an early getSimulator() after `late` blocks], then rounds of
    sort / clk / extend, every extension followed by a sort before the next clk), and a random merge of the k lists"""
    systems = []
    for s in range(k):
        plan = netgen.gen_dag(rnd, rnd.randint(3, 9), prim_only=(rnd.random() < 0.5), n_regs=rnd.randint(0, 2), n_boxes=rnd.randint(0, 1), max_leaves=10, tier=tier)
        bids = [x['id'] for x in plan['blocks']]
        bo = list(bids)
        if rnd.random() < 0.5:
            rnd.shuffle(bo)
        late = rnd.randint(1, len(bids) - 1) if len(bids) >= 2 and rnd.random() < 0.5 else None
        ws = {w['id']: w['w'] for w in plan['wires']}
        pool = [[['plan', w['id']], w['w']] for w in plan['wires'] if not w.get('bidir')]

        def clk():
            return dict(op='clk', vals={i: rnd.getrandbits(ws[i]) for i in plan['inputs']}, n=rnd.choice([1, 1, 1, 0, rnd.randint(2, 4)]))
        steps = [dict(op='build')]
        for r in range(rnd.randint(1, 3)):
            steps.append(dict(op='sort'))
            steps += [clk() for _ in range(rnd.randint(0, 2))]
            if pool:
                steps.append(dict(op='extend', spec=gen_extension(rnd, pool, rnd.randint(1, 3), 's%dr%d' % (s, r))))
        steps.append(dict(op='sort'))
        steps += [clk() for _ in range(rnd.randint(1, 2))]
        systems.append(dict(plan=plan, block_order=bo, late=late, steps=steps))
    merge = [s for s in range(k) for _ in systems[s]['steps']]
    rnd.shuffle(merge)
    return systems, merge


def run_interleaved(run, systems, merge, stats, meta):
    """executes the merged step lists; after every sort the schedule monitor and after every clk the fixpoint monitor judge
    the system that made the step (leaves recomputed from the live design).  Returns the number of deciding events: clk
    calls on a system whose pending extension was sorted after ANOTHER system had been sorted in between."""
    case = dict(mode='multi', systems=systems, merge=merge, meta=meta)
    st = [dict(b=None, sim=None, pos=0, dirty_since=None, foreign=False, extw={}, judged_foreign=False) for _ in systems]
    kinds = stats.setdefault('multi_steps', {})
    deciding = 0
    tick = [0]
    sorts = []          # (tick, system) of every sort that had something to sort

    def note_sort(s, had_work):
        if had_work:
            sorts.append((tick[0], s))

    with hooks.install(keep_events=False):
        for s in merge:
            tick[0] += 1
            S = st[s]
            spec = systems[s]
            step = spec['steps'][S['pos']]
            S['pos'] += 1
            op = step['op']
            kinds[op] = kinds.get(op, 0) + 1
            where = dict(system=s, step=S['pos'] - 1, op=op)
            try:
                if op == 'build':
                    plan = spec['plan']
                    early = []

                    def on_pause(bb):
                        try:
                            with muted():
                                bb.hw.getSimulator()
                            note_sort(s, True)
                        except Exception as e:
                            early.append(e)
                    S['b'] = netgen.build(plan, spec['block_order'], None, pause_at=spec['late'], on_pause=on_pause if spec['late'] is not None else None)
                    if early:
                        raise early[0]
                    S['dirty_since'] = tick[0]
                    S['plan_outs'] = {id(S['b'].B[x['id']]): [S['b'].W[w] for w in x['outs']] for x in plan['blocks'] if x.get('prim') and x['kind'] != 'cat' and x['id'] in S['b'].B}
                elif op == 'extend':
                    apply_extension(S['b'], S['extw'], step['spec'])
                    stats['multi_blocks_added_to_live_system'] = stats.get('multi_blocks_added_to_live_system', 0) + len(step['spec'])
                    if S['dirty_since'] is None:
                        S['dirty_since'] = tick[0]
                elif op == 'sort':
                    b = S['b']
                    had_work = S['dirty_since'] is not None
                    foreign = had_work and any(t > S['dirty_since'] and o != s for t, o in sorts)
                    with muted():
                        S['sim'] = b.hw.getSimulator()
                    note_sort(s, had_work)
                    S['dirty_since'] = None
                    if had_work:
                        S['foreign'] = foreign
                    if foreign:
                        stats['multi_resorts_after_a_foreign_sort'] = stats.get('multi_resorts_after_a_foreign_sort', 0) + 1
                    leaves, succ = netgen.leaf_graph(b.hw)
                    if not netgen.comb_cycles(b.hw):
                        schedule_check(run, b, S['sim'], leaves, succ, dict(case, at=where), stats)
                else:
                    b = S['b']
                    b.poke(step['vals'])
                    with muted():
                        S['sim'].clk(step['n'])
                    leaves, succ = netgen.leaf_graph(b.hw)
                    stats['multi_clk_calls_judged'] = stats.get('multi_clk_calls_judged', 0) + 1
                    if S['foreign']:
                        deciding += 1
                        stats['multi_clk_calls_judged_after_foreign_sort'] = stats.get('multi_clk_calls_judged_after_foreign_sort', 0) + 1
                    fixpoint_check(run, S['sim'], 'after_clk', dict(case, at=where), stats, leaves,
                                   extra=dict(systems='several', resorted_after_foreign_sort=bool(S['foreign'])), plan_outs=S['plan_outs'])
            except Exception as e:
                run.ev()
                run.violation('sim_raises' if op == 'clk' else 'acyclic_refused' if op == 'sort' else 'legal_netlist_does_not_build',
                              dict(exc=type(e).__name__, systems='several', op=op), dict(case, at=where), observed=repr(e)[:200],
                              what='system %d of %d, step %d (%s) raises %r' % (s, len(systems), S['pos'] - 1, op, e))
                break
            if run.too_many:
                break
    return deciding


# --------------------------------------------------------------------------- workload

def run_check(run, tier, seed, shard):
    run.assume('stateless leaf = any leaf with propagate() except Latch, AsynchronousMemory, BidirBuf, GatedClock and Div/Mod while the divisor is 0 '
               '(those keep state or put random values); designs for the order-independence monitor contain none of them')
    run.assume('a combinational cycle = a cyclic strongly connected component (or self edge) of the graph over propagatable leaves recomputed '
               'from the leaves\' own inPorts/outPorts; a loop closed through a clock-only leaf (Reg) is legal and must be accepted')
    run.assume('"refused with an error" = HWSystem.getSimulator() raises any exception; an acyclic netlist must not be refused, whatever its size or order')
    quick = tier == 'quick'
    stats = {}
    t0 = time.time()
    budget = 400 if quick else 2400
    deadline = t0 + budget

    # 1. random DAGs x orders
    n_dags = 320 if quick else 9000
    idx = shard_slice(range(n_dags), shard)
    for i in idx:
        if time.time() > deadline or run.too_many:
            stats['dags_skipped_time'] = stats.get('dags_skipped_time', 0) + 1
            continue
        rnd = rng(seed, 'C04', 'dag', i)
        small = (i % 5 == 0)
        if small:
            plan = netgen.gen_dag(rnd, rnd.randint(3, 5), prim_only=(i % 2 == 0), n_regs=rnd.randint(0, 2), n_boxes=rnd.randint(0, 1), max_leaves=12, tier=tier)
            k = 120
        else:
            nb = rnd.randint(4, 16) if quick else rnd.randint(4, 40)
            plan = netgen.gen_dag(rnd, nb, prim_only=(i % 3 == 0), n_regs=rnd.randint(0, 4), n_boxes=rnd.randint(0, 3), tier=tier, p_abs=(0.2 if i % 3 == 1 else 0.0))
            k = 6 if quick else 16
        check_plan(run, plan, rnd, k, 3 if quick else 4, stats, dict(kind='dag', index=i), exhaustive_max=5 if (small or not quick) else 0)
        stats['dags'] = stats.get('dags', 0) + 1
        stats['abs_blocks'] = stats.get('abs_blocks', 0) + sum(1 for x in plan['blocks'] if x['kind'].startswith('Abs'))
        if stats['dags'] in (1, 7, 40):
            run.sample(dict(kind='dag', index=i, blocks=len(plan['blocks']), first_blocks=[(b['id'], b.get('entry', b['kind'])) for b in plan['blocks'][:6]]))

    # 1b. gated clock domains: wrappers with their own ClockDriver(enable=poked input / toggling register / delayed input)
    #     holding registers and combinational leaves fed from outside and from inside the domain
    n_gated = 70 if quick else 2400
    for i in shard_slice(range(n_gated), shard):
        if time.time() > deadline or run.too_many:
            stats['gated_skipped_time'] = stats.get('gated_skipped_time', 0) + 1
            continue
        rnd = rng(seed, 'C04', 'gated', i)
        plan = netgen.gen_gated(rnd, rnd.randint(2, 9) if quick else rnd.randint(2, 20), tier=tier, prim_only=(i % 3 == 0))
        check_plan(run, plan, rnd, 5 if quick else 10, 8 if quick else 12, stats, dict(kind='gated', index=i), exhaustive_max=0)
        stats['gated_plans'] = stats.get('gated_plans', 0) + 1
        if stats['gated_plans'] in (1, 9):
            run.sample(dict(kind='gated', index=i, blocks=len(plan['blocks']), gated_scopes=plan['gated'],
                            clocks=[s['clock'] for s in plan['scopes'] if s.get('clock')]))

    # 1c. several HWSystems alive in one process, their construction / extension / getSimulator() / clk steps interleaved
    n_groups = 70 if quick else 2400
    for i in shard_slice(range(n_groups), shard):
        if time.time() > deadline or run.too_many:
            stats['multi_skipped_time'] = stats.get('multi_skipped_time', 0) + 1
            continue
        rnd = rng(seed, 'C04', 'multi', i)
        k = 2 + i % 3
        systems, merge = gen_group(rnd, k, tier)
        dec = run_interleaved(run, systems, merge, stats, dict(kind='multi', index=i, k=k))
        stats['multi_groups'] = stats.get('multi_groups', 0) + 1
        stats['multi_systems'] = stats.get('multi_systems', 0) + k
        if dec:
            run.nt(stable_hash(['multi', [netgen.plan_hash(x['plan']) for x in systems], merge]))
        if stats['multi_groups'] in (1, 5):
            run.sample(dict(kind='multi', index=i, systems=k, steps=[[t['op'] for t in x['steps']] for x in systems], merge=merge, deciding_clk_calls=dec))

    # 2. inverter chains in reverse / random order (many-pass regime of the sorter)
    lengths = [50, 173, 400] if quick else [50, 64, 100, 173, 256, 300, 400, 333, 77, 128, 200, 350, 90, 150, 222, 380]
    for j in shard_slice(range(len(lengths)), shard):
        n = lengths[j]
        rnd = rng(seed, 'C04', 'chain', n)
        plan = netgen.gen_chain(n, rnd.choice([1, 3, 8]))
        bids = [b['id'] for b in plan['blocks']]
        wids = [w['id'] for w in plan['wires']]
        hist = make_hist(plan, rnd, 2)
        r0 = run_order(run, plan, bids, wids, hist, stats, dict(kind='chain', shape='chain', n=n))
        shuf = list(bids)
        rnd.shuffle(shuf)
        for bo, nm in ((list(reversed(bids)), 'reversed_chain'), (shuf, 'shuffled_chain')):
            r = run_order(run, plan, bo, wids, hist, stats, dict(kind='chain', shape=nm, n=n))
            stats['chains'] = stats.get('chains', 0) + 1
            if r[1] > 0:
                run.nt(stable_hash([netgen.plan_hash(plan), bo]))
            if r0[0] == 'ok' and r[0] == 'ok' and r0[2] != r[2]:
                run.violation('order_dependent_values', dict(when='chain', perm='blocks'), dict(plan=plan, block_order=bo, wire_order=wids, inputs=hist, meta=dict(shape=nm)),
                              what='%s of %d inverters: values differ from dataflow order' % (nm, n))
        run.sample(dict(kind='chain', n=n, inversions_reversed=n - 1))

    # 3. size classes: legal netlists with thousands of leaves and combinational paths deeper than 1000 leaves, in
    #    forward (dataflow), reversed, locally shuffled and fully shuffled instantiation order.  All must be accepted,
    #    settle, and give the same values as the dataflow order.  (Reversed / fully shuffled orders cost the pinned
    #    swap sorter O(n^3), so the quick tier keeps those at ~1000 leaves.)
    big = [('chain', 1001, 'reversed_chain'), ('chain', 1200, 'forward_chain'), ('chain', 1200, 'local_shuffle_chain'),
           ('chain', 2500, 'forward_chain'), ('layered', (1100, 3), 'forward_layered')]
    if not quick:
        big += [('chain', 1200, 'reversed_chain'), ('chain', 1200, 'shuffled_chain'), ('chain', 2500, 'local_shuffle_chain'),
                ('layered', (1500, 2), 'forward_layered'), ('layered', (40, 60), 'shuffled_layered'), ('layered', (1100, 3), 'local_shuffle_layered')]
    big_ref = {}
    for j in shard_slice(range(len(big)), shard):
        gen, size, shape = big[j]
        rnd = rng(seed, 'C04', 'big', gen, size)
        if gen == 'chain':
            plan = netgen.gen_chain(size, 1)
            hist = [{}, {'in0': 1}, {'in0': 0, '#n': 0}]
        else:
            plan = netgen.gen_layered(rnd, size[0], size[1])
            ws = plan['inputs']
            hist = [{i: rnd.getrandbits(1) for i in ws}, {i: rnd.getrandbits(1) for i in ws}, dict({i: rnd.getrandbits(1) for i in ws}, **{'#n': 0})]
        bids = [b['id'] for b in plan['blocks']]
        wids = [w['id'] for w in plan['wires']]
        rnd2 = rng(seed, 'C04', 'bigorder', j)
        if shape.startswith('forward'):
            bo = bids
        elif shape.startswith('reversed'):
            bo = list(reversed(bids))
        elif shape.startswith('local_shuffle'):
            bo = netgen.local_shuffle(bids, rnd2, 40 if gen == 'chain' else 2 * size[1] - 1)
        else:
            bo = list(bids)
            rnd2.shuffle(bo)
        nleaves = len(bids)
        key = stable_hash([gen, size])
        if not shape.startswith('forward') and key not in big_ref:
            # dataflow order of the same plan as the reference (cheap: one sorting pass)
            r0 = run_order(run, plan, bids, wids, hist, stats, dict(kind='big', shape='forward_' + gen, n=nleaves))
            if r0[0] == 'ok':
                big_ref[key] = ('forward', r0[2])
        r = run_order(run, plan, bo, wids, hist, stats, dict(kind='big', shape=shape, n=nleaves))
        stats['big_netlists'] = stats.get('big_netlists', 0) + 1
        stats['big_netlists_' + r[0]] = stats.get('big_netlists_' + r[0], 0) + 1
        stats['max_leaves'] = max(stats.get('max_leaves', 0), nleaves)
        run.nt(stable_hash(['big', gen, size, shape]))
        run.sample(dict(kind='big', generator=gen, size=size, order=shape, leaves=nleaves, result=r[0], inverted_edges=r[1]))
        if r[0] == 'ok':
            if key in big_ref and big_ref[key][1] != r[2]:
                run.violation('order_dependent_values', dict(when='big', perm='blocks'), dict(plan=plan, block_order=bo, wire_order=wids, inputs=hist, meta=dict(shape=shape)),
                              what='%s of %d leaves: values differ from the %s order' % (shape, nleaves, big_ref[key][0]))
            big_ref.setdefault(key, (shape, r[2]))

    # 4. rejection of combinational cycles
    n_cyc = 64 if quick else 2400
    kinds = netgen.FAULT_KINDS + netgen.LEGAL_KINDS
    for i in shard_slice(range(n_cyc), shard):
        if time.time() > deadline or run.too_many:
            stats['cyclic_skipped_time'] = stats.get('cyclic_skipped_time', 0) + 1
            continue
        rnd = rng(seed, 'C04', 'cyc', i)
        kind = kinds[i % len(kinds)]
        base = netgen.gen_dag(rnd, rnd.randint(2, 7) if quick else rnd.randint(2, 10), prim_only=(i % 2 == 0), n_regs=rnd.randint(0, 2), n_boxes=rnd.randint(0, 2), max_leaves=8, tier=tier)
        check_cyclic(run, base, rnd, kind, stats, dict(kind='cyclic', index=i))
        stats['cyclic_plans'] = stats.get('cyclic_plans', 0) + 1
        if i < 2:
            run.sample(dict(kind='cyclic', fault=kind, base_blocks=len(base['blocks'])))

    rej = stats.pop('rejection', {})
    run.extra['multi_system_steps_by_kind'] = stats.pop('multi_steps', {})
    for k, v in stats.items():
        if k.startswith('max_'):
            run.extra[k + '_by_shard'] = {str(shard[0] if shard else 0): v}
        else:
            run.count(k, v)
    run.extra['rejection_table'] = rej
    if shard is None:
        post_merge(run, tier, seed)


def post_merge(run, tier, seed):
    c = run.counters
    if c.get('fixpoint_checks', 0) == 0:
        run.inconclusive.append('fixpoint monitor never evaluated')
    if c.get('schedules_checked', 0) == 0:
        run.inconclusive.append('schedule monitor never evaluated')
    if c.get('snapshots_compared', 0) == 0:
        run.inconclusive.append('order-independence monitor never compared two orders')
    rej = run.extra.get('rejection_table', {})
    if not any(':cyclic:' in k for k in rej):
        run.inconclusive.append('rejection monitor saw no cyclic netlist')
    for k, why in (('further_handles_direct', 'no second Simulator(sys) handle was taken on a live simulator'),
                   ('abs_blocks', 'no run-time (AbstractLogic) leaf with instance-bound behaviour was simulated'), ('created_direct', 'no simulator was constructed directly with Simulator(sys)'), ('created_scope', 'no simulator was created by a Scope constructor'),
                   ('created_twice', 'getSimulator() was never called twice in a row'), ('clk_calls_n0', 'clk(0) was never called'), ('clk_calls_many', 'clk(n>1) was never called')):
        if not c.get(k):
            run.inconclusive.append(why)
    if not c.get('big_netlists'):
        run.inconclusive.append('no netlist of more than 1000 leaves was built')
    if not c.get('fixpoint_checks_in_gated_off_domain'):
        run.inconclusive.append('no fixpoint check was made on a leaf of a gated-off clock domain')
    for k, why in (('multi_groups', 'no group of several live systems was run'), ('multi_blocks_added_to_live_system', 'no block was added to a live system'),
                   ('multi_resorts_after_a_foreign_sort', 'no extended system was sorted again after another system had been sorted in between'),
                   ('multi_clk_calls_judged_after_foreign_sort', 'no clk() of a system extended and re-sorted around the sort of another system was judged')):
        if not c.get(k):
            run.inconclusive.append(why)
    if c.get('multi_skipped_time'):
        run.inconclusive.append('watchdog: %d multi-system groups skipped' % c['multi_skipped_time'])
    if c.get('gated_skipped_time'):
        run.inconclusive.append('watchdog: %d gated-domain cases skipped' % c['gated_skipped_time'])
    if c.get('dags_skipped_time') or c.get('cyclic_skipped_time'):
        run.inconclusive.append('watchdog: %d DAG and %d cyclic cases skipped' % (c.get('dags_skipped_time', 0), c.get('cyclic_skipped_time', 0)))


def replay(run, case):
    c = netgen.dehex(case['case'])
    if c.get('mode') == 'multi':
        stats = {}
        n0 = len(run.violations) + sum(v[1] for v in run.known_hits.values())
        run_interleaved(run, c['systems'], c['merge'], stats, c.get('meta', {}))
        for v in run.violations:
            print('replay:', v['key'], v['what'])
        bad = len(run.violations) + sum(v[1] for v in run.known_hits.values()) > n0
        if bad:
            print('VIOLATION property=C04 replay=replayed')
        return 1 if bad else 0
    plan = c['plan']
    stats = {}
    bids = [b['id'] for b in plan['blocks']]
    wids = [w['id'] for w in plan['wires']]
    hist = [{k: (int(v, 16) if isinstance(v, str) and not k.startswith('#') else v) for k, v in h.items()} for h in c.get('inputs', [{}])]
    meta = c.get('meta', {})
    n0 = len(run.violations) + sum(v[1] for v in run.known_hits.values())
    r = run_order(run, plan, c.get('block_order', bids), c.get('wire_order', wids), hist, stats, meta, late=c.get('late'), how=c.get('how', 'get'))
    print('replay: order under test ->', r[0], 'inverted edges', r[1])
    bad = len(run.violations) + sum(v[1] for v in run.known_hits.values()) > n0
    if r[0] == 'ok' and not plan.get('fault'):
        r0 = run_order(run, plan, bids, wids, hist, stats, meta)
        if r0[0] == 'ok' and [x for x, y in zip(r0[2], r[2]) if y is not None] != [y for y in r[2] if y is not None]:
            for t, (a, b_) in enumerate(zip(r0[2], r[2])):
                if b_ is None:
                    continue
                diff = sorted(k for k in a if a[k] != b_.get(k))
                if diff:
                    print('replay: step', t, 'differs from identity order on', [(k, a[k], b_.get(k)) for k in diff[:5]])
                    break
            bad = True
    for v in run.violations:
        print('replay:', v['key'], v['what'])
    for k, (e, n, w) in run.known_hits.items():
        print('replay: known finding', e['key'], 'x', n)
    if bad:
        print('VIOLATION property=C04 replay=replayed')
    return 1 if bad else 0
