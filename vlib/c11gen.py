"""C11 plan generator: background of non-faulting construction ops + one fault group (or its fresh-name twin)."""
from .c11seq import Model, PRIMS, HALF, recipe
from .common import muted

KINDS = ['readd_same_name', 'readd_new_name', 'readd_after_reader_detached', 'drv_dynamic_first', 'drv_dynamic_second', 'drv_dynamic_class_late', 'dup_iface_removed_shared', 'dup_iface_removed_used', 'disc_prim_then_drive', 'disc_struct_then_drive', 'disc_unrelated', 'drv_prim_prim', 'drv_same_leaf_twice', 'drv_same_block_twice', 'drv_wrap_then_outside', 'drv_outside_then_wrap',
         'drv_leaf_then_block', 'drv_block_then_leaf', 'drv_two_ports_one_leaf', 'drv_inout', 'drv_interface',
         'dup_child', 'dup_wire', 'dup_wires', 'dup_rename', 'dup_reparent', 'dup_reparent_rename',
         'dup_iface_plain_first', 'dup_iface_twice', 'dup_iface_cross', 'dup_iface_then_plain']

_PROBE = {}


def probe(src, entry, cfg):
    """mk call sequence and output names of a recipe, learnt from a throw-away build"""
    key = (src, entry, repr(cfg))
    if key not in _PROBE:
        import py4hw
        hw = py4hw.HWSystem()
        seq = []
        byid = {}

        def mk(n, w):
            seq.append([n, w])
            x = hw.wire(n, w)
            byid[id(x)] = n
            return x
        with muted():
            ins, outs = recipe(src, entry).build(hw, cfg, mk)
        _PROBE[key] = (seq, [byid[id(x)] for x in ins], [byid[id(x)] for x in outs])
        _PRIM[key] = hw.children['d'].isPrimitive()
    return _PROBE[key]


_PRIM = {}
_AXI = {}


def probe_axi(cls, args):
    """signals of a library interface class in creation order, and the signal names of its sub-interfaces (throw-away build)"""
    key = (cls, repr(args))
    if key not in _AXI:
        import py4hw
        from py4hw.logic.bus import axi
        hw = py4hw.HWSystem()
        with muted():
            f = getattr(axi, cls)(hw, 'p', *args)
        dirs = {}
        for n, w in f.sourceToSink:
            dirs[id(w)] = ('s2s', n)
        for n, w in f.sinkToSource:
            dirs[id(w)] = ('k2s', n)
        sigs = [[dirs[id(w)][0], dirs[id(w)][1], w.getWidth()] for w in hw._wires.values() if id(w) in dirs]
        subs = {}
        for which, fn in (('write', 'getWriteSubInterface'), ('read', 'getReadSubInterface')):
            if hasattr(f, fn):
                with muted():
                    sub = getattr(f, fn)()
                subs[which] = dict(s2s=[x[0] for x in sub.sourceToSink], k2s=[x[0] for x in sub.sinkToSource])
        _AXI[key] = (sigs, subs)
    return _AXI[key]


AXI_CLASSES = [('AXI4Interface', [32, 64, 4]), ('AXI4Interface', [16, 32, 2]), ('AXI4LiteInterface', [32, 32]), ('AXI4StreamInterface', [32])]


def probe_prim(src, entry, cfg):
    probe(src, entry, cfg)
    return _PRIM[(src, entry, repr(cfg))]


def block_pool(tier):
    from . import catalog, netblocks
    pool = []
    for e in catalog.ENTRIES:
        cfgs = e.configs(tier)
        step = max(1, len(cfgs) // (4 if tier == 'quick' else 12))
        pool += [('catalog', e.name, c) for c in cfgs[::step]]
    for r in netblocks.RECIPES:
        if 'fp' in r.tags:
            continue
        for c in r.configs(tier):
            if r.name == 'Stack_ShiftRegister' and c[2]:
                continue
            pool.append(('netblocks', r.name, c))
    return pool


STATS = {'homonym_wire_names': 0, 'moves_with_bystander_of_the_old_name_in_target': 0}


class Gen:
    def __init__(self, rnd, pool):
        self.rnd = rnd
        self.pool = pool
        self.m = Model()
        self.ops = []
        self.exp = []
        self.n = 0
        self.scopes = ['top']

    # ------------------------------------------------------------ basics
    def fresh(self, pfx='n'):
        self.n += 1
        return '%s%d' % (pfx, self.n)

    def emit(self, op):
        e, _ = self.m.apply(op, (len(self.ops),))
        self.ops.append(op)
        self.exp.append(e)
        if e is False and op['op'] in ('scope', 'wrap'):
            self.scopes.append(op['sid'])
        return e

    def scope(self):
        return self.rnd.choice(self.scopes)

    def width(self):
        return self.rnd.choice([1, 1, 2, 4, 8, 32])

    def homonym(self, scope, of=None):
        """a wire name that is in use in ANOTHER scope and free in this one (the same name in several parents is the normal
        case in real designs: a, r, clk_en ...); `of`: prefer the name of that wire.  None when there is none"""
        here = self.m.wire_names.get(scope, {})
        if of is not None:
            w = self.m.wires[of]
            return w['name'] if w['scope'] != scope and w['name'] not in here and w['name'] != 'clk' else None
        c = sorted(set(n for sid, names in self.m.wire_names.items() if sid != scope for n, wid in names.items()
                       if n not in here and n != 'clk' and not self.m.wires[wid].get('free')))
        return self.rnd.choice(c) if c else None

    def wname(self, scope):
        h = self.homonym(scope) if self.rnd.random() < 0.2 else None
        if h is not None:
            self.homonyms = getattr(self, 'homonyms', 0) + 1
        return h or self.fresh('w')

    def new_wire(self, scope=None, width=None, name=None, kind='wire'):
        wid = self.fresh('W')
        scope = scope or self.scope()
        self.emit(dict(op='wire', wid=wid, scope=scope, name=name or self.wname(scope), width=width or self.width(), kind=kind))
        return wid

    def bystander(self, moved, target):
        """before a wire is moved/renamed into `target`: with probability 1/2 make sure the target parent also owns a third wire
        that carries the moved wire's present name (when that is possible: another parent), so that a refused or successful
        move has an uninvolved homonym to disturb"""
        if self.rnd.random() < 0.5:
            h = self.homonym(target, of=moved)
            if h is not None:
                self.new_wire(scope=target, name=h, kind=self.rnd.choice(['wire', 'wire', 'bidir']))
                self.bystanders = getattr(self, 'bystanders', 0) + 1

    def _ord(self, width=None):
        return [k for k, w in self.m.wires.items() if w['kind'] == 'wire' and w['reg'] and not w.get('free') and k != 'W_clk'
                and (width is None or w['width'] == width)]

    def free_wire(self, width, prob_new=0.4):
        c = [k for k in self._ord(width) if self.m.wires[k]['driver'] is None]
        if c and self.rnd.random() > prob_new:
            return self.rnd.choice(c)
        return self.new_wire(width=width)

    def any_wire(self, width):
        c = self._ord(width)
        if c and self.rnd.random() < 0.7:
            return self.rnd.choice(c)
        return self.new_wire(width=width)

    # ------------------------------------------------------------ op builders (return the op, not emitted)
    def dyn_spec(self, mode=None, klass=None):
        return dict(klass=klass or self.fresh('K'), mode=mode or self.rnd.choice(['inst_before', 'inst_before', 'class_attach']),
                    meth=self.rnd.choice(['propagate', 'clock']))

    def leaf_op(self, scope=None, name=None, cls=None, width=None, outs=None, inouts=None, ins=None, dyn=None):
        cls = cls or self.rnd.choice(list(PRIMS) + ['HLeaf', 'HLeaf', 'Dyn', 'Dyn'])
        width = width or self.width()
        if cls == 'Dyn' and dyn is None:
            dyn = self.dyn_spec()       # by default a block that IS a primitive when its ports are declared
        if ins is None:
            if cls in ('HLeaf', 'Dyn'):
                ins = [self.any_wire(width) for _ in range(self.rnd.randrange(0, 3))]
            elif cls == 'Mux2':
                ins = [self.any_wire(1), self.any_wire(width), self.any_wire(width)]
            else:
                ins = [self.any_wire(width) for _ in range(PRIMS[cls])]
        if outs is None:
            outs = [self.free_wire(width)]
            if cls in ('HLeaf', 'Dyn') and self.rnd.random() < 0.3:
                o2 = self.free_wire(width)
                if o2 not in outs:
                    outs.append(o2)
        op = dict(op='leaf', cid=self.fresh('C'), scope=scope or self.scope(), name=name or self.fresh('u'), cls=cls,
                  ins=ins, outs=outs, inouts=inouts or [])
        if cls == 'Dyn':
            op['dyn'] = dyn
        return op

    def cat_op(self, scope=None, name=None, blk=None, bind_outs=None, same_ins_as=None):
        src, entry, cfg = blk or self.rnd.choice(self.pool)
        seq, ins, outs = probe(src, entry, cfg)
        widths = dict((n, w) for n, w in seq)
        bind = {}
        if same_ins_as is not None:
            for n in ins:
                bind[n] = same_ins_as['bind'].get(n) or same_ins_as['new'][n]
        else:
            for n in ins:
                if self.rnd.random() < 0.4:
                    bind[n] = self.any_wire(widths[n])
        if bind_outs:
            bind.update(bind_outs)
        new = dict((n, self.fresh('W')) for n, _ in seq if n not in bind)
        return dict(op='cat', cid=self.fresh('C'), scope=scope or self.scope(), name=name or self.fresh('b'), src=src, entry=entry,
                    cfg=cfg, mkseq=seq, outs=outs, insn=ins, prim=probe_prim(src, entry, cfg), bind=bind, new=new)

    def wrap_op(self, scope=None, name=None, target=None, depth=1, width=None, ins=None):
        width = width or self.width()
        target = target or self.free_wire(width)
        width = self.m.wires[target]['width']
        ins = ins or [self.any_wire(width) for _ in range(self.rnd.randrange(1, 3))]
        sid = self.fresh('S')
        iw = self.fresh('W')
        inner = [dict(op='wire', wid=iw, scope=sid, name=self.fresh('w'), width=width, kind='wire'),
                 dict(op='leaf', cid=self.fresh('C'), scope=sid, name=self.fresh('u'), cls=self.rnd.choice(['Buf', 'Not']),
                      ins=[ins[0]], outs=[iw], inouts=[])]
        if depth > 1:
            sub = dict(op='wrap', cid=self.fresh('C'), sid=self.fresh('S'), scope=sid, name=self.fresh('h'), ins=[iw], outs=[target], inner=None)
            sub['inner'] = self._wrap_tail(sub['sid'], iw, target, depth - 1, width)
            inner.append(sub)
        else:
            inner += self._wrap_tail(sid, iw, target, 0, width)
        if self.rnd.random() < 0.3:     # something after the driver, so a failure is not always at the last inner step
            inner.append(dict(op='wire', wid=self.fresh('W'), scope=sid, name=self.fresh('w'), width=1, kind='wire'))
        return dict(op='wrap', cid=self.fresh('C'), sid=sid, scope=scope or self.scope(), name=name or self.fresh('h'),
                    ins=ins, outs=[target], inner=inner)

    def _wrap_tail(self, sid, src, target, depth, width):
        if depth > 0:
            sub = dict(op='wrap', cid=self.fresh('C'), sid=self.fresh('S'), scope=sid, name=self.fresh('h'), ins=[src], outs=[target], inner=None)
            sub['inner'] = self._wrap_tail(sub['sid'], src, target, depth - 1, width)
            return [sub]
        return [dict(op='leaf', cid=self.fresh('C'), scope=sid, name=self.fresh('u'), cls=self.rnd.choice(['Buf', 'Not', 'HLeaf']),
                     ins=[src], outs=[target], inouts=[])]

    def iface(self, scope=None, name=None):
        iid = self.fresh('I')
        self.emit(dict(op='iface', iid=iid, scope=scope or self.scope(), name=name or self.fresh('bus')))
        return iid

    def ifwire(self, iid, name=None, d=None, width=None):
        wid = self.fresh('W')
        op = dict(op='ifwire', iid=iid, name=name or self.fresh('s'), dir=d or self.rnd.choice(['s2s', 'k2s']), width=width or self.width(), wid=wid)
        return op

    def axi(self, scope=None, name=None, full=False):
        cls, args = self.rnd.choice(AXI_CLASSES[:2] if full else AXI_CLASSES)
        sigs, subs = probe_axi(cls, args)
        iid = self.fresh('I')
        self.emit(dict(op='axi', iid=iid, scope=scope or self.scope(), name=name or self.fresh('axi'), cls=cls, args=args,
                       sigs=[[d, n, w, self.fresh('W')] for d, n, w in sigs]))
        return iid, subs

    def subif(self, of, subs, which=None):
        which = which or self.rnd.choice(sorted(subs))
        iid = self.fresh('I')
        self.emit(dict(op='subif', iid=iid, of=of, which=which, names=subs[which]))
        return iid

    def bg_interfaces(self):
        """library interfaces, sub-interfaces, references between plain interfaces, signals dropped again"""
        q = self.rnd.random()
        if q < 0.35:
            iid, subs = self.axi()
            if subs and self.rnd.random() < 0.7:
                self.subif(iid, subs)
        else:
            a = self._iface_with_wires()
            b = self.iface(scope=self.m.ifaces[a]['scope'])
            fa = self.m.ifaces[a]
            for d in ('s2s', 'k2s'):
                for n in list(fa['n_' + d]):
                    if self.rnd.random() < 0.7:
                        self.emit(dict(op='ifref', iid=b, of=a, dir=d, name=n))
            iid = b
        # drop some signals from an interface that holds them (shared ones stay wires of the parent; sole, unused ones are not judged)
        for _ in range(self.rnd.randrange(0, 3)):
            f = self.m.ifaces[iid]
            d = self.rnd.choice(['s2s', 'k2s'])
            if f['n_' + d]:
                self.emit(dict(op='ifremove', iid=iid, dir=d, name=self.rnd.choice(f['n_' + d])))

    # ------------------------------------------------------------ background
    def background(self):
        r = self.rnd.random()
        if r > 0.97:
            return self.bg_interfaces()
        if r < 0.22:
            self.new_wire(kind='bidir' if self.rnd.random() < 0.1 else 'wire')
        elif r < 0.27:
            k = self.rnd.randrange(1, 4)
            self.emit(dict(op='wires', wids=[self.fresh('W') for _ in range(k)], scope=self.scope(), prefix=self.fresh('v'), n=k, width=self.width()))
        elif r < 0.34:
            self.emit(dict(op='scope', cid=self.fresh('C'), sid=self.fresh('S'), scope=self.scope(), name=self.fresh('g')))
        elif r < 0.58:
            self.emit(self.leaf_op())
        elif r < 0.68:
            self.emit(self.cat_op())
        elif r < 0.76:
            self.emit(self.wrap_op(depth=self.rnd.randrange(1, 4)))
        elif r < 0.90:
            c = [k for k in self.m.wires if k != 'W_clk' and self.m.wires[k]['reg'] and not self.m.wires[k].get('free')]
            if not c:
                return self.new_wire()
            wid = self.rnd.choice(c)
            w = self.m.wires[wid]
            q = self.rnd.random()
            if q < 0.4:
                self.emit(dict(op='rename', wid=wid, new=self.fresh('w') if self.rnd.random() < 0.85 else w['name']))
            elif q < 0.7:
                to = self.scope()
                self.bystander(wid, to)
                self.emit(dict(op='reparentAndRename', wid=wid, to=to, new=self.fresh('w')))
            else:
                to = self.scope()
                if w['name'] in self.m.wire_names[to] and to != w['scope']:
                    to = w['scope']
                self.emit(dict(op='reparent', wid=wid, to=to))
        elif r < 0.92:
            self.bg_disconnect()
        elif r < 0.94:
            # an AbstractLogic object that has no behaviour yet when its ports are declared is a plain container: its ports
            # register nowhere, so even an already driven wire on its out port is accepted
            w = self.width()
            o = self.any_wire(w)
            if self.m.wires[o]['driver'] != HALF:
                self.emit(self.leaf_op(cls='Dyn', width=w, outs=[o], dyn=self.dyn_spec(mode=self.rnd.choice(['inst_after', 'plain']))))
        else:
            iid = self.iface()
            for _ in range(self.rnd.randrange(1, 4)):
                self.emit(self.ifwire(iid))
            if self.rnd.random() < 0.5:
                f = self.m.ifaces[iid]
                role = self.rnd.choice(['source', 'sink'])
                if all(self.m.wires[x]['driver'] is None for x in (f['s2s'] if role == 'source' else f['k2s'])):
                    self.emit(dict(op='ifleaf', cid=self.fresh('C'), scope=self.scope(), name=self.fresh('u'), iid=iid,
                                   prefix=self.rnd.choice(['', 'p']), role=role))

    def prim_drivers(self):
        """(wid, cid) pairs: ordinary wire whose registered driver is the own out port of a live primitive child"""
        out = []
        for wid in self._ord():
            d = self.m.wires[wid]['driver']
            if isinstance(d, tuple) and d[0] in self.m.children and self.m.children[d[0]]['prim'] and wid in self.m.children[d[0]]['outs']:
                out.append((wid, d[0]))
        return out

    def disc_op(self, wid, cid):
        op = dict(op='disconnect', wid=wid, cid=cid)
        # a catalogue block lives inside its container: aim at the block itself
        if any(o.get('cid') == cid and o['op'] == 'cat' for o in self.ops):
            op['inner'] = True
        return op

    def addport_op(self, cid, d, wid, same, via=None):
        op = dict(op='addport', cid=cid, dir=d, wid=wid, same=bool(same), name=self.fresh('p'), which=self.rnd.randrange(0, 3))
        if via:
            op['via'] = via
        return op

    def is_plain_leaf(self, cid):
        """a live primitive created by a 'leaf' step (its own object carries the ports)"""
        return cid in self.m.children and self.m.children[cid]['prim'] and any(o.get('cid') == cid and o['op'] == 'leaf' for o in self.ops)

    def bg_readd(self, cid, wid, was):
        """accept-only re-adding of ports on a block one of whose ports was just detached from wid: out ports only onto free
        wires (the released one or another), in ports onto free / driven / read wires; same or new port names"""
        w = self.m.wires[wid]['width']
        for _ in range(self.rnd.randrange(1, 3)):
            q = self.rnd.random()
            same = self.rnd.random() < 0.6 and was == ('out' if q < 0.5 else 'in')
            if q < 0.5:
                tgt = wid if (was == 'out' and self.m.wires[wid]['driver'] is None and self.rnd.random() < 0.5) else self.free_wire(w, 0.5)
                if self.m.wires[tgt]['driver'] is None:
                    self.emit(self.addport_op(cid, 'out', tgt, same))
            else:
                self.emit(self.addport_op(cid, 'in', self.any_wire(w), same, via='reconnectIn' if self.rnd.random() < 0.3 else None))

    def bg_disconnect(self):
        q = self.rnd.random()
        pd = self.prim_drivers()
        if q < 0.5 and pd:
            wid, cid = self.rnd.choice(pd)
            self.emit(self.disc_op(wid, cid))            # release the wire ...
            r = self.rnd.random()
            if r < 0.3 and self.is_plain_leaf(cid):
                self.bg_readd(cid, wid, 'out')           # ... and re-add ports on the released block
            elif r < 0.8:                                # ... and give it a new driver
                self.emit(self.leaf_op(width=self.m.wires[wid]['width'], outs=[wid]))
        else:
            readers = [(w, cid) for cid, c in self.m.children.items() if c['prim'] for w in c['ins']
                       if self.m.wires[w]['kind'] == 'wire' and self.m.wires[w]['driver'] != HALF]
            if readers:
                wid, cid = self.rnd.choice(readers)
                self.emit(self.disc_op(wid, cid))
                if self.rnd.random() < 0.4 and self.is_plain_leaf(cid):
                    self.bg_readd(cid, wid, 'in')
            else:
                self.new_wire()

    # ------------------------------------------------------------ fault groups (faulty=False: same ops, fresh names)
    def driven_by_leaf(self, width=None):
        c = [k for k in self._ord(width) if isinstance(self.m.wires[k]['driver'], tuple)]
        if c and self.rnd.random() < 0.6:
            return self.rnd.choice(c)
        op = self.leaf_op(width=width)
        self.emit(op)
        return op['outs'][0]

    def _readd(self, f, same, detach):
        """block B loses a port by disconnectWireFromLogicObject (detach='out': the out port that drove xb; 'in': a reading
        port), other things may happen, then B gets an out port again -- with the name of the detached port or a new name -- on a
        wire that another block (primitive, wrapper, or B's own other port) already drives: refused, the earlier driver stays.
        twin: the same history, the new out port goes onto a free wire (the released one or a fresh one)"""
        cls = self.rnd.choice(['Buf', 'Not', 'And2', 'Reg', 'HLeaf', 'HLeaf', 'Dyn', 'Mux2', 'Constant'])
        if detach == 'in' and cls == 'Constant':
            cls = 'Buf'
        b = self.leaf_op(cls=cls)
        if detach == 'in' and not b['ins']:
            b = self.leaf_op(cls='HLeaf', ins=[self.any_wire(1)], width=1)
        self.emit(b)
        w = self.m.wires[b['outs'][0]]['width']
        xb = b['outs'][0] if detach == 'out' else self.rnd.choice(b['ins'])
        # the wire the re-added port aims at
        how = self.rnd.choice(['leaf', 'leaf', 'wrap', 'existing', 'own_other_out'])
        if not f:
            xa = None
        elif how == 'wrap':
            a = self.wrap_op(depth=self.rnd.randrange(1, 3), width=w)
            self.emit(a)
            xa = a['outs'][0]
        elif how == 'existing':
            xa = self.driven_by_leaf(w)
        elif how == 'own_other_out' and detach == 'in':
            xa = b['outs'][0]
        else:
            a = self.leaf_op(width=w)
            self.emit(a)
            xa = a['outs'][0]
        if self.rnd.random() < 0.3:
            self.background()
        if not self.is_plain_leaf(b['cid']) or (detach == 'out' and self.m.wires[xb]['driver'] != (b['cid'], 0)) or \
                (detach == 'in' and xb not in self.m.children[b['cid']]['ins']):
            self.exp.append(None)       # the background disturbed the set-up: discard the plan
            return 1
        self.emit(self.disc_op(xb, b['cid']))
        q = self.rnd.random()
        if q < 0.25:
            self.background()
        elif q < 0.45:                  # an accepted re-add first (in port, any wire)
            self.emit(self.addport_op(b['cid'], 'in', self.any_wire(w), (same or self.rnd.random() < 0.5) and detach == 'in'))
        if f:
            if xa == xb or self.m.wires[xa]['driver'] in (None, HALF):
                self.exp.append(None)
                return 1
            self.emit(self.addport_op(b['cid'], 'out', xa, same and detach == 'out'))
            if detach == 'out' and self.rnd.random() < 0.5:         # and once more, the other way of naming
                self.emit(self.addport_op(b['cid'], 'out', xa, not same))
                return 2
            return 1
        tgt = xb if (detach == 'out' and self.m.wires[xb]['driver'] is None and self.rnd.random() < 0.5) else self.free_wire(w, 1.0)
        self.emit(self.addport_op(b['cid'], 'out', tgt, same and detach == 'out'))
        return 0

    def g_readd_same_name(self, f):
        return self._readd(f, True, 'out')

    def g_readd_new_name(self, f):
        return self._readd(f, False, 'out')

    def g_readd_after_reader_detached(self, f):
        return self._readd(f, self.rnd.random() < 0.5, 'in')

    def g_disc_prim_then_drive(self, f):
        """driver released by disconnect, second driver accepted; a third one (f) must be refused"""
        a = self.leaf_op(cls=self.rnd.choice(['Buf', 'Not', 'And2', 'Constant', 'Reg', 'HLeaf', 'Mux2']))
        self.emit(a)
        x = a['outs'][0]
        w = self.m.wires[x]['width']
        self.emit(self.disc_op(x, a['cid']))
        self.emit(self.leaf_op(width=w, outs=[x]))
        self.emit(self.leaf_op(width=w, outs=[x if f else self.free_wire(w, 1.0)]))
        return 1

    def g_disc_struct_then_drive(self, f):
        """the out port of a STRUCTURAL block sits on x (driver is a primitive inside): disconnecting the block is refused,
        the source stays, and the next driver on x is refused as well.  twin: disconnect the inner primitive-free way is not
        possible, so the twin aims the disconnect at a primitive driver and the new driver is accepted"""
        k = self.rnd.choice(['wrap', 'wrap', 'leaf', 'cat'])
        if not f:
            a = self.leaf_op(cls=self.rnd.choice(['Buf', 'Not', 'Or2', 'HLeaf']))
            self.emit(a)
            x = a['outs'][0]
            self.emit(self.disc_op(x, a['cid']))
            self.emit(self.leaf_op(width=self.m.wires[x]['width'], outs=[x]))
            return 0
        if k == 'wrap':
            a = self.wrap_op(depth=self.rnd.randrange(1, 4))
            x = a['outs'][0]
        elif k == 'leaf':
            a = self.leaf_op(cls=self.rnd.choice(sorted(['Nand2', 'Nor2', 'Xor2'])))
            x = a['outs'][0]
        else:
            for _ in range(200):
                blk = self.rnd.choice(self.pool)
                if not probe_prim(*blk) and probe(*blk)[2]:
                    break
            a = self.cat_op(blk=blk)
            o = self.rnd.choice(a['outs'])
            x = a['bind'].get(o) or a['new'][o]
        self.emit(a)
        self.emit(self.disc_op(x, a['cid']))
        if self.rnd.random() < 0.3:
            self.background()
        self.emit(self.leaf_op(width=self.m.wires[x]['width'], outs=[x]))
        return 2

    def g_disc_unrelated(self, f):
        """disconnecting an object that neither drives nor reads the wire is refused and changes nothing"""
        x = self.driven_by_leaf()
        w = self.m.wires[x]['width']
        other = self.leaf_op(width=w, ins=None, outs=[self.free_wire(w, 1.0)])
        other['ins'] = [i for i in other['ins'] if i != x] or []
        if other['cls'] not in ('HLeaf', 'Dyn') and len(other['ins']) != PRIMS.get(other['cls'], 0):
            other = self.leaf_op(cls='Constant', width=w, outs=other['outs'])
        self.emit(other)
        if f:
            self.emit(self.disc_op(x, other['cid']))
        else:
            y = other['outs'][0]
            self.emit(self.disc_op(y, other['cid']))
        return 1

    def g_drv_dynamic_first(self, f):
        """the first driver is an AbstractLogic object with instance- or class-bound behaviour attached before its ports"""
        a = self.leaf_op(cls='Dyn')
        self.emit(a)
        x = a['outs'][0]
        w = self.m.wires[x]['width']
        if self.rnd.random() < 0.5:
            self.emit(self.leaf_op(width=w, outs=[x if f else self.free_wire(w, 1.0)]))
        else:
            self.emit(self.wrap_op(target=x if f else self.free_wire(w, 1.0), depth=self.rnd.randrange(1, 3), width=w))

    def g_drv_dynamic_second(self, f):
        x = self.driven_by_leaf()
        w = self.m.wires[x]['width']
        self.emit(self.leaf_op(cls='Dyn', width=w, outs=[x if f else self.free_wire(w, 1.0)]))

    def g_drv_dynamic_class_late(self, f):
        """the class gets its behaviour only after a first instance (a plain container) already declared a port"""
        k = self.fresh('K')
        w = self.width()
        self.emit(self.leaf_op(cls='Dyn', width=w, outs=[self.any_wire(w)] if self.rnd.random() < 0.5 else [], dyn=self.dyn_spec('plain', k)))
        a = self.leaf_op(cls='Dyn', width=w, dyn=self.dyn_spec('class_attach', k))
        self.emit(a)
        x = a['outs'][0]
        self.emit(self.leaf_op(width=w, outs=[x if f else self.free_wire(w, 1.0)]))

    def g_drv_prim_prim(self, f):
        x = self.driven_by_leaf()
        w = self.m.wires[x]['width']
        self.emit(self.leaf_op(width=w, outs=[x if f else self.free_wire(w, 1.0)]))

    def g_drv_same_leaf_twice(self, f):
        a = self.leaf_op(cls=self.rnd.choice(list(PRIMS)))
        self.emit(a)
        w = self.m.wires[a['outs'][0]]['width']
        self.emit(self.leaf_op(scope=a['scope'], cls=a['cls'], ins=list(a['ins']), width=w, outs=list(a['outs']) if f else [self.free_wire(w, 1.0)]))

    def g_drv_same_block_twice(self, f):
        a = self.cat_op()
        self.emit(a)
        bo = dict((n, a['bind'].get(n) or a['new'][n]) for n in a['outs']) if f else None
        self.emit(self.cat_op(scope=a['scope'], blk=(a['src'], a['entry'], a['cfg']), bind_outs=bo, same_ins_as=a))

    def g_drv_wrap_then_outside(self, f):
        a = self.wrap_op(depth=self.rnd.randrange(1, 4))
        self.emit(a)
        x = a['outs'][0]
        w = self.m.wires[x]['width']
        self.emit(self.leaf_op(width=w, outs=[x if f else self.free_wire(w, 1.0)]))

    def g_drv_outside_then_wrap(self, f):
        x = self.driven_by_leaf()
        w = self.m.wires[x]['width']
        self.emit(self.wrap_op(target=x if f else self.free_wire(w, 1.0), depth=self.rnd.randrange(1, 4), width=w))

    def _blk_with_out(self):
        for _ in range(50):
            blk = self.rnd.choice(self.pool)
            seq, ins, outs = probe(*blk)
            if outs:
                return blk, dict((n, w) for n, w in seq), outs
        raise RuntimeError('no block with outputs')

    def g_drv_leaf_then_block(self, f):
        blk, widths, outs = self._blk_with_out()
        o = self.rnd.choice(outs)
        x = self.driven_by_leaf(widths[o])
        self.emit(self.cat_op(blk=blk, bind_outs={o: x} if f else None))

    def g_drv_block_then_leaf(self, f):
        blk, widths, outs = self._blk_with_out()
        a = self.cat_op(blk=blk)
        self.emit(a)
        o = self.rnd.choice(outs)
        x = a['bind'].get(o) or a['new'][o]
        self.emit(self.leaf_op(width=widths[o], outs=[x if f else self.free_wire(widths[o], 1.0)]))

    def g_drv_two_ports_one_leaf(self, f):
        w = self.width()
        x = self.free_wire(w)
        y = x if f else self.free_wire(w, 1.0)
        self.emit(self.leaf_op(cls='HLeaf', width=w, outs=[x, y]))

    def g_drv_inout(self, f):
        w = self.width()
        if self.rnd.random() < 0.5:
            x = self.driven_by_leaf(w)
            self.emit(self.leaf_op(cls='HLeaf', width=w, outs=[], inouts=[x if f else self.free_wire(w, 1.0)]))
        else:
            x = self.free_wire(w)
            self.emit(self.leaf_op(cls='HLeaf', width=w, outs=[], inouts=[x]))
            self.emit(self.leaf_op(width=w, outs=[x if f else self.free_wire(w, 1.0)]))

    def _iface_with_wires(self):
        iid = self.iface()
        self.emit(self.ifwire(iid, d='s2s'))
        self.emit(self.ifwire(iid, d='k2s'))
        if self.rnd.random() < 0.5:
            self.emit(self.ifwire(iid))
        return iid

    def g_drv_interface(self, f):
        iid = self._iface_with_wires()
        role = self.rnd.choice(['source', 'sink'])
        fw = self.m.ifaces[iid]
        if self.rnd.random() < 0.5:
            self.emit(dict(op='ifleaf', cid=self.fresh('C'), scope=self.scope(), name=self.fresh('u'), iid=iid, prefix='', role=role))
        else:
            x = (fw['s2s'] if role == 'source' else fw['k2s'])[0]
            self.emit(self.leaf_op(width=self.m.wires[x]['width'], outs=[x]))
        if not f:
            iid = self._iface_with_wires()
        self.emit(dict(op='ifleaf', cid=self.fresh('C'), scope=self.scope(), name=self.fresh('u'), iid=iid, prefix=self.rnd.choice(['', 'q']), role=role))

    def _child_maker(self, scope, name):
        k = self.rnd.choice(['leaf', 'leaf', 'scope', 'wrap', 'cat', 'ifleaf'])
        if k == 'leaf':
            return self.leaf_op(scope=scope, name=name)
        if k == 'scope':
            return dict(op='scope', cid=self.fresh('C'), sid=self.fresh('S'), scope=scope, name=name)
        if k == 'wrap':
            return self.wrap_op(scope=scope, name=name, depth=self.rnd.randrange(1, 3))
        if k == 'cat':
            return self.cat_op(scope=scope, name=name)
        iid = self._iface_with_wires()
        return dict(op='ifleaf', cid=self.fresh('C'), scope=scope, name=name, iid=iid, prefix='', role='source')

    def g_dup_child(self, f):
        s = self.scope()
        live = [n for n, c in self.m.child_names[s].items() if c is not None]
        if live and self.rnd.random() < 0.5:
            name = self.rnd.choice(live)
        else:
            name = self.fresh('u')
            self.emit(self._child_maker(s, name))
        self.emit(self._child_maker(s, name if f else self.fresh('u')))

    def g_dup_wire(self, f):
        s = self.scope()
        names = list(self.m.wire_names[s])
        if names and self.rnd.random() < 0.6:
            name = self.rnd.choice(names)
        else:
            name = self.fresh('w')
            self.new_wire(scope=s, name=name, kind=self.rnd.choice(['wire', 'wire', 'bidir']))
        self.new_wire(scope=s, name=name if f else self.fresh('w'), kind=self.rnd.choice(['wire', 'wire', 'wire', 'bidir']))

    def g_dup_wires(self, f):
        s = self.scope()
        p = self.fresh('v')
        n = self.rnd.randrange(1, 5)
        j = self.rnd.randrange(n)
        self.new_wire(scope=s, name='%s_%d' % (p, j))
        self.emit(dict(op='wires', wids=[self.fresh('W') for _ in range(n)], scope=s, prefix=p if f else self.fresh('v'), n=n, width=self.width()))

    def _two_wires(self, same_scope):
        s = self.scope()
        t = s if same_scope else self.scope()
        a = self.new_wire(scope=s, kind=self.rnd.choice(['wire', 'wire', 'bidir']))
        b = self.new_wire(scope=t)
        return a, b

    def g_dup_rename(self, f):
        a, b = self._two_wires(True)
        if self.rnd.random() < 0.5 and self.m.wires[a]['kind'] == 'wire':     # the renamed wire may already be in use
            self.emit(self.leaf_op(width=self.m.wires[b]['width'], outs=[b]))
        self.emit(dict(op='rename', wid=b, new=self.m.wires[a]['name'] if f else self.fresh('w')))

    def g_dup_reparent(self, f):
        s = self.scope()
        if len(self.scopes) < 2 or self.rnd.random() < 0.3:
            self.emit(dict(op='scope', cid=self.fresh('C'), sid=self.fresh('S'), scope=s, name=self.fresh('g')))
        t = self.rnd.choice([x for x in self.scopes if x != s])
        name = self.fresh('w')
        self.new_wire(scope=t, name=name)
        b = self.new_wire(scope=s, name=name if f else self.fresh('w'))
        self.emit(dict(op='reparent', wid=b, to=t))

    def g_dup_reparent_rename(self, f):
        a, b = self._two_wires(False)
        self.bystander(b, self.m.wires[a]['scope'])
        self.emit(dict(op='reparentAndRename', wid=b, to=self.m.wires[a]['scope'], new=self.m.wires[a]['name'] if f else self.fresh('w')))

    def g_dup_iface_plain_first(self, f):
        s = self.scope()
        bus, x = self.fresh('bus'), self.fresh('x')
        self.new_wire(scope=s, name=bus + '_' + x)
        iid = self.iface(scope=s, name=bus)
        self.emit(self.ifwire(iid, name=x if f else self.fresh('x')))

    def g_dup_iface_twice(self, f):
        iid = self.iface()
        x = self.fresh('x')
        self.emit(self.ifwire(iid, name=x))
        self.emit(self.ifwire(iid, name=x if f else self.fresh('x')))

    def g_dup_iface_cross(self, f):
        s = self.scope()
        a, b, c = self.fresh('a'), self.fresh('b'), self.fresh('c')
        i1 = self.iface(scope=s, name=a)
        self.emit(self.ifwire(i1, name=b + '_' + c))
        i2 = self.iface(scope=s, name=a + '_' + b)
        self.emit(self.ifwire(i2, name=c if f else self.fresh('c')))

    def _retake(self, scope, bus, sig, width, f):
        """try to create a wire called <bus>_<sig> in scope again, one of four ways (f False: a fresh name instead)"""
        name = bus + '_' + sig
        how = self.rnd.randrange(4)
        if how == 0:
            self.new_wire(scope=scope, name=name if f else self.fresh('w'), width=width, kind=self.rnd.choice(['wire', 'wire', 'bidir']))
        elif how == 1:
            other = self.iface(scope=scope, name=bus if f else self.fresh('bus'))
            self.emit(self.ifwire(other, name=sig, width=width))
        elif how == 2:
            b = self.new_wire(scope=scope)
            self.emit(dict(op='rename', wid=b, new=name if f else self.fresh('w')))
        else:
            b = self.new_wire()
            self.emit(dict(op='reparentAndRename', wid=b, to=scope, new=name if f else self.fresh('w')))

    def g_dup_iface_removed_shared(self, f):
        """a signal held by two interfaces (AXI4 + its write/read sub-interface, or two plain interfaces sharing by reference) is
        dropped from one of them: its wire is still a wire of the parent, the name stays taken"""
        if self.rnd.random() < 0.6:
            full, subs = self.axi(full=True)
            sub = self.subif(full, subs)
        else:
            full = self._iface_with_wires()
            sub = self.iface(scope=self.m.ifaces[full]['scope'])
            for d in ('s2s', 'k2s'):
                for n in self.m.ifaces[full]['n_' + d]:
                    self.emit(dict(op='ifref', iid=sub, of=full, dir=d, name=n))
        fs = self.m.ifaces[sub]
        d = self.rnd.choice([x for x in ('s2s', 'k2s') if fs['n_' + x]])
        k = self.rnd.randrange(len(fs['n_' + d]))
        sig, wid = fs['n_' + d][k], fs[d][k]
        width = self.m.wires[wid]['width']
        if self.rnd.random() < 0.5:      # the design keeps using the wire through the other interface
            self.emit(self.leaf_op(cls='Constant', width=width, outs=[wid]))
        # dropped from the sub-interface (the usual trimming) or from the full one (the sub-interface keeps it)
        self.emit(dict(op='ifremove', iid=sub if self.rnd.random() < 0.7 else full, dir=d, name=sig))
        for _ in range(self.rnd.randrange(0, 3)):
            self.background()
        self._retake(self.m.ifaces[full]['scope'], self.m.ifaces[full]['name'], sig, width, f)

    def g_dup_iface_removed_used(self, f):
        """a signal is dropped from its only interface while blocks are attached to its wire: still a wire of the parent"""
        iid = self._iface_with_wires()
        fi = self.m.ifaces[iid]
        d = self.rnd.choice([x for x in ('s2s', 'k2s') if fi['n_' + x]])
        k = self.rnd.randrange(len(fi['n_' + d]))
        sig, wid = fi['n_' + d][k], fi[d][k]
        width = self.m.wires[wid]['width']
        if self.rnd.random() < 0.5:
            self.emit(self.leaf_op(cls=self.rnd.choice(['Constant', 'Buf', 'Reg']), width=width, outs=[wid]))
        else:
            self.emit(self.leaf_op(cls=self.rnd.choice(['Buf', 'Not']), width=width, ins=[wid]))
        self.emit(dict(op='ifremove', iid=iid, dir=d, name=sig))
        self._retake(fi['scope'], fi['name'], sig, width, f)

    def g_dup_iface_then_plain(self, f):
        s = self.scope()
        bus, x = self.fresh('bus'), self.fresh('x')
        iid = self.iface(scope=s, name=bus)
        self.emit(self.ifwire(iid, name=x))
        name = bus + '_' + x if f else self.fresh('w')
        if self.rnd.random() < 0.5:
            self.new_wire(scope=s, name=name)
        else:
            b = self.new_wire(scope=s)
            self.emit(dict(op='rename', wid=b, new=name))


def make_plan(rnd, pool, kind, faulty):
    """-> (plan, n_expected_faults) or None when the generator broke its own contract"""
    g = Gen(rnd, pool)
    for _ in range(rnd.randrange(0, 7)):
        g.background()
    want = getattr(g, 'g_' + kind)(faulty)
    want = (1 if want is None else want) if faulty else 0
    for _ in range(rnd.randrange(0, 4)):
        g.background()
    if any(e is None for e in g.exp):
        return None
    nf = sum(1 for e in g.exp if e)
    if nf != want:
        return None
    STATS['homonym_wire_names'] += getattr(g, 'homonyms', 0)
    STATS['moves_with_bystander_of_the_old_name_in_target'] += getattr(g, 'bystanders', 0)
    return g.ops, nf
