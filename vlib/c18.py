"""C18 -- a schematic shows the circuit that exists: every block once, wired as built (DESIGN.md section C18)."""
import json
import os
import subprocess
import time

from . import c18net
from .common import PYTHON, ROOT, rng, run_dir, shard_slice, stable_hash

LEVEL = 'exploration'
RULE = ('Schematic(obj, placeAndRoute=True) built in a child process (20 s alarm per schematic) for (a) every catalogue block '
        'that is structural, at 3 (quick) / all (thorough) configurations, (b) the storage/clock/FP/fixed-point structural blocks, '
        '(b2) every catalogue/storage/clock/FP block as the single CHILD of a harness wrapper, one configuration per distinct port '
        'signature (optional ports connected or not), '
        '(c) generated netlists inside a harness structural block (gates, adders, muxes, multi-output leaves, registers, library blocks '
        'with their optional/multiple ports connected: Add ci/co, Abs inverted, Reg enable/reset, ShiftRight arithmetic, DelayLine, '
        'Comparator, Swap, counters; several outputs of one block converging on one sink with another reader created later and a '
        'register loop behind; children instantiated in data-flow, reversed or random order; chains, '
        'fan-out, register feedback incl. q->own d, edges spanning several columns, one wire on two pins), observer children without outputs (py4hw.Scope on wires, py4hw.Waveform on wires or on '
        'PORTS of the drawn block) created first / in the middle / last, (d) size class: chains of '
        '400/800 (thorough up to 900) instances created output-first, input-first or in random order, drawn under the interpreter '
        'default recursion limit; (e) fan-in class: every n-input library block (And, Or, Nor, Xor, Concatenate*, Scope, Waveform) at fan-ins '
        '2,3,4,8,13,16,17,32,64,(128,256,)300 (thorough also 24..400); (e2) subclass class: a child whose class is a user subclass of a '
        'library block with a symbol of its own (Not, Buf, And2, Or2, Nor2, Xor2, Add, Sub, Mul, Mux2, Reg, Bit, Range, And, Or) '
        'declaring 1-3 more input and/or 1-2 more output ports after super().__init__, next to a plain instance of the base; (f) history class: several Schematic objects in ONE process over '
        'blocks of one hierarchy that share Wire objects (enclosing system, block, structural children, a grandchild; parent-first, '
        'child-first, the same block twice, sibling after sibling, interleaved), every drawing judged by the full oracle plus '
        '"every net endpoint is a symbol object of this drawing"; the object graph '
        '(objs, nets, symbol_matrix) is judged offline. non-trivial = the drawing needed a pass-through or feedback marker, or has '
        'fan-out > 1, or >= 8 instances; distinct by content hash of the case')
SHARDS = {'quick': 1, 'thorough': 16}
TIMEOUT = {'quick': 600, 'thorough': 3000}
MIN_NONTRIVIAL = {'quick': 100, 'thorough': 3000}

LIMIT_S = 20
FANINS = [2, 3, 4, 8, 13, 16, 17, 32, 64, 128, 256, 300]
WIDE_CLASSES = ['And', 'Or', 'Nor', 'Xor', 'ConcatenateMSBF', 'ConcatenateLSBF', 'Scope', 'Waveform']
QUICK_BIG_ONLY_FOR_SYMBOLS = (128, 256)
SCHEDULES = ['parent_child', 'child_parent', 'twice', 'siblings', 'interleaved']
N_MULTI_NET = {'quick': 45, 'thorough': 600}
N_NET = {'quick': 400, 'thorough': 24000}
BATCH = 150
MAX_TIMEOUTS = 3


def assumptions(run):
    run.assume('a wire is "used inside the block" when a child port or a block port is attached to it; wires with no driver pin inside '
               'the drawn block (or more than one) are outside the statement (quantifier: internal wires all driven) and are counted, not judged')
    run.assume('"touches the pin" is read at pin level: some net of the wire leaves the driving symbol with sourcePort = the driving '
               'port, and for every reading port some net of the wire arrives at its symbol with sinkPort = that port')
    run.assume('"no pin of any other wire": every sourcePort/sinkPort carried by a net of wire w has .wire is w, every non-marker '
               'endpoint symbol of such a net owns a pin on w, and no pass-through/feedback marker is shared between two wires')
    run.assume('the drawn figure of a wire = the routed poly-lines (net.x, net.y) of its nets plus the line a pass-through marker draws; it '
               'must not run over the pin point of another wire (pins already reported as drawn on one point are not reported twice)')
    run.assume('overlap is judged among instance and port symbols only (markers excluded), on (x, y, getWidth(), getHeight())')
    run.assume('termination = the constructor returns within %d s (alarm in the child; unchanged tree needs < 1 s for every case); '
               'a constructor that raises yields no schematic and is a violation as well' % LIMIT_S)
    run.assume('a schematic is a function of the block as it is when Schematic() is called: drawings made earlier in the same process (of the '
               'same block, its parent, a child, a sibling) must not change it; every symbol a net ends on is an object of this drawing '
               '(member of its objs)')
    run.assume('n-input library blocks are legal at any fan-in the constructor accepts; the pins of one symbol are distinct points')
    run.assume('exceptions swallowed by placeAndRoute ("WARNING: error ...") are counted; the verdict comes from the object graph')


# ------------------------------------------------------------------------------------------------ workload

def _is_structural(src, name, cfg, cache={}):
    import py4hw
    from .c11seq import recipe
    from .common import muted
    k = (src, name, repr(cfg))
    if k not in cache:
        hw = py4hw.HWSystem()
        try:
            with muted():
                recipe(src, name).build(hw, cfg, hw.wire)
            cache[k] = hw.children['d'].isStructural()
        except Exception:
            cache[k] = False
    return cache[k]


def workload(tier, seed, shard):
    from . import catalog, netblocks
    cases = []
    for src, lst in (('catalog', catalog.ENTRIES), ('netblocks', netblocks.RECIPES)):
        for r in lst:
            cfgs = [c for c in r.configs(tier) if not (r.name == 'Stack_ShiftRegister' and c[2])]
            if not cfgs or not _is_structural(src, r.name, cfgs[-1]):
                continue
            if tier == 'quick' and len(cfgs) > 3:
                cfgs = [cfgs[0], cfgs[len(cfgs) // 2], cfgs[-1]]
            elif len(cfgs) > 40:
                st = len(cfgs) / 40.0
                cfgs = [cfgs[int(k * st)] for k in range(40)]
            for c in cfgs:
                if _is_structural(src, r.name, c):
                    cases.append(dict(type='block', src=src, block=r.name, cfg=c))
    # every library block as a CHILD symbol, one configuration per distinct port signature (optional ports connected or not)
    from .c11gen import probe
    for src, lst in (('catalog', catalog.ENTRIES), ('netblocks', netblocks.RECIPES)):
        for r in lst:
            sigs = {}
            cfgs = r.configs(tier)
            for c in cfgs:
                try:
                    seq, ins, outs = probe(src, r.name, c)
                except Exception:
                    continue
                if r.name == 'Stack_ShiftRegister' and c[2]:
                    continue
                sigs.setdefault((len(ins), len(outs)), []).append(c)
            for sig, cs in sorted(sigs.items()):
                pick = [cs[0], cs[-1]] if len(cs) > 1 else [cs[0]]
                if tier == 'thorough' and len(cs) > 4:
                    pick += [cs[len(cs) // 3], cs[2 * len(cs) // 3]]
                for c in pick[:(2 if len(sigs) > 2 or tier == 'quick' else 4)]:
                    cases.append(dict(type='child', src=src, block=r.name, cfg=c))
    # size class: long chains must still yield a schematic, whatever the order in which the children were created
    chains = [(400, 'output_first', 'Not'), (800, 'output_first', 'Not'), (800, 'input_first', 'Buf'), (400, 'random', 'Reg')]
    if tier == 'thorough':
        chains += [(n, o, c) for n in (200, 600, 900) for o in ('output_first', 'input_first', 'random') for c in ('Not', 'HLeaf')]
        chains += [(800, 'random', 'Reg'), (400, 'input_first', 'HLeaf'), (800, 'output_first', 'Reg')]
    for k, (n, o, c) in enumerate(chains):
        cases.append(dict(type='chain', n=n, order=o, cls=c, w=1 if k % 2 == 0 else 4, order_seed=seed * 1000 + k))
    # fan-in class: every n-input library block at a geometric family of fan-ins (the pin pitch of a symbol may depend on n)
    fanins = FANINS + ([24, 100, 200, 240, 241, 255, 257, 400] if tier == 'thorough' else [])
    for cls in WIDE_CLASSES:
        for k, n in enumerate(fanins):
            if tier == 'quick' and n in QUICK_BIG_ONLY_FOR_SYMBOLS and cls not in ('And', 'Or'):
                continue    # quick: the classes drawn with the generic instance symbol go 2..64 and the maximum; And/Or (own symbols) all
            cases.append(dict(type='gate', cls=cls, n=n, w=1 if (k + len(cls)) % 2 else 4))
    # subclass class: children whose class is a user subclass of a library block that has a symbol of its own, adding ports
    shapes = [(1, 0), (0, 1), (2, 1)] + ([(2, 0), (1, 1), (0, 2), (2, 2), (3, 0)] if tier == 'thorough' else [])
    for j, base in enumerate(sorted(c18net.SUBCLASS_BASES)):
        for k, (xin, xout) in enumerate(shapes):
            for w in ((1, 4, 8) if tier == 'thorough' else ((1, 4)[(j + k) % 2],)):
                cases.append(dict(type='subclass', base=base, xin=xin, xout=xout, w=w))
    nets = []
    for i in range(N_NET[tier]):
        rnd = rng(seed, 'C18net', i)
        nets.append(dict(type='net', plan=c18net.gen_netlist(rnd, big=(i % 5 == 4), observer=(i % 12 == 5))))
    cases += nets
    # history class: several Schematic objects in ONE process over blocks of one hierarchy (they share Wire objects): the enclosing
    # system, the block, its structural children and a grandchild, drawn parent-first, child-first, twice, sibling after sibling,
    # interleaved.  Bases: every structural library block, library blocks as a child, generated netlists (with library children).
    bases = [c for c in cases if c['type'] == 'block']
    if tier == 'quick':
        seen_b = set()
        bases = [c for c in bases if not (c['block'] in seen_b or seen_b.add(c['block']))]
    bases += [c for c in cases if c['type'] == 'child'][::(7 if tier == 'quick' else 2)]
    with_lib = [c for c in nets if any(nd['cls'] == 'Lib' for nd in c['plan']['nodes'])]
    _wl = set(id(c) for c in with_lib)
    bases += with_lib[:N_MULTI_NET[tier]] + [c for c in nets if id(c) not in _wl][:N_MULTI_NET[tier] // 3]
    for k, b in enumerate(bases):
        sch = SCHEDULES if tier == 'thorough' else [SCHEDULES[(k + seed) % len(SCHEDULES)]]
        for sc in sch:
            cases.append(dict(type='multi', schedule=sc, base=dict((k_, v) for k_, v in b.items() if k_ != 'idx')))
    cases = shard_slice(cases, shard)
    for k, c in enumerate(cases):
        c['idx'] = k
    return cases


# ------------------------------------------------------------------------------------------------ child driver

def run_children(cases, d, limit_s=LIMIT_S, deadline=None):
    """-> {idx: result}.  One child per batch; a child that stops reporting is killed and the case it had started is a timeout."""
    results = {}
    todo = list(cases)
    n_children = 0
    while todo:
        batch, todo = todo[:BATCH], todo[BATCH:]
        job = os.path.join(d, 'job-%d.json' % n_children)
        outp = os.path.join(d, 'res-%d.jsonl' % n_children)
        n_children += 1
        with open(job, 'w') as f:
            json.dump(dict(limit_s=limit_s, max_timeouts=MAX_TIMEOUTS, cases=batch), f)
        open(outp, 'w').close()
        env = dict(os.environ, PYTHONHASHSEED='0', MPLBACKEND='Agg')
        p = subprocess.Popen([PYTHON, '-m', 'vlib.c18child', job, outp], cwd=ROOT, env=env, stdout=subprocess.DEVNULL, stderr=subprocess.PIPE)
        started = None
        t_started = time.time()
        pos = 0
        err = b''
        killed = False
        while True:
            try:
                _, err = p.communicate(timeout=0.3)
                done = True
            except subprocess.TimeoutExpired:
                done = False
            with open(outp) as f:
                f.seek(pos)
                chunk = f.read()
            if chunk and not chunk.endswith('\n'):
                chunk = chunk[:chunk.rfind('\n') + 1]
            pos += len(chunk)
            for line in chunk.splitlines():
                r = json.loads(line)
                if 'start' in r:
                    started, t_started = r['start'], time.time()
                elif 'idx' in r:
                    results[r['idx']] = r
                    started = None
                elif 'import_failed' in r:
                    results['import_failed'] = r['import_failed']
            if done:
                break
            # the in-child alarm should have fired long ago: the child is stuck where signals do not reach
            if time.time() - t_started > limit_s + 12 + (8 if started is None else 0):
                p.kill()
                p.communicate()
                killed = True
                break
        if 'import_failed' in results:
            return results
        if started is not None and started not in results:
            results[started] = dict(idx=started, timeout=True, dt=limit_s, killed_by_parent=killed,
                                    child_died=None if killed else (err or b'').decode(errors='replace')[-300:])
            rest = [c for c in batch if c['idx'] not in results]
            todo = rest + todo
            # a few non-terminating schematics decide the run; do not pay 20 s for each of the remaining ones
            if sum(1 for r in results.values() if isinstance(r, dict) and r.get('timeout')) >= MAX_TIMEOUTS:
                results['stopped_early'] = True
                break
        elif not killed and p.returncode not in (0, None):
            rest = [c for c in batch if c['idx'] not in results]
            for c in rest[:1]:
                results[c['idx']] = dict(idx=c['idx'], harness_error='child exited rc=%s: %s' % (p.returncode, (err or b'').decode(errors='replace')[-300:]))
            todo = rest[1:] + todo
        if sum(1 for r in results.values() if isinstance(r, dict) and r.get('timeout')) >= MAX_TIMEOUTS:
            results['stopped_early'] = True
            break
        if deadline and time.time() > deadline:
            break
    return results


# ------------------------------------------------------------------------------------------------ judging

def describe(case):
    if case['type'] in ('block', 'child'):
        return '%s%s%r' % ('child ' if case['type'] == 'child' else '', case['block'], tuple(case['cfg']) if isinstance(case['cfg'], (list, tuple)) else case['cfg'])
    if case['type'] == 'chain':
        return 'chain of %d %s created %s' % (case['n'], case['cls'], case['order'])
    if case['type'] == 'gate':
        return '%d-input %s (w=%d)' % (case['n'], case['cls'], case['w'])
    if case['type'] == 'subclass':
        return 'user subclass of %s with %d more inputs and %d more outputs (w=%d) next to a plain %s' % (case['base'], case['xin'], case['xout'], case['w'], case['base'])
    if case['type'] == 'multi':
        return 'drawings %s of the hierarchy of %s in one process' % (case['schedule'], describe(case['base']))
    return 'netlist(%d nodes)' % len(case['plan']['nodes'])


def judge(run, case, res):
    run.ev()
    cls = case['block'] if case['type'] == 'block' else ('child:' + case['block'] if case['type'] == 'child' else
                                                         'chain' if case['type'] == 'chain' else
                                                         'wide:' + case['cls'] if case['type'] == 'gate' else
                                                         'subclass:' + case['base'] if case['type'] == 'subclass' else
                                                         'multi:' + case['schedule'] if case['type'] == 'multi' else 'netlist')
    kase = dict((k, v) for k, v in case.items() if k != 'idx')
    if 'harness_error' in res:
        run.inconclusive.append('harness error on %s: %s' % (describe(case), res['harness_error'][:300]))
        return
    if res.get('timeout'):
        run.violation('c18_timeout', dict(clause='terminates', workload=case['type']), kase, expected='constructor returns within %d s' % LIMIT_S,
                      observed='still running after %s s' % res.get('dt'), what='Schematic(%s) did not terminate within %d s' % (describe(case), LIMIT_S))
        return
    if res.get('raised'):
        run.violation('c18_raises', dict(clause='yields', exception=res['raised'], workload=case['type']), kase, expected='a schematic',
                      observed='%s: %s' % (res['raised'], res.get('raised_text')), what='Schematic(%s) raised %s: %s' % (describe(case), res['raised'], res.get('raised_text', '')[:100]))
        return
    st = res['stats']
    for k in ('nets', 'passthrough', 'feedback', 'missing', 'wires_judged', 'wires_no_reader', 'wires_undriven_excluded', 'pins_judged', 'symbols'):
        run.count('sch_' + k, st[k])
    run.count('schematics_judged')
    run.extra['max_construction_s'] = max(run.extra.get('max_construction_s', 0), res['dt'])
    if res['swallowed']:
        run.count('swallowed_internal_errors', res['swallowed'])
        run.extra.setdefault('swallowed_texts', [])
        t = res.get('swallowed_text', '')[:100]
        if t not in run.extra['swallowed_texts'] and len(run.extra['swallowed_texts']) < 12:
            run.extra['swallowed_texts'].append(t)
    feats = c18net.features(case['plan']) if case['type'] == 'net' else {}
    if case['type'] == 'multi':
        # the ordinary feature counters are about single drawings; the several drawings of one hierarchy are counted apart
        st = dict(st, passthrough=0, feedback=0)
    if st['passthrough'] or st['feedback'] or feats.get('max_fanout', 0) > 1 or res.get('children', 0) >= 8:
        run.nt(stable_hash(kase))
    if st['passthrough']:
        run.count('schematics_with_passthrough')
    if st['feedback']:
        run.count('schematics_with_feedback')
    if feats.get('lib_nodes'):
        run.count('netlists_with_library_nodes')
        run.count('netlist_library_optional_ports_connected', feats['lib_optional_ports'])
    if feats.get('converging_outputs'):
        run.count('netlists_with_converging_outputs_of_one_block')
    if feats.get('creation_order_permuted'):
        run.count('netlists_with_permuted_creation_order')
    run.count('sch_route_segments_judged', st.get('route_segments_judged', 0))
    if feats.get('observer'):
        run.count('netlists_with_observer_child')
        run.count('observer_' + feats['observer'])
    if case['type'] == 'chain':
        run.count('long_chains_drawn')
        run.count('long_chains_drawn_%d_%s' % (case['n'], case['order']))
    if case['type'] == 'child':
        run.count('library_blocks_drawn_as_child')
    if case['type'] == 'gate':
        run.count('wide_gates_drawn')
        fi = run.extra.setdefault('wide_gate_fanins_drawn', {})
        fi['%s:%d' % (case['cls'], case['n'])] = fi.get('%s:%d' % (case['cls'], case['n']), 0) + 1
        run.nt(stable_hash(kase))
    if case['type'] == 'subclass':
        run.count('user_subclasses_of_library_symbols_drawn')
        sb = run.extra.setdefault('user_subclass_extra_ports_drawn', {})
        kk = '%s:+%din+%dout' % (case['base'], case['xin'], case['xout'])
        sb[kk] = sb.get(kk, 0) + 1
        run.nt(stable_hash(kase))
    if case['type'] == 'multi':
        m = res.get('multi', {})
        run.count('multi_cases')
        run.count('multi_drawings', m.get('drawings', 0))
        run.count('multi_later_drawings_sharing_a_wire', m.get('later_drawings_sharing_a_wire', 0))
        run.count('multi_shared_wires', m.get('shared_wires', 0))
        run.count('multi_redraws_of_same_block', m.get('redraws', 0))
        roles = m.get('roles', [])
        for a, b in zip(roles, roles[1:]):
            rel = run.extra.setdefault('multi_consecutive_drawings', {})
            kk = '%s->%s' % (a.rstrip('0123456789'), b.rstrip('0123456789'))
            rel[kk] = rel.get(kk, 0) + 1
        if m.get('later_drawings_sharing_a_wire'):
            run.nt(stable_hash(kase))
    run.count('sch_net_endpoints_judged', st.get('net_endpoints_judged', 0))
    run.count('sch_pin_positions_judged', st.get('pin_positions_judged', 0))
    if feats.get('max_span', 0) >= 3:
        run.count('netlists_with_edge_spanning_3_columns')
    if feats.get('self_loops'):
        run.count('netlists_with_register_self_loop')
    seen = set()
    for pr in res['problems']:
        f = dict(clause=pr['clause'], workload=case['type'])
        f.update(pr['fields'])
        # (several drawings in one case: the swallowed error that counts is the one of the drawing the problem is in)
        sw = pr.get('swallowed_text', res.get('swallowed_text', ''))
        n_sw = pr.get('swallowed', res['swallowed'])
        f['swallowed'] = sw.split(':')[0][:40] if n_sw else None
        f['swallowed_kind'] = (None if not n_sw else 'multiple_nets' if 'ple nets between' in sw else
                               'not_in_remove_nets' if 'not in remove nets' in sw else sw.split(':')[0][:40])
        key = 'c18_' + pr['clause']
        sig = json.dumps([key, f], sort_keys=True, default=repr)
        if sig in seen:
            continue
        seen.add(sig)
        run.violation(key, f, kase, expected='one symbol per child/port, disjoint, every wire one connected figure on its own pins',
                      observed=pr['text'] + ((' | swallowed: ' + sw) if n_sw else ''),
                      what='%s: %s' % (describe(case), pr['text']))
    per = run.extra.setdefault('schematics_per_class', {})
    per[cls] = per.get(cls, 0) + 1


def run_check(run, tier, seed, shard):
    assumptions(run)
    cases = workload(tier, seed, shard)
    t0 = time.time()
    with run_dir() as d:
        dd = os.path.join(d, 'c18-%s' % ('all' if shard is None else shard[0]))
        os.makedirs(dd, exist_ok=True)
        results = run_children(cases, dd, deadline=t0 + (400 if tier == 'quick' else 2500))
    if 'import_failed' in results:
        run.inconclusive.append('py4hw.schematic failed to import in the child: %s' % results['import_failed'])
        return
    missing = 0
    for c in cases:
        r = results.get(c['idx'])
        if r is None:
            missing += 1
            continue
        judge(run, c, r)
        if run.counters.get('schematics_judged', 0) % 61 == 1 and 'stats' in r:
            run.sample(dict(case=describe(c), seconds=r['dt'], stats=r['stats'], swallowed=r['swallowed'], problems=r['n_problems']))
        if run.too_many:
            break
    if results.get('stopped_early'):
        run.count('cases_not_run_after_%d_timeouts' % MAX_TIMEOUTS, missing)
    elif missing:
        run.inconclusive.append('%d cases were never reported by a child (watchdog)' % missing)
    if shard is None:
        floor(run, tier)


def floor(run, tier):
    c = run.counters
    for k, n in (('multi_later_drawings_sharing_a_wire', 50), ('multi_redraws_of_same_block', 10), ('wide_gates_drawn', len(WIDE_CLASSES) * (len(FANINS) - 2)),
                 ('sch_net_endpoints_judged', 1000), ('user_subclasses_of_library_symbols_drawn', 3 * len(c18net.SUBCLASS_BASES))):
        if c.get(k, 0) < n:
            run.inconclusive.append('%s = %d (< %d): the class was not exercised' % (k, c.get(k, 0), n))
    for k, n in (('schematics_with_passthrough', 20), ('schematics_with_feedback', 20), ('netlists_with_edge_spanning_3_columns', 20), ('sch_wires_judged', 500)):
        if c.get(k, 0) < n:
            run.inconclusive.append('%s = %d (< %d): the deciding shapes were not reached' % (k, c.get(k, 0), n))


def post_merge(run, tier, seed):
    floor(run, tier)


def replay(run, case):
    c = dict(case['case'])
    c['idx'] = 0
    with run_dir() as d:
        results = run_children([c], d)
    r = results.get(0, {})
    bad = bool(r.get('timeout') or r.get('raised') or r.get('problems') or 'harness_error' in r)
    print('replay %s: %s' % (describe(c), 'timeout' if r.get('timeout') else r.get('raised') or r.get('harness_error') or
                             [p['text'] for p in r.get('problems', [])] or 'no problem'))
    if r.get('swallowed'):
        print('  swallowed internal error:', r.get('swallowed_text'))
    if bad:
        print('VIOLATION property=C18 replay=replayed')
    return 1 if bad else 0
